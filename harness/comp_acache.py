"""C13 – async cache under concurrency: real `haiway.cache` on async functions/methods vs `hwmodel acache`.

Case (one line):  <limit> <expiration|-> <f|m|F|M> op*      (F / M: every caller makes its call inside its own
                  `async with ctx.scope(...)` – nothing may change: the invocation belongs to no caller's scope)
  call:<key>        create the next caller task of the cached coroutine function (numbered in creation order)
  cancel:<caller>   cancel that caller task
  fin:<inv>:<o|x|c> open the gate the invocation <inv> of the wrapped coroutine is waiting on (result / exception / the
                    coroutine raises CancelledError itself)
  adv:<dt>          advance the virtual clock
  run               run the loop to quiescence and take a snapshot
After the last op: run, open all closed gates with a result, run.
Observation: snapshot;…|<key>@<start>,… per invocation|cancellation seen inside invocation (bits)
"""
from __future__ import annotations

import asyncio
import re

from harness import core, vloop

PID = "C13"
LEAN_COMPONENT = "acache"
PROPS_MODULE = "Haiway.Props.C13"
ANCHORS = ["src/haiway/helpers/caching.py"]
RULE = ("case = configuration (limit 1..2, expiration none/2/3/5, function|method) + schedule over {create caller for key "
        "0..2, cancel caller, open the gate of an invocation with result|exception, advance clock, run loop to quiescence}; "
        "the wrapped coroutine blocks on a per-invocation gate, so callers arrive before the invocation starts, while it "
        "runs, after its gate opened and after it finished, and any caller is cancelled before it started, while suspended, "
        "or after the gate opened; quick: directed corpus + all pruned schedules of length<=5 (<=3 callers, 2 keys, limit 1, "
        "expiration none|2) + 4000 random schedules with 2..4 callers (sometimes up to 6); thorough: length<=7 + 150000 random. "
        "non-trivial = at least two callers received the outcome of one invocation (shared in-flight call) AND (a pending "
        "caller was cancelled OR the same key was invoked twice: expiry/eviction); distinct = by case text")
TRUSTED = ["asyncio semantics as modelled in Haiway/Model/AsyncCache.lean: FIFO ready queue (callers enter in creation order), "
           "Task.cancel of a task suspended on shield() cancels only the outer future, a task cancelled before its first "
           "step never runs its coroutine body",
           "harness/comp_acache.py run_real + monitor (virtual loop harness/vloop.py)"]
ASSUMPTIONS = ["the wrapped coroutine cancels nobody (it may end with a CancelledError of its own: outcome `c`)",
               "integer clock and expirations; expiration=0 (never expires) is not generated",
               "single event loop, callers are plain tasks"]

KEYS = 3


class Boom(Exception):
    pass


def parse_case(case: str):
    toks = case.split()
    if len(toks) < 3 or not toks[0].isdigit() or toks[2] not in ("f", "m", "F", "M"):
        return None
    if toks[1] == "-":
        exp = None
    elif toks[1].isdigit():
        exp = int(toks[1])
    else:
        return None
    ops = []
    for t in toks[3:]:
        p = t.split(":")
        if p == ["run"]:
            ops.append(("run",))
        elif len(p) == 2 and p[0] in ("call", "cancel", "adv") and p[1].isdigit():
            ops.append((p[0], int(p[1])))
        elif len(p) == 3 and p[0] == "fin" and p[1].isdigit() and p[2] in ("o", "x", "c"):
            ops.append(("fin", int(p[1]), p[2]))
        else:
            return None
    return int(toks[0]), exp, toks[2], ops


def run_real(case: str) -> str:
    from haiway import cache

    parsed = parse_case(case)
    if parsed is None:
        return "bad-case"
    limit, exp, variant, ops = parsed
    scoped = variant.isupper()
    variant = variant.lower()
    loop = vloop.new_loop()
    try:
        t0 = vloop.CLOCK.now
        invs: list[dict] = []

        async def body(key):
            rec = {"key": key, "gate": loop.create_future(), "seen": False, "start": int(vloop.CLOCK.now - t0)}
            idx = len(invs)
            invs.append(rec)
            try:
                out = await rec["gate"]
            except asyncio.CancelledError:
                rec["seen"] = True
                raise
            if out == "x":
                raise Boom(idx)
            if out == "c":
                raise asyncio.CancelledError()      # the coroutine ends cancelled on its own (a cancelled dependency)
            return (key, idx)

        kw = dict(limit=limit, expiration=None if exp is None else float(exp))
        if variant == "f":
            @cache(**kw)
            async def fn(key):
                return await body(key)

            make = fn
        else:
            class Holder:
                @cache(**kw)
                async def m(self, key):
                    return await body(key)

            holder = Holder()
            make = holder.m
        if scoped:
            from haiway import ctx

            plain = make

            async def make(key):      # noqa: F811 - the caller's own scope around the call
                async with ctx.scope("caller"):
                    return await plain(key)

        callers: list[asyncio.Task] = []
        snaps: list[str] = []

        def token(t: asyncio.Task) -> str:
            if not t.done():
                return "."
            if t.cancelled():
                return "c"
            exc = t.exception()
            if exc is None:
                r = t.result()
                return f"v{r[1]}" if isinstance(r, tuple) and len(r) == 2 else "Eresult"
            if type(exc) is Boom:
                return f"x{exc.args[0]}"
            return "E" + type(exc).__name__

        def run() -> None:
            loop.quiesce()
            snaps.append(",".join(token(t) for t in callers) + f"/{len(invs)}")

        def fin(i: int, o: str) -> None:
            if i < len(invs) and not invs[i]["gate"].done():
                invs[i]["gate"].set_result(o)

        for op in ops:
            if op[0] == "run":
                run()
            elif op[0] == "call":
                callers.append(loop.create_task(make(op[1])))
            elif op[0] == "cancel":
                if op[1] < len(callers):
                    callers[op[1]].cancel()
            elif op[0] == "fin":
                fin(op[1], op[2])
            elif op[0] == "adv":
                vloop.CLOCK.now += op[1]
        run()
        for i in range(len(invs)):
            fin(i, "o")
        run()
        inv_s = ",".join(f"{r['key']}@{r['start']}" for r in invs)
        seen = "".join("1" if r["seen"] else "0" for r in invs)
        return ";".join(snaps) + "|" + inv_s + "|" + seen
    except vloop.NoQuiescence:
        return "no-quiescence"
    finally:
        vloop.close_loop(loop)



def setup() -> None:
    """Local workaround (reported): harness/vloop.py freezes `time.monotonic` process-wide, and
    `multiprocessing.connection.wait(…, timeout=0.0)` then never reaches its deadline – the Pool used by
    core.run_real_many in the thorough tier spins and never terminates.  multiprocessing gets the real clock."""
    import multiprocessing.connection as mpc
    import multiprocessing.queues as mpq
    import time
    import types

    shim = types.SimpleNamespace(monotonic=vloop.real_monotonic, sleep=vloop._REAL_SLEEP, time=time.time)
    mpc.time = shim
    mpq.time = shim


# ------------------------------------------------------------------------------------------------
# the property on the implementation's observations (independent of the Lean model)

TOK = re.compile(r"^(\.|c|[vx]\d+)$")


def monitor(case: str, out: str) -> list[str]:
    parsed = parse_case(case)
    if parsed is None:
        return [] if out == "bad-case" else ["acache.no-observation"]
    limit, exp, _variant, ops = parsed
    parts = out.split("|")
    if len(parts) != 3:
        return ["acache.no-observation:" + out[:20]]
    snaps = [s.rsplit("/", 1) for s in parts[0].split(";")]
    n_runs = sum(1 for o in ops if o[0] == "run") + 2
    if len(snaps) != n_runs or any(len(s) != 2 or not s[1].isdigit() for s in snaps):
        return ["acache.no-observation:snapshots"]
    snap_tokens = [s[0].split(",") if s[0] else [] for s in snaps]
    snap_ninv = [int(s[1]) for s in snaps]
    invs = []
    for it in parts[1].split(",") if parts[1] else []:
        m = re.match(r"^(\d+)@(\d+)$", it)
        if not m:
            return ["acache.no-observation:invocations"]
        invs.append((int(m.group(1)), int(m.group(2))))
    fails: list[str] = []
    if "1" in parts[2]:
        fails.append("acache.invocation-cancelled")
    if len(parts[2]) != len(invs) or snap_ninv[-1] != len(invs):
        fails.append("acache.no-observation:counts")
        return fails

    # replay the schedule on the harness side only: who was created when, what the harness did to whom
    callers = []          # dict(key, call_run, cancelled: bool)
    fired: dict[int, tuple[str, int]] = {}     # invocation -> (outcome, run index before which its gate was opened)
    r = 0                 # index of the next run
    now = 0
    run_time = []
    for op in list(ops) + [("run",), ("drain",), ("run",)]:
        if op[0] == "run":
            run_time.append(now)
            r += 1
        elif op[0] == "call":
            callers.append({"key": op[1], "run": r, "cancelled": False, "ord": len(callers)})
        elif op[0] == "cancel":
            c = op[1]
            if c < len(callers):
                prev = snap_tokens[r - 1][c] if r > 0 and c < len(snap_tokens[r - 1]) else "."
                if prev == ".":
                    callers[c]["cancelled"] = True      # cancelled while not done
        elif op[0] == "fin":
            started = snap_ninv[r - 1] if r > 0 else 0
            if op[1] < started and op[1] not in fired:
                fired[op[1]] = (op[2], r)
        elif op[0] == "adv":
            now += op[1]
        elif op[0] == "drain":
            for i in range(snap_ninv[r - 1]):
                fired.setdefault(i, ("o", r))
    final = snap_tokens[-1]
    if len(final) != len(callers) or not all(TOK.match(t) for t in final):
        bad = next((t for t in final if not TOK.match(t)), "count")
        return fails + ["acache.unexpected-exception:" + re.sub(r"\d+", "N", bad)[:24]]

    joined: dict[int, int] = {}
    for c, (info, tok) in enumerate(zip(callers, final)):
        if tok == ".":
            if not info["cancelled"]:
                fails.append("acache.caller-hangs")
            continue
        if tok == "c":
            # cancelled itself, or the invocation it shared ended cancelled on its own (everyone awaiting it goes with it)
            if not info["cancelled"] and not any(o == "c" and t < len(invs) and invs[t][0] == info["key"]
                                                 for t, (o, _r) in fired.items()):
                fails.append("acache.caller-cancelled-spuriously")
            continue
        t = int(tok[1:])
        if t >= len(invs):
            fails.append("acache.unknown-invocation")
            continue
        joined[c] = t
        if invs[t][0] != info["key"]:
            fails.append("acache.wrong-key")
        want = fired.get(t, ("o", 0))[0]
        if (tok[0] == "v") != (want == "o"):
            fails.append("acache.outcome-mismatch")
    # snapshots are monotone, and delivery is prompt: once the gate of `t` was opened before run r, every caller that
    # (finally) has t's outcome and was created before run r has it in the snapshot of run r
    for c, info in enumerate(callers):
        seen_tok = None
        for ri, toks in enumerate(snap_tokens):
            tok = toks[c] if c < len(toks) else None
            if tok is None:
                continue
            if seen_tok is not None and seen_tok != "." and tok != seen_tok:
                fails.append("acache.outcome-changed")
            seen_tok = tok
            if c in joined and tok == "." and info["run"] <= ri and joined[c] in fired and fired[joined[c]][1] <= ri:
                fails.append("acache.late-delivery")
    # single flight: two callers of one key, the later one arriving while the earlier one's invocation is still the
    # key's entry (fewer than `limit` other keys in between, unexpired), must have joined the same invocation
    order = sorted(joined, key=lambda c: (callers[c]["run"], c))
    for i, c1 in enumerate(order):
        for c2 in order[i + 1:]:
            a, b = callers[c1], callers[c2]
            if a["key"] != b["key"] or joined[c1] == joined[c2]:
                continue
            between = {x["key"] for x in callers
                       if x["key"] != a["key"] and (a["run"], a["ord"]) < (x["run"], x["ord"]) < (b["run"], b["ord"])}
            t_enter = run_time[b["run"]]
            unexpired = exp is None or (exp != 0 and t_enter <= invs[joined[c1]][1] + exp)
            if len(between) < limit and unexpired and exp != 0:
                fails.append("acache.not-shared")
    return sorted(set(fails))


# ------------------------------------------------------------------------------------------------
# cases


def extra_obligations():
    """`_SyncCache.__call__/__method_call__` and `_AsyncCache.__call__/__method_call__` regenerated from /repo's caching.py as
    MiniPy terms (the two async entry points here); Lean re-checks that each, run on the image of a model table with the clock, the computed key and
    the function's behaviour as parameters, ends in the image of `Cache.call` with its answer: hit = the stored product and
    most recent afterwards, an entry past its expiry dropped, a miss invokes exactly once, the oldest entry evicted beyond `limit`"""
    from harness import core, regen

    return [e for e in regen.check("cache", core.REPO, core.LEAN) if ".async_" in e["name"]]


def corpus():
    base = [
        "1 - f call:0 call:0 call:0 run cancel:1 fin:0:x run",                 # shared failure, middle waiter cancelled
        "1 - f call:0 call:0 run cancel:0 fin:0:o run",                        # the caller that started it is cancelled
        "1 - f call:0 call:0 call:0 run cancel:0 cancel:2 run fin:0:o run",
        "1 - f call:0 cancel:0 call:0 run fin:0:o run",                        # cancelled before it ever started
        "1 - f call:0 run cancel:0 run call:0 run fin:0:o run",                # everybody gone, invocation lives on, cached
        "1 - f call:0 call:0 run fin:0:o cancel:1 run call:0 run",             # cancelled after the gate opened
        "1 - f call:0 run call:0 fin:0:o run",                                 # arrives before / after the gate opens
        "1 - f call:0 call:0 run fin:0:c run call:0 run",                      # the invocation ends cancelled on its own
        "1 2 f call:0 run adv:3 call:0 run fin:0:c run call:0 run fin:1:o run",  # ... after its entry expired and a new one started
        "1 - f call:0 run call:1 run fin:0:c run call:0 run call:1 run",         # ... after its entry was evicted
        "1 - f call:0 run fin:0:o call:0 run",
        "1 - f call:0 run fin:0:x run call:0 call:0 run",                      # finished failure is served again
        "1 - f call:0 run call:1 run call:0 run fin:0:o fin:1:x fin:2:o run",  # eviction in flight (limit 1)
        "1 - f call:0 call:1 call:0 call:1 run fin:3:o fin:2:x fin:1:o fin:0:x run",
        "1 - f call:0 call:0 run call:1 run cancel:0 fin:0:x run call:0 run",
        "2 - f call:0 call:1 call:0 call:1 call:2 run call:0 run fin:0:o fin:1:x fin:2:o run",
        "2 2 f call:0 run adv:3 call:0 run fin:0:o run fin:1:x run",           # expiry in flight
        "2 2 f call:0 run adv:2 call:0 run fin:0:o run",                       # exactly at expiry: still shared
        "2 2 f call:0 run adv:2 call:0 adv:1 run fin:0:o run",                 # lookup happens at the run
        "1 3 f call:0 run adv:2 call:1 run adv:2 call:0 call:0 run cancel:2 fin:0:x run",
        "1 5 f call:0 call:0 run adv:6 call:0 cancel:1 run fin:1:x run call:0 run",
        "2 - f call:0 call:0 call:0 call:0 run cancel:0 cancel:1 cancel:2 fin:0:o run",
    ]
    return base + [c.replace(" f ", " m ", 1) for c in base[:6] + base[9:10] + base[13:15]] \
        + [c.replace(" f ", " F ", 1) for c in base] + [c.replace(" f ", " M ", 1) for c in base[:6]]


def random_case(rng) -> str:
    limit = 1 if rng.random() < 0.7 else 2
    exp = rng.choice([None, None, 2, 3, 5])
    variant = "f" if rng.random() < 0.7 else "m"
    max_callers = rng.randint(2, 4) if rng.random() < 0.85 else rng.randint(5, 6)
    nkeys = rng.choice([1, 2, 2, 3])
    length = rng.randint(4, 18)
    toks = []
    ncall = 0
    for _ in range(length):
        r = rng.random()
        if ncall < max_callers and (r < 0.3 or ncall == 0):
            toks.append(f"call:{rng.randrange(nkeys)}")
            ncall += 1
        elif r < 0.55:
            toks.append("run")
        elif r < 0.7:
            toks.append(f"cancel:{rng.randrange(ncall)}")
        elif r < 0.88:
            toks.append(f"fin:{rng.randrange(ncall)}:{rng.choice('ooooxxc')}")
        else:
            toks.append(f"adv:{rng.choice([1, 2, 3, 6] + ([exp, exp + 1] if exp else []))}")
    return f"{limit} {'-' if exp is None else exp} {variant} " + " ".join(toks)


def enumerate_schedules(max_len: int, exps=(None, 2)):
    """all schedules up to max_len over 2 keys, <=3 callers, pruned to ops that can have an effect"""
    def rec(prefix, ncall, nrun_since):
        if prefix:
            yield prefix
        if len(prefix) == max_len:
            return
        if ncall < 3:
            for k in (0, 1):
                yield from rec(prefix + [f"call:{k}"], ncall + 1, nrun_since + 1)
        if nrun_since:
            yield from rec(prefix + ["run"], ncall, 0)
        for c in range(ncall):
            yield from rec(prefix + [f"cancel:{c}"], ncall, nrun_since + 1)
        for t in range(min(ncall, 2)):
            for o in "ox":
                yield from rec(prefix + [f"fin:{t}:{o}"], ncall, nrun_since + 1)
        yield from rec(prefix + ["adv:3"], ncall, nrun_since)

    for sched in rec([], 0, 0):
        if sum(1 for t in sched if t.startswith("call")) < 2:
            continue
        for exp in exps:
            if exp is None and "adv:3" in sched:
                continue
            yield f"1 {'-' if exp is None else exp} f " + " ".join(sched)


def generate(rng, tier):
    if tier == "quick":
        yield from enumerate_schedules(5)
        n = 4000
    else:
        yield from enumerate_schedules(7)
        n = 150000
    for i in range(n):
        c = random_case(rng)
        if i % 5 == 4:      # every caller inside its own scope
            t = c.split(" ")
            t[2] = t[2].upper()
            c = " ".join(t)
        yield c


def model_input(case: str, out: str) -> str:
    t = case.split(" ")
    if len(t) > 2:
        t[2] = t[2].lower()      # the model never sees where the callers stand
    return " ".join(t)


def nontrivial(case: str, out: str) -> bool:
    parts = out.split("|")
    if len(parts) != 3:
        return False
    final = parts[0].split(";")[-1].rsplit("/", 1)[0].split(",")
    got = [t[1:] for t in final if t[:1] in ("v", "x")]
    shared = len(got) != len(set(got))
    keys = [i.split("@")[0] for i in parts[1].split(",") if i]
    return shared and ("c" in final or len(keys) != len(set(keys)))


def classify(case: str, out: str):
    toks = case.split()
    if len(toks) < 3:
        return
    yield f"limit:{toks[0]}"
    yield f"expiration:{toks[1]}"
    yield f"variant:{toks[2]}"
    yield f"callers:{sum(1 for t in toks if t.startswith('call:'))}"
    yield f"len:{min((len(toks) - 3) // 4 * 4, 20)}"
    parts = out.split("|")
    if len(parts) == 3:
        final = parts[0].split(";")[-1].rsplit("/", 1)[0].split(",")
        got = [t[1:] for t in final if t[:1] in ("v", "x")]
        if len(got) != len(set(got)):
            yield "obs:shared-invocation"
        if "c" in final:
            yield "obs:caller-cancelled"
        if any(t.startswith("x") for t in final):
            yield "obs:failure-delivered"
        keys = [i.split("@")[0] for i in parts[1].split(",") if i]
        if len(keys) != len(set(keys)):
            yield "obs:key-invoked-twice"
        yield f"invocations:{min(len(keys), 5)}"


def mutate(rng, case: str) -> str:
    toks = case.split()
    if len(toks) < 3:
        return case
    head, ops = toks[:3], toks[3:]
    for _ in range(rng.randint(1, 3)):
        r = rng.random()
        ncall = max(1, sum(1 for t in ops if t.startswith("call:")))
        new = rng.choice([f"call:{rng.randrange(2)}", "run", f"cancel:{rng.randrange(ncall)}",
                          f"fin:{rng.randrange(ncall)}:{rng.choice('oxc')}", f"adv:{rng.randint(1, 4)}"])
        if r < 0.1:
            head[0] = rng.choice(["1", "2"])
        elif r < 0.2:
            head[1] = rng.choice(["-", "2", "3"])
        elif r < 0.55 or not ops:
            ops.insert(rng.randint(0, len(ops)), new)
        elif r < 0.8:
            del ops[rng.randrange(len(ops))]
        else:
            ops[rng.randrange(len(ops))] = new
    return " ".join(head + ops)


def shrink(case: str):
    toks = case.split()
    head, ops = toks[:3], toks[3:]
    for i in range(len(ops)):
        yield " ".join(head + ops[:i] + ops[i + 1:])
    if head[1] != "-":
        yield " ".join([head[0], "-", head[2]] + ops)
    if head[2] == "m":
        yield " ".join([head[0], head[1], "f"] + ops)
