"""C12 – cache: real `haiway.cache` (sync/async x function/method) vs `hwmodel cache`.

Case (one line):  <limit> <expiration|-> <sf|sm|af|am> op*
  a<dt>                       advance the virtual clock
  c:<recv>:<pos>:<kw>:<o|x>   call with positional atoms / keyword atoms (call order); x = the wrapped
                              function raises if it is invoked; recv = receiver object number (methods) or -
  drop:<recv>                 forget the receiver object (it is garbage collected; never used again)
  atoms: i<int> f<int> b0 b1 s<text> n
Observation, one token per call:  (H|C)<producer>[!]@<argument tag of the served product>/<live values>
"""
from __future__ import annotations

import gc
import itertools
import re
import traceback
import weakref

from harness import core, vloop

PID = "C12"
LEAN_COMPONENT = "cache"
PROPS_MODULE = "Haiway.Props.C12"
ANCHORS = ["src/haiway/helpers/caching.py"]
RULE = ("case = configuration (limit 1..4, expiration none/0/2/3/5/10, sync|async x function|method) + history of <=60 "
        "operations over {call key ok|raising, clock advance, drop receiver}; keys drawn from an alphabet containing "
        "1, 1.0, True, '1', 0/False/0.0, None, two-argument, keyword, keyword-order and positional-vs-keyword forms and "
        "receivers that are identical, ==-equal-but-distinct, or different; advances include 'exactly to the expiry "
        "instant of an earlier product' and one tick past it; every returned value is tagged with the arguments the "
        "wrapped function received and its invocation counter, live values are counted through weak references. "
        "quick: directed corpus + all histories of length<=4 over {3 ==-equal keys, advance} for 24 configurations "
        "+ 3000 random; thorough: length<=6 (and length<=4 with raising calls) + 320000 random. "
        "non-trivial = at least one call answered from the cache AND at least one key invoked twice (expired, evicted "
        "or failed before); distinct = by case text")
TRUSTED = ["functools._make_key(typed=True) equality as modelled by structural equality of Haiway.Cache.Key",
           "OrderedDict order/move_to_end/popitem(last=False) as modelled by the list operations of Haiway/Model/Cache.lean",
           "weak references to returned values count the entries kept alive; harness/comp_cache.py run_real + monitor"]
ASSUMPTIONS = ["sequential histories (each call completes before the next; concurrency is C13)",
               "integer clock and integer, non-negative expirations; expiration=0 is the code's 'never expires' "
               "(falsy) and is excluded from the freshness claim",
               "argument values are hashable scalars; key equality of nested containers is Python's == (not typed below the top level)",
               "receivers stay alive while they are used; a dropped receiver's identity number is never reused",
               "the wrapped function does not call the cached function re-entrantly"]

VARIANTS = ("sf", "sm", "af", "am")
ATOM = re.compile(r"^(i-?\d+|f-?\d+|b[01]|s[A-Za-z0-9_]*|n)$")
NAME = re.compile(r"^[a-z][a-z0-9_]*$")



def setup() -> None:
    """Local workaround (reported): harness/vloop.py freezes `time.monotonic` process-wide, and
    `multiprocessing.connection.wait(…, timeout=0.0)` then never reaches its deadline – the Pool used by
    core.run_real_many in the thorough tier spins and never terminates.  multiprocessing gets the real clock."""
    import multiprocessing.connection as mpc
    import multiprocessing.queues as mpq
    import time
    import types

    shim = types.SimpleNamespace(monotonic=vloop.real_monotonic, sleep=vloop._REAL_SLEEP, time=time.time)
    mpc.time = shim
    mpq.time = shim


# ------------------------------------------------------------------------------------------------
# case parsing (shared by run_real and the monitor; the Lean driver has its own parser)

def atom_value(a: str):
    k, r = a[0], a[1:]
    if k == "i":
        return int(r)
    if k == "f":
        return float(int(r))
    if k == "b":
        return r == "1"
    if k == "s":
        return r
    return None


def atom_tag(v) -> str:
    t = type(v)
    if t is bool:
        return f"b{int(v)}"
    if t is int:
        return f"i{v}"
    if t is float:
        return f"f{int(v)}"
    if t is str:
        return f"s{v}"
    if v is None:
        return "n"
    return "?"


def parse_key(recv: str, pos: str, kw: str):
    """-> (recv int|None, [atoms], [(name, atom)]) or None"""
    if recv == "-":
        r = None
    elif recv.isdigit():
        r = int(recv)
    else:
        return None
    ps = pos.split(",") if pos else []
    ks = kw.split(",") if kw else []
    if not all(ATOM.match(p) for p in ps):
        return None
    kws = []
    for k in ks:
        if k.count("=") != 1:
            return None
        n, a = k.split("=")
        if not NAME.match(n) or not ATOM.match(a):
            return None
        kws.append((n, a))
    if len({n for n, _ in kws}) != len(kws):
        return None
    return r, ps, kws


def parse_case(case: str):
    """-> (limit, expiration|None, variant, ops) with ops = ('a', dt) | ('c', key, ok) | ('d', recv); or None"""
    toks = case.split()
    if len(toks) < 3 or not toks[0].isdigit() or toks[2] not in VARIANTS:
        return None
    if toks[1] == "-":
        exp = None
    elif toks[1].isdigit():
        exp = int(toks[1])
    else:
        return None
    method = toks[2][1] == "m"
    ops = []
    dead = set()
    for t in toks[3:]:
        parts = t.split(":")
        if len(parts) == 5 and parts[0] == "c" and parts[4] in ("o", "x"):
            key = parse_key(parts[1], parts[2], parts[3])
            if key is None or (key[0] is not None) != method or key[0] in dead:
                return None
            ops.append(("c", key, parts[4] == "o"))
        elif len(parts) == 2 and parts[0] == "drop" and parts[1].isdigit():
            dead.add(int(parts[1]))
            ops.append(("d", int(parts[1])))
        elif len(parts) == 1 and t[:1] == "a" and t[1:].isdigit():
            ops.append(("a", int(t[1:])))
        else:
            return None
    return int(toks[0]), exp, toks[2], ops


# ------------------------------------------------------------------------------------------------
# the real code

class Val:
    """a product of the wrapped function: the arguments it received and its invocation counter"""
    __slots__ = ("tag", "n", "__weakref__")

    def __init__(self, tag: str, n: int) -> None:
        self.tag = tag
        self.n = n


class Boom(Exception):
    def __init__(self, tag: str, n: int) -> None:
        super().__init__(tag, n)
        self.tag = tag
        self.n = n


def receiver_value(ident: int) -> int:
    return 1 if ident % 3 == 2 else 0     # 0 and 1 (3 and 4, …) are ==-equal, 2 (5, …) differs


def run_real(case: str) -> str:
    from haiway import cache

    parsed = parse_case(case)
    if parsed is None:
        return "bad-case"
    limit, exp, variant, ops = parsed
    is_async, method = variant[0] == "a", variant[1] == "m"
    kw = dict(limit=limit, expiration=None if exp is None else float(exp))
    inv = [0]
    fail = [False]
    products: list[weakref.ref] = []

    def body(recv, args, kwargs):
        n = inv[0]
        inv[0] += 1
        tag = ("-" if recv is None else str(recv.ident)) + ":" + ",".join(atom_tag(a) for a in args) + ":" + \
            ",".join(f"{k}={atom_tag(v)}" for k, v in kwargs.items())
        if fail[0]:
            raise Boom(tag, n)
        v = Val(tag, n)
        products.append(weakref.ref(v))
        return v

    if is_async:
        async def fn(*a, **k):
            return body(None, a, k)

        async def meth(self, *a, **k):
            return body(self, a, k)
    else:
        def fn(*a, **k):
            return body(None, a, k)

        def meth(self, *a, **k):
            return body(self, a, k)

    class Recv:
        def __init__(self, ident: int) -> None:
            self.ident = ident
            self.v = receiver_value(ident)

        def __eq__(self, other) -> bool:
            return isinstance(other, Recv) and other.v == self.v

        def __hash__(self) -> int:
            return hash(("Recv", self.v))

        m = cache(**kw)(meth)

    cached = cache(**kw)(fn)
    objs: dict[int, Recv] = {}
    loop = vloop.new_loop() if is_async else None

    def one_call(key, ok: bool) -> str:
        recv, pos, kws = key
        args = [atom_value(a) for a in pos]
        kwargs = {n: atom_value(a) for n, a in kws}
        if recv is None:
            target = cached
        else:
            if recv not in objs:
                objs[recv] = Recv(recv)
            target = objs[recv].m
        fail[0] = not ok
        before = inv[0]
        res = None
        if is_async:
            t = loop.create_task(target(*args, **kwargs))
            loop.quiesce()
            if not t.done():
                res = "PENDING"
            elif t.cancelled():
                res = "E:Cancelled"
            else:
                exc = t.exception()     # no traceback is attached by asking
                if exc is None:
                    v = t.result()
                    res = f"{v.n}@{v.tag}" if type(v) is Val else "E:not-a-product"
                    del v
                elif type(exc) is Boom:
                    res = f"{exc.n}!@{exc.tag}"
                    # The exception stays cached with the task.  Its traceback pins the finished library
                    # frame whose local `entry` is the *expired entry this call replaced*; release the
                    # frames' locals so that `live values` counts table entries, not traceback garbage.
                    traceback.clear_frames(exc.__traceback__)
                else:
                    res = f"E:{type(exc).__name__}"
                del exc
            del t
        else:
            try:
                v = target(*args, **kwargs)
                res = f"{v.n}@{v.tag}" if type(v) is Val else "E:not-a-product"
                del v
            except Boom as e:
                res = f"{e.n}!@{e.tag}"
            except Exception as e:  # noqa: BLE001
                res = f"E:{type(e).__name__}"
        del target
        return ("C" if inv[0] > before else "H") + res

    try:
        t0 = vloop.CLOCK.now
        out = []
        for op in ops:
            if op[0] == "a":
                if loop is not None:
                    loop.advance(op[1])
                else:
                    vloop.CLOCK.now += op[1]
            elif op[0] == "d":
                objs.pop(op[1], None)
            else:
                r = one_call(op[1], op[2])
                alive = sum(1 for p in products if p() is not None)
                if alive > limit:
                    gc.collect()       # never blame the cache for garbage that only a collector run frees
                    alive = sum(1 for p in products if p() is not None)
                out.append(f"{r}/{alive}")
        if vloop.CLOCK.now - t0 != sum(o[1] for o in ops if o[0] == "a"):
            return "clock-drift"
        return " ".join(out)
    finally:
        if loop is not None:
            vloop.close_loop(loop)


# ------------------------------------------------------------------------------------------------
# the property, stated on the implementation's own observations (independent of the Lean model)

OBS = re.compile(r"^([HC])(\d+)(!?)@([^/]*)/(\d+)$")


def strict_key(key):
    recv, pos, kws = key
    return (recv, tuple(pos), tuple(kws))


def loose_key(key):
    """equal, type-identical arguments and the same receiver; keyword order is irrelevant to the call"""
    recv, pos, kws = key
    return (recv, tuple(pos), tuple(sorted(kws)))


def untyped(key):
    """what a key without the argument types would compare (1 == 1.0 == True)"""
    def val(a):
        v = atom_value(a)
        return ("num", float(v)) if isinstance(v, (bool, int, float)) else (type(v).__name__, v)

    recv, pos, kws = key
    return (recv, tuple(val(a) for a in pos), tuple(sorted((n, val(a)) for n, a in kws)))


def monitor(case: str, out: str) -> list[str]:
    parsed = parse_case(case)
    if parsed is None:
        return [] if out == "bad-case" else ["cache.no-observation"]
    limit, exp, variant, ops = parsed
    is_async = variant[0] == "a"
    obs = out.split()
    ncalls = sum(1 for o in ops if o[0] == "c")
    if len(obs) != ncalls or not all(OBS.match(o) for o in obs):
        bad = next((o for o in obs if not OBS.match(o)), out[:24])
        return ["cache.no-observation:" + re.sub(r"\d+", "N", bad)[:24]]
    fails: list[str] = []
    now = 0
    invs: dict[int, tuple] = {}            # invocation -> (key, time, returned)
    calls: list[tuple] = []                # (strict key, returned a value, producer)
    it = iter(obs)
    for op in ops:
        if op[0] == "a":
            now += op[1]
            continue
        if op[0] == "d":
            continue
        _, key, ok = op
        kind, n, bang, tag, alive = OBS.match(next(it)).groups()
        n = int(n)
        tp = tag.split(":")
        tagkey = parse_key(*tp) if len(tp) == 3 else None
        if tagkey is None:
            fails.append("cache.no-observation:tag")
            continue
        if kind == "C":
            if n in invs or n != len(invs):
                fails.append("cache.invocation-counter")
            if strict_key(tagkey) != strict_key(key):
                fails.append("cache.function-called-with-other-arguments")
            if (bang == "!") != (not ok):
                fails.append("cache.outcome-altered")
            invs.setdefault(n, (tagkey, now, bang == ""))
            # the must-hit clause: key among the `limit` most recently used keys and unexpired
            last = next((j for j in range(len(calls) - 1, -1, -1) if calls[j][0] == strict_key(key)), None)
            if last is not None and calls[last][1] and exp != 0:
                others = {c[0] for c in calls[last + 1:]}
                produced_at = invs[calls[last][2]][1] if calls[last][2] in invs else None
                unexpired = exp is None or (produced_at is not None and now <= produced_at + exp)
                if len(others) < limit and unexpired and produced_at is not None:
                    fails.append("cache.miss-within-lru")
        else:
            if n not in invs:
                fails.append("cache.unknown-product")
            else:
                pkey, ptime, pok = invs[n]
                if strict_key(pkey) != strict_key(tagkey) or pok != (bang == ""):
                    fails.append("cache.product-altered")
                if loose_key(pkey) != loose_key(key):
                    if pkey[0] != key[0] and (pkey[1], sorted(pkey[2])) == (key[1], sorted(key[2])):
                        fails.append("cache.wrong-key.receiver")
                    elif untyped(pkey) == untyped(key):
                        fails.append("cache.wrong-key.type")
                    else:
                        fails.append("cache.wrong-key")
                elif any(m > n and strict_key(invs[m][0]) == strict_key(key) for m in invs):
                    fails.append("cache.stale-product")
                if exp and now > ptime + exp:
                    fails.append("cache.expired-served")
                if bang and not is_async:
                    pass    # a sync cache re-raising a stored failure is not excluded by the property text
        if int(alive) > limit:
            fails.append("cache.over-capacity")
        calls.append((strict_key(key), bang == "", n))
    return sorted(set(fails))


# ------------------------------------------------------------------------------------------------
# cases

def ctok(key: str, ok: bool = True, recv=None) -> str:
    """key = 'pos' or 'pos;kw' (comma separated atoms)"""
    pos, _, kw = key.partition(";")
    return f"c:{'-' if recv is None else recv}:{pos}:{kw}:{'o' if ok else 'x'}"


def expand(limit, exp, hist: str, variants=VARIANTS, recvs=None) -> list[str]:
    """hist: space separated items  KEY | KEY! (raising) | aN | @R (switch receiver) | dropR"""
    out = []
    for v in variants:
        r = 0 if v[1] == "m" else None
        toks = []
        for item in hist.split():
            if item[0] == "@":
                if r is not None:
                    r = int(item[1:])
            elif item.startswith("drop"):
                if r is not None:
                    toks.append(f"drop:{item[4:]}")
            elif re.match(r"^a\d+$", item):
                toks.append(item)
            else:
                ok = not item.endswith("!")
                toks.append(ctok(item.rstrip("!"), ok, r))
        out.append(f"{limit} {'-' if exp is None else exp} {v} " + " ".join(toks))
    return out


A, B, C, D = "i1", "i2", "i3", "i4"



def extra_obligations():
    """`_SyncCache.__call__/__method_call__` and `_AsyncCache.__call__/__method_call__` regenerated from /repo's caching.py as
    MiniPy terms (all four cache entry points here); Lean re-checks that each, run on the image of a model table with the clock, the computed key and
    the function's behaviour as parameters, ends in the image of `Cache.call` with its answer: hit = the stored product and
    most recent afterwards, an entry past its expiry dropped, a miss invokes exactly once, the oldest entry evicted beyond `limit`"""
    from harness import core, regen

    return [e for e in regen.check("cache", core.REPO, core.LEAN)]


def corpus():
    cs: list[str] = []
    # receiver identity: ==-equal, hash-equal but distinct receivers must not share an entry (pinned defect)
    cs += expand(2, None, f"@0 {A} @1 {A} @0 {A}", ("sm", "am"))
    cs += expand(1, None, f"@0 {A} @1 {A}", ("sm", "am"))
    cs += expand(3, 5, f"@0 {A} @1 {A} @2 {A} @0 {A} @1 {A} @2 {A}", ("sm", "am"))
    cs += expand(2, None, f"@0 {A} drop0 @3 {A} @1 {A} @3 {A}", ("sm", "am"))
    cs += expand(2, None, f"@0 ;x=i1 @1 ;x=i1 @2 ;x=i1 @1 ;x=i1", ("sm", "am"))
    # LRU, not FIFO
    cs += expand(2, None, f"{A} {B} {A} {C} {A} {B}")
    cs += expand(3, None, f"{A} {B} {C} {A} {D} {A} {B} {C}")
    # capacity: `>` not `>=`
    cs += expand(1, None, f"{A} {A} {B} {B} {A}")
    cs += expand(2, None, f"{A} {B} {A} {B} {C} {B} {C} {A}")
    cs += expand(4, None, f"{A} {B} {C} {D} {A} {B} {C} {D} i5 {A} {B}")
    # expiry: `<` not `<=`; a hit does not renew the stamp; recompute renews it
    cs += expand(2, 2, f"{A} a2 {A} a1 {A} a2 {A} a1 {A}")
    cs += expand(1, 3, f"{A} a2 {A} a1 {A} a1 {A}")
    cs += expand(2, 3, f"{A} a1 {B} a2 {A} {B} a1 {A} {B} a1 {B}")
    cs += expand(2, 10, f"{A} a10 {A} a1 {A}")
    cs += expand(1, 0, f"{A} a1000 {A} {B} {A}")        # expiration=0: never expires (degenerate, modelled)
    # typed keys: 1, 1.0, True, "1"; 0, 0.0, False; None; keyword forms and order; positional vs keyword
    cs += expand(4, None, "i1 f1 b1 s1 i1 f1 b1 s1")
    cs += expand(3, None, "i0 f0 b0 i0 f0 b0 n n")
    cs += expand(3, None, ";x=i1 ;x=f1 ;x=b1 ;x=i1 ;x=f1 ;x=b1")
    cs += expand(2, None, ";x=i1,y=i2 ;y=i2,x=i1 ;x=i1,y=i2 ;y=i2,x=i1")
    cs += expand(2, None, "i1 ;x=i1 i1 ;x=i1")
    cs += expand(3, None, "i1,i2 f1,i2 i1,f2 i1,i2 i1;y=i2 i1;y=i2")
    cs += expand(2, None, " ;x=i1 ")
    cs += expand(2, None, "i1 s1 si1 i1 s1")
    # raising calls: sync stores nothing, async stores the failure; raise on an expired entry drops it
    cs += expand(1, None, f"{A}! {A} {A}! {A}")
    cs += expand(2, 3, f"{A} {B} a4 {B}! {A} {B} {A}")
    cs += expand(2, 3, f"{A}! a3 {A} a1 {A} {B}! {C} {A}")
    cs += expand(2, None, f"{A} {B}! {C}! {A} {B} {C} {A}")
    cs += expand(3, 2, f"{A} {B}! a2 {B} a1 {B} {A}")
    return [c for c in dict.fromkeys(cs)]


POS_KEYS = ["i1", "f1", "b1", "s1", "i2", "i0", "b0", "f0", "n", "", "i1,i2", "f1,i2", "i1,b1"]
KW_KEYS = [";x=i1", ";x=f1", ";x=b1", ";x=i1,y=i2", ";y=i2,x=i1", "i1;y=i2", ";y=i1", "i1;x=i1"]
EXPS = [None, None, None, 2, 3, 5, 10, 2, 3, 0]


def random_case(rng) -> str:
    variant = rng.choice(VARIANTS)
    method = variant[1] == "m"
    limit = rng.randint(1, 4)
    exp = rng.choice(EXPS)
    nk = rng.randint(2, 7)
    pool = rng.sample(POS_KEYS + KW_KEYS, nk)
    if rng.random() < 0.5:
        pool[: min(3, nk)] = ["i1", "f1", "b1"][: min(3, nk)]
    recvs = [0, 1, 2][: rng.randint(1, 3)] if method else [None]
    next_ident = 3
    length = rng.randint(3, 60) if rng.random() < 0.7 else rng.randint(3, 12)
    p_adv = rng.choice([0.1, 0.25, 0.4]) if exp else 0.08
    p_fail = rng.choice([0.0, 0.1, 0.25])
    now = 0
    stamps: list[int] = []
    toks = []
    for _ in range(length):
        r = rng.random()
        if r < p_adv:
            dt = rng.choice([1, 1, 2, 3, 4, 6, 11])
            if exp and stamps and rng.random() < 0.6:
                target = rng.choice(stamps[-6:]) + exp + rng.choice([0, 0, 1])   # exactly at expiry / one tick past
                if target > now:
                    dt = target - now
            now += dt
            toks.append(f"a{dt}")
        elif method and r > 0.97 and len(recvs) > 1:
            dead = recvs.pop(rng.randrange(len(recvs)))
            toks.append(f"drop:{dead}")
            recvs.append(next_ident)
            next_ident += 1
        else:
            key = rng.choice(pool[: rng.randint(1, nk)])
            toks.append(ctok(key, rng.random() >= p_fail, rng.choice(recvs)))
            stamps.append(now)
    return f"{limit} {'-' if exp is None else exp} {variant} " + " ".join(toks)


def exhaustive(max_len: int, with_fail_len: int):
    keys = ["i1", "f1", "b1"]
    for variant in VARIANTS:
        m = variant[1] == "m"
        # methods: (r0, 1) (r1, 1) (r0, 1.0): ==-equal receivers and ==-equal arguments
        kt = [ctok("i1", True, 0), ctok("i1", True, 1), ctok("f1", True, 0)] if m else [ctok(k) for k in keys]
        kx = [t[:-1] + "x" for t in kt]
        for limit in (1, 2, 3):
            for exp in (None, 2):
                head = f"{limit} {'-' if exp is None else exp} {variant} "
                for L in range(1, max_len + 1):
                    for h in itertools.product(kt + ["a1"], repeat=L):
                        yield head + " ".join(h)
                if limit < 3:
                    for L in range(1, with_fail_len + 1):
                        for h in itertools.product(kt + kx + ["a1"], repeat=L):
                            if any(t.endswith("x") for t in h):
                                yield head + " ".join(h)


def generate(rng, tier):
    if tier == "quick":
        yield from exhaustive(4, 3)
        n = 3000
    else:
        yield from exhaustive(6, 4)
        n = 320000
    for _ in range(n):
        yield random_case(rng)


def nontrivial(case: str, out: str) -> bool:
    obs = out.split()
    if not any(o.startswith("H") for o in obs):
        return False
    tags = [o.split("@", 1)[1].split("/")[0] for o in obs if o.startswith("C") and "@" in o]
    return len(tags) != len(set(tags))


def classify(case: str, out: str):
    toks = case.split()
    if len(toks) < 3:
        return
    yield f"variant:{toks[2]}"
    yield f"limit:{toks[0]}"
    yield f"expiration:{toks[1]}"
    yield f"len:{min((len(toks) - 3) // 10 * 10, 60)}"
    obs = out.split()
    if any(o.startswith("H") for o in obs):
        yield "obs:hit"
    if any(o.startswith("H") and "!" in o for o in obs):
        yield "obs:cached-failure-served"
    if any(o.startswith("C") and "!" in o for o in obs):
        yield "obs:raising-invocation"
    tags = [o.split("@", 1)[1].split("/")[0] for o in obs if o.startswith("C") and "@" in o]
    if len(tags) != len(set(tags)):
        yield "obs:recomputed-key"
    if any(t.startswith("drop") for t in toks):
        yield "op:drop-receiver"
    if any("=" in t for t in toks):
        yield "op:keyword-args"


def mutate(rng, case: str) -> str:
    toks = case.split()
    if len(toks) < 3:
        return case
    head, ops = toks[:3], toks[3:]
    method = head[2][1] == "m"
    calls = [t for t in ops if t.startswith("c:")]
    for _ in range(rng.randint(1, 3)):
        r = rng.random()
        if r < 0.1:
            head[0] = str(rng.randint(1, 4))
        elif r < 0.2:
            head[1] = rng.choice(["-", "2", "3", "5"])
        elif r < 0.5 or not ops:
            if calls and rng.random() < 0.6:
                new = rng.choice(calls)
            elif rng.random() < 0.5:
                new = f"a{rng.randint(1, 4)}"
            else:
                new = ctok(rng.choice(POS_KEYS + KW_KEYS), rng.random() > 0.15, rng.choice([0, 1, 2]) if method else None)
            ops.insert(rng.randint(0, len(ops)), new)
        elif r < 0.75:
            del ops[rng.randrange(len(ops))]
        else:
            i = rng.randrange(len(ops))
            if ops[i].startswith("c:") and calls:
                ops[i] = rng.choice(calls)
            elif ops[i].startswith("a"):
                ops[i] = f"a{rng.randint(1, 6)}"
    return " ".join(head + ops)


def shrink(case: str):
    toks = case.split()
    head, ops = toks[:3], toks[3:]
    for i in range(len(ops)):
        yield " ".join(head + ops[:i] + ops[i + 1:])
    if head[0].isdigit() and int(head[0]) > 1:
        yield " ".join([str(int(head[0]) - 1)] + head[1:] + ops)
    if head[1] != "-":
        yield " ".join([head[0], "-", head[2]] + ops)
    for i, t in enumerate(ops):
        if t.startswith("a") and t[1:].isdigit() and int(t[1:]) > 1:
            yield " ".join(head + ops[:i] + [f"a{int(t[1:]) - 1}"] + ops[i + 1:])
        if t.startswith("c:") and t.endswith(":x"):
            yield " ".join(head + ops[:i] + [t[:-1] + "o"] + ops[i + 1:])
