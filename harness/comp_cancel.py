"""C07 – a cancellation request reaching a task that is entering, inside or leaving scopes is never swallowed by the
library, the tasks it spawned there are cancelled too, and `ctx.check_cancellation` raises exactly once the task has been
asked to cancel.  Real haiway under the virtual loop vs `hwmodel groups` (replay of the observed event log on the LTS
`Haiway.Groups`)."""
from __future__ import annotations

import json

from harness import groups_common as gc
from harness.groups_common import (ANCHORS, ASSUMPTIONS, LEAN_COMPONENT, TRUSTED, agree, model_input, mutate,  # noqa: F401
                                   run_real, shrink)

PID = "C07"
PROPS_MODULE = "Haiway.Props.C07"
RULE = ("case = scope program as in C06 (incl. disposables with gated / raising enter and exit) + explicit schedule; directed programs with every schedule of "
        "length <= 3 (quick) / <= 5 (thorough); random programs, each fourth one swept with one Task.cancel() injected at "
        "every schedule step on each of the 3 highest live tasks (= every gate the victim can block on: body, disposables enter and cleanup, exit wait of "
        "every nesting level), thorough additionally pairs of cancellations; ctx.cancel() and check_cancellation statements "
        "at random positions; non-trivial = a cancellation request reaches a started, live task while it is inside >= 1 "
        "async scope (body or exit wait), or a check_cancellation runs after a request; distinct = by case text")


def extra_obligations():
    """TaskGroupContext.__aenter__/__aexit__ regenerated from /repo's tasks.py: the variable is reset before the wait, a
    CancelledError out of the group's exit wait propagates as that object, everything else is silenced; `ctx.check_cancellation`
    raises exactly when the current task's count of cancellation requests is above zero and consumes nothing; `ctx.cancel` asks for
    the current task's cancellation once per call, whatever the count already is"""
    from harness import core, regen

    return [e for e in regen.check("contexts", core.REPO, core.LEAN) if ".group_" in e["name"]] + \
        regen.check("cancel", core.REPO, core.LEAN)     # ctx.check_cancellation / ctx.cancel


def corpus():
    out = []
    for prog in gc.DIRECTED:
        for sched in ([], [1], [1, 1], [2], [gc.LAST], [gc.LAST - 1], [0, gc.LAST - 1], [1, 1, gc.LAST - 1], [0, 0, gc.LAST - 1]):
            out.append(json.dumps({"prog": prog, "sched": sched}, separators=(",", ":")))
    # past false alarms of the monitor (must stay silent): a member cancelled inside a disposable's cleanup that catches it
    out.append('{"prog":[["block","async",12,[],[],[["spawn",1,"spawn",[["block","async",2,[],[[1,["wait",1],"ok",[]]],[]]]],'
               '["spawn",2,"spawn",[["try",[["block","async",8,[],[[5,"ok",["wait",5],[]]],[]]]],["await",7]]]]]],"sched":[2,1]}')
    # … a member that takes its first step after the owner's self-cancel, is cancelled inside its own scope's __aenter__,
    # catches that and goes on (seed 12)
    out.append('{"prog":[["block","async",5,[],[],[["spawn",1,"spawn",[["try",[["block","async",1,[],[[1,"ok","ok",[[1,1]]]],[]]]],'
               '["await",2]]],["cancelself"]]]],"sched":[]}')
    return out


def generate(rng, tier):
    yield from gc.directed(3 if tier == "quick" else 5)
    n = 4000 if tier == "quick" else 60000
    for i in range(n):
        c = gc.gen(rng, depth=rng.choice([2, 3, 3, 4]), p_raise=rng.choice([0.03, 0.08]), p_cancel=rng.choice([0.3, 0.5]),
                   p_disp=rng.choice([0.0, 0.0, 0.4]))
        yield c
        if i % 4 == 0:
            yield from gc.sweep(c)
        if tier != "quick" and i % 40 == 0:
            yield from gc.pairs(c)


def monitor(case: str, out: str) -> list[str]:
    return gc.monitor_c07(case, out)


def nontrivial(case: str, out: str) -> bool:
    if not gc.ok_observation(out) or gc.foreign_defect(out):
        return False
    v = gc.View(case, out)
    for pos, t in gc.cancel_requests(v):
        if v.stack_at.get(pos if v.ev[pos][0] != "X" else (v.last_event(t, pos) or (0,))[0]):
            return True
    return any(e[0] not in ("X", "Z") and e[1] == "check" and e[3] == "1" for e in v.ev)


def classify(case: str, out: str):
    yield from gc.classify_common(case, out)
    if gc.ok_observation(out) and not gc.foreign_defect(out):
        v = gc.View(case, out)
        for pos, t in gc.cancel_requests(v):
            w = gc.delivery_point(v, t, pos)
            yield "cancel-delivered:" + ("task-end" if w is None else f"exit-wait/reason-{w[2] if w[2] in gc.OUT else 'other'}"
                                         if w[0] == "exit" else w[0])
            if gc.excused(v, t, pos):
                yield "cancel:excused-by-user-code"
