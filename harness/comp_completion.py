"""C09 – scope completion: real `ctx.scope` completion callbacks vs `hwmodel completion`."""
from __future__ import annotations

import itertools

from harness import core, vloop  # noqa: F401
from harness import metrics_common as mc

PID = "C09"
LEAN_COMPONENT = "completion"
PROPS_MODULE = "Haiway.Props.C09"
ANCHORS = ["src/haiway/context/metrics.py", "src/haiway/context/access.py"]
RULE = ("case = scope forest of <=5 scopes (sync/async blocks, sync/async/no completion callback) spread over the creating "
        "task, ctx.spawn tasks and plain asyncio tasks, plus one linearisation of construct/enter/leave/task-end/clock events "
        "(a child is constructed while its parent's body runs or from a task that inherited the parent's context; parents may "
        "be left, and may have completed, before the child is constructed or left); quick: corpus + every linearisation of every "
        "forest shape x task placement with <=3 scopes + 6 random linearisations per shape with 4 + ~6500 sampled event sequences "
        "(a quarter from the degenerate stream: held scope objects entered late or never; ~1500 from the fault stream: tasks "
        "cancelled from outside while suspended in a body or blocked in an exit that waits for ctx.spawn members, async scopes "
        "with a disposable whose cleanup raises and whose caller catches the error and goes on, async scopes whose disposable "
        "raises in __aenter__ or waits there on a gate that is opened later or whose task is cancelled meanwhile, ctx.scope() "
        "attempted in a thread without event loop); thorough: every linearisation with <=4 "
        "scopes, 80 random linearisations for each of the 1944 shape x placement combinations with 5 scopes, 80000 sampled "
        "sequences; non-trivial = >=2 scopes with "
        "callbacks, >=1 nesting edge, and some scope left before a scope nested in it was left or constructed; distinct = by case text")
TRUSTED = ["asyncio Future done-callbacks / run_coroutine_threadsafe deliver by quiescence (harness/vloop.py)",
           "asyncio.TaskGroup join semantics as modelled in Haiway/Model/ScopeRun.lean (exit waits for ctx.spawn members)",
           "harness/metrics_common.py (event language, spec replay, runner) + harness/comp_completion.py monitor"]
ASSUMPTIONS = ["exits: normal, body exception, cancellation of the task from outside at a quiescent point, a disposable whose cleanup "
               "raises an Exception (not when the exit reason is a cancellation); completion callbacks do not raise",
               "one event loop; callbacks observed at loop quiescence after every event (their relative order is not compared)",
               "asserts enabled (python without -O)"]


def _num(x) -> str:
    if isinstance(x, float) and x == int(x):
        return str(int(x))
    return repr(x)


def _b(x) -> str:
    return "1" if x is True else "0" if x is False else "?"


def run_real(case: str) -> str:
    run = mc.run_case(case)
    if run is None:
        return "invalid"
    out = []
    last = int(run.desync.split("@")[1]) if run.desync else len(run.evs) + 1
    for k in range(last):
        for n in run.notes.get(k, []):
            out.append(f"{k}!{n}")
        for sid, obs in sorted(run.fired.get(k, []), key=lambda x: x[0]):
            out.append(f"{k}^{sid}/{_b(obs['ic'])}/{_num(obs['time'])}")
    spec = mc.replay(run.evs)
    for sc in spec.scopes:
        if sc.cb == "n":
            continue
        m = run.metrics.get(sc.sid)
        if m is None:
            out.append(f"N{sc.sid}")
        else:
            out.append(f"F{sc.sid}/{run.count[sc.sid]}/{_b(bool(m.is_completed))}/{_num(m.time)}")
    if run.desync:
        out.append(f"D{last}")       # a task was not where the program says it is: observations end here
    return " ".join(out)


def canon(case: str, out: str) -> str:
    return out if mc.valid(case) else "invalid"


# ------------------------------------------------------------------------------------------------
# the property, on the implementation's observations

def monitor(case: str, out: str) -> list[str]:
    p = mc.parse_case(case)
    if p is None:
        return []
    spec = mc.replay(p[1])
    if not spec.ok:
        return []
    if out.startswith("HANG"):
        return ["completion.no-observation:" + out[:24]]
    fails = set()
    desync = None
    for tok in out.split():
        if tok.startswith("D") and tok[1:].isdigit():
            desync = int(tok[1:])
            fails.add("completion.unobservable:desync")
    fired_at: dict[int, list[int]] = {}
    cb_obs: dict[int, tuple[str, str]] = {}
    final: dict[int, tuple[int, str, str]] = {}
    for tok in out.split():
        if "!" in tok and tok.split("!")[0].isdigit():
            what = tok.split("!", 1)[1]
            if what.startswith("exit-raised") or what.startswith("enter-raised") or what.startswith("raised"):
                fails.add("completion.leave-failed:" + what.split(":")[-1])      # leaving a scope failed
            else:
                fails.add("completion.unexpected:" + what)
        elif "^" in tok:
            k, rest = tok.split("^")
            sid, ic, tm = rest.split("/")
            fired_at.setdefault(int(sid), []).append(int(k))
            cb_obs.setdefault(int(sid), (ic, tm))
        elif tok.startswith("F"):
            sid, cnt, ic, tm = tok[1:].split("/")
            final[int(sid)] = (int(cnt), ic, tm)
    last = len(p[1])
    for sc in spec.scopes:
        if sc.cb == "n":
            continue
        ks = fired_at.get(sc.sid, [])
        desc = [spec.scopes[d] for d in spec.lex_descendants(sc.sid)]
        # exactly once
        if len(ks) > 1 or (sc.sid in final and final[sc.sid][0] > 1):
            fails.add("completion.fired-twice")
        # only after the scope and everything nested in it (constructed and entered so far) has been left
        for k in ks[:1]:
            if sc.ev_left is None or sc.ev_left > k:
                fails.add("completion.fired-before-left")
            for d in desc:
                if d.ev_entered is not None and d.ev_entered <= k and (d.ev_left is None or d.ev_left > k):
                    fails.add("completion.fired-before-subtree-left")
        # always eventually, once they have been left (checked at the end of the run)
        if not ks and sc.ev_left is not None and desync is None:
            open_desc = [d for d in desc if d.ev_entered is not None and d.ev_left is None]
            never = [d for d in desc if d.ev_entered is None]
            if open_desc:
                pass        # something inside is still running at the end of the case: no claim
            elif never:
                fails.add("completion.never-entered.blocks-ancestor")
            else:
                fails.add("completion.not-fired")
        # completed from then on, time frozen
        if ks:
            ic, tm = cb_obs[sc.sid]
            if ic != "1":
                fails.add("completion.not-completed-in-callback")
            if sc.sid in final:
                _, ic2, tm2 = final[sc.sid]
                if ic2 != "1":
                    fails.add("completion.not-completed-afterwards")
                if tm2 != tm:
                    fails.add("completion.time-changed")
    return sorted(fails)


# ------------------------------------------------------------------------------------------------
# cases


def extra_obligations():
    """`ScopeMetrics._complete_if_able` and `_finish` regenerated from /repo's metrics.py as MiniPy terms: Lean re-checks that each
    is exactly one level of `Completion.completeUp` / `Completion.finish` - assertion on a resolved future, nothing touched unless
    the scope was left and its nested scopes are completed, the future resolved exactly once with the elapsed time, then (and only
    then) the registered parent asked exactly once; and the re-parenting loop of `ScopeMetrics.__init__` (one iteration regenerated,
    the loop by a committed induction): the new scope registers under exactly the ancestor `Completion.adopter` chooses - the
    nearest one whose completion future is not resolved"""
    from harness import core, regen

    return regen.check("completion", core.REPO, core.LEAN) + regen.check("adopt", core.REPO, core.LEAN)


def corpus():
    cs = [
        # the late child: constructed in a plain task after the scope it inherited has completed (pinned defect)
        "0:o:a:s 0:c 0:x 1:o:s:s 1:x 1:e 0:e",
        "0:o:s:s 0:c 0:x +1 1:o:a:a +2 1:x 1:e 0:e",
        # late grandchild: 0 > 1 (completed) > 2 constructed late, while 0 is still open
        "0:o:a:s 0:o:s:s 0:c 0:x 1:o:s:s 0:x 1:x 1:e 0:e",
        "0:o:a:a 0:o:a:a 0:c 0:x 1:o:a:a 1:o:s:s 0:x 1:x 1:x 1:e 0:e",
        # parent left before child (child in a plain task outliving the parent)
        "0:o:s:s 0:c 1:o:s:s 0:x +3 1:x 1:e 0:e",
        "0:o:a:a 0:c 1:o:a:s 0:x 1:c 2:o:s:a 1:x +1 2:x 2:e 1:e 0:e",
        # spawned member: parent's exit waits for the member task
        "0:o:a:s 0:s 1:o:s:s 0:x +2 1:x 1:e 0:e",
        "0:o:a:s 0:s 0:s 1:o:a:a 2:o:s:s 0:x 2:x 2:e +1 1:x 1:e 0:e",
        # stack order, exceptions
        "0:o:a:s 0:o:s:a 0:o:a:n +1 0:x 0:X 0:x 0:e",
        "0:o:s:s 0:X 0:o:s:s 0:x 0:e",
        # held scope object entered later, outside its lexical parent
        "0:o:a:s 0:m:s:s 0:x 0:n +2 0:x 0:e",
        # fault paths: the scope's task is cancelled while its body is suspended / while its exit waits for a member
        "0:o:a:s 0:c 1:o:a:s 1:k 0:x 0:e",
        "0:o:a:s 0:c 1:o:a:s 1:s 2:o:s:a 1:x +1 1:k +1 0:x 0:e",
        "0:o:a:s 0:s 1:o:a:s 1:o:s:a 1:k +2 0:x 0:e",
        "0:o:a:s 0:s 1:o:d:s 1:o:a:a 1:s 2:o:s:s 0:x 0:k",
        # a disposable whose cleanup raises: the caller catches the error and goes on
        "0:o:a:s 0:o:d:s 0:x 0:o:s:a 0:x 0:x 0:e",
        "0:o:a:s 0:o:d:a 0:s 1:o:s:s 0:X +1 0:x 0:e",
        "0:o:d:s 0:c 1:o:d:a 0:x 1:x 1:e 0:e",
        # failing enters: disposable raises in __aenter__ / task cancelled while the disposable is still entering
        # (rolled back: the registered scope is left at once and must not block its parent); gate opened normally
        "0:o:a:s 0:o:r:s 0:o:s:a 0:x 0:x 0:e",
        "0:o:a:s 0:c 1:o:g:s 1:k 0:x 0:e",
        "0:o:a:s 0:s 1:o:g:s 0:x 0:k",
        "0:o:a:s 0:c 1:o:g:a +2 1:G 1:o:s:s +1 1:x 1:x 1:e 0:x 0:e",
        "0:o:g:s 0:k",
        # ctx.scope(...) attempted in a thread without event loop (copy of the context): RuntimeError, nothing registered
        "0:o:a:s 0:o:s:s 0:T 0:x 0:T 0:x 0:T 0:e",
        "0:o:s:a 0:T 0:c 1:T 0:x 1:o:s:s 1:x 1:e 0:e",
        # held scope object never entered (known finding)
        "0:o:a:s 0:m:s:s 0:x 0:e",
        "0:o:a:s 0:o:s:s 0:m:a:s 0:x 0:x 0:e",
    ]
    return [mc.normalize(c) for c in cs]


KINDS = mc.KINDS
CBS = mc.CBS


def sample(rng, max_scopes: int, degenerate: bool, faults: float = 0.0) -> str:
    return mc.sample_events(rng, max_scopes, degenerate, faults=faults)


def shapes(n: int):
    """every forest shape with n scopes (parent vector, scope 0 is a root) x placement of each non-root scope:
    t = in its parent's task, s = in a ctx.spawn task, c = in a plain asyncio task created from the parent's body"""
    for parents in itertools.product(*[[None] + list(range(i)) for i in range(n)]):
        if parents[0] is not None:
            continue
        for places in itertools.product("tsc", repeat=n - 1):
            yield parents, ("t",) + places


def _choices(r: mc.Replay, made: int, task_of: dict, parents, places):
    """enabled next events of a linearisation: construct+enter the next scope (index order; in its parent's own
    task only as the innermost block while the parent's body runs, in a child task any time after the task was
    created from the parent's body - also after the parent was left), or leave an innermost open block"""
    n = len(parents)
    out = []
    if made < n:
        i, p, place = made, parents[made], places[made]
        if p is None:
            if not r.tasks[0].frames and r.can_act(0):
                out.append(("open", 0))
        else:
            pt = task_of[p]
            if place == "t":
                if r.can_act(pt) and r.tasks[pt].frames and r.tasks[pt].frames[-1] == p:
                    out.append(("open", pt))
            elif ("task", i) not in task_of:
                if r.can_act(pt) and r.tasks[pt].frames and r.tasks[pt].frames[-1] == p:
                    g = r.group(pt)
                    if place == "c" or g is None or r.scopes[g].ev_left is None:
                        out.append(("spawn", pt))
            elif r.can_act(task_of[("task", i)]):
                out.append(("open", task_of[("task", i)]))
    for t, tk in enumerate(r.tasks):
        if tk.alive and not tk.blocked and tk.frames:
            out.append(("exit", t))
    return out


def _apply(r: mc.Replay, ch, made: int, task_of: dict, parents, places, depth: int):
    task_of = dict(task_of)
    if ch[0] == "open":
        kind = "a" if (made + len(parents)) % 2 == 0 else "s"
        tok = f"{ch[1]}:o:{kind}:{'sa'[(made + depth) % 2]}"
        task_of[made] = ch[1]
        made += 1
    elif ch[0] == "spawn":
        tok = f"{ch[1]}:{places[made]}"
        task_of[("task", made)] = len(r.tasks)
    else:
        tok = f"{ch[1]}:x"
    r2 = r.clone()
    r2.step(mc.parse_tok(tok))
    return r2, tok, made, task_of


def all_linearisations(parents, places):
    n = len(parents)
    results = []

    def rec(r, toks, made, task_of, depth):
        if made == n and all(sc.ev_left is not None for sc in r.scopes):
            results.append(" ".join(toks))
            return
        for ch in _choices(r, made, task_of, parents, places):
            r2, tok, made2, task_of2 = _apply(r, ch, made, task_of, parents, places, depth)
            if r2.ok:
                rec(r2, toks + [tok], made2, task_of2, depth + 1)

    rec(mc.Replay(), [], 0, {}, 0)
    return results


def random_linearisation(rng, parents, places):
    n = len(parents)
    r, toks, made, task_of, depth = mc.Replay(), [], 0, {}, 0
    while not (made == n and all(sc.ev_left is not None for sc in r.scopes)):
        chs = _choices(r, made, task_of, parents, places)
        if not chs:
            return None
        r, tok, made, task_of = _apply(r, rng.choice(chs), made, task_of, parents, places, depth)
        if not r.ok:
            return None
        toks.append(tok)
        depth += 1
    return " ".join(toks)


def enumerate_shapes(max_scopes: int):
    """every linearisation of every shape x placement with <= max_scopes scopes"""
    for n in range(1, max_scopes + 1):
        for parents, places in shapes(n):
            for c in all_linearisations(parents, places):
                nc = mc.normalize(c)
                if nc:
                    yield nc


def sample_shapes(rng, n: int, per_shape: int):
    for parents, places in shapes(n):
        for _ in range(per_shape):
            c = random_linearisation(rng, parents, places)
            nc = mc.normalize(c) if c else None
            if nc:
                yield nc


def generate(rng, tier):
    if tier == "quick":
        yield from enumerate_shapes(3)
        yield from sample_shapes(rng, 4, 6)
        for _ in range(5000):
            c = sample(rng, rng.randint(2, 5), False)
            if c:
                yield c
        for _ in range(1500):
            c = sample(rng, rng.randint(2, 4), True)
            if c:
                yield c
        for _ in range(1500):
            c = sample(rng, rng.randint(2, 5), False, faults=1.0)
            if c:
                yield c
    else:
        yield from enumerate_shapes(4)
        yield from sample_shapes(rng, 5, 80)
        for _ in range(16 * 5000):
            c = sample(rng, rng.randint(2, 5), rng.random() < 0.25, faults=1.0 if rng.random() < 0.25 else 0.0)
            if c:
                yield c


def nontrivial(case: str, out: str) -> bool:
    p = mc.parse_case(case)
    if p is None:
        return False
    spec = mc.replay(p[1])
    if not spec.ok:
        return False
    with_cb = [s for s in spec.scopes if s.cb != "n"]
    edges = [s for s in spec.scopes if s.lex is not None]
    if len(with_cb) < 2 or not edges:
        return False
    for s in edges:
        par = spec.scopes[s.lex]
        if par.ev_left is not None and (s.ev_left is None or par.ev_left < s.ev_left or par.ev_left < s.ev_made):
            return True
    return False


def classify(case: str, out: str):
    p = mc.parse_case(case)
    if p is None:
        return
    spec = mc.replay(p[1])
    yield f"scopes:{len(spec.scopes)}"
    yield f"tasks:{len(spec.tasks)}"
    kinds = {e.kind + ("-member" if e.kind == "spawn" and e.member else "") + ("-exc" if e.kind == "exit" and e.exc else "") for e in p[1]}
    for k in sorted(kinds):
        yield f"ev:{k}"
    for s in spec.scopes:
        if s.lex is not None:
            par = spec.scopes[s.lex]
            if par.ev_left is not None and par.ev_left < s.ev_made:
                yield "shape:constructed-after-parent-left"
            elif par.ev_left is not None and s.ev_left is not None and par.ev_left < s.ev_left:
                yield "shape:parent-left-first"
        if s.ev_entered is None:
            yield "shape:never-entered"
        elif s.ev_entered != s.ev_made:
            yield "shape:entered-late"
    if any(tk.member_of is not None for tk in spec.tasks):
        yield "shape:group-member"
    if any(s.disp for s in spec.scopes):
        yield "shape:failing-cleanup"
    for e in p[1]:
        if e.kind == "open" and e.enter_mode:
            yield f"shape:enter-{'raises' if e.enter_mode == 'r' else 'gated'}"


ALPHA = ["o", "x", "X", "s", "c", "e", "m", "n", "+", "k", "G", "T"]


def mutate(rng, case: str) -> str:
    toks = [t for t in case.split()]
    for _ in range(rng.randint(1, 3)):
        r = rng.random()
        ntasks = 1 + sum(1 for t in toks if t.endswith(":s") or t.endswith(":c"))
        t = rng.randrange(ntasks)
        op = rng.choice(ALPHA)
        if op in ("o", "m"):
            new = f"{t}:{op}:{rng.choice(KINDS + (['d', 'r', 'g'] if op == 'o' else ['d']))}:{rng.choice(CBS)}"
        elif op == "+":
            new = f"+{rng.randint(1, 3)}"
        else:
            new = f"{t}:{op}"
        if r < 0.45 or not toks:
            toks.insert(rng.randint(0, len(toks)), new)
        elif r < 0.7:
            toks[rng.randrange(len(toks))] = new
        else:
            del toks[rng.randrange(len(toks))]
    # keep the longest valid prefix, then drain
    best = ""
    pre: list[str] = []
    for tok in toks:
        pre.append(tok)
        if mc.valid(" ".join(pre)):
            best = " ".join(pre)
        else:
            pre.pop()
    return mc.normalize(best) or "0:e"


def shrink(case: str):
    toks = case.split()
    seen = set()
    for i in range(len(toks)):
        cand = toks[:i] + toks[i + 1:]
        pre: list[str] = []
        for tok in cand:
            pre.append(tok)
            if not mc.valid(" ".join(pre)):
                pre.pop()
        c = mc.normalize(" ".join(pre))
        if c and c != case and len(c.split()) < len(toks) and c not in seen:
            seen.add(c)
            yield c
