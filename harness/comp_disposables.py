"""C08 – disposables are entered once, exited once, cleanup errors surface: scope programs on the real haiway; for
every async block with disposables the observed fault assignment (outcome of each __aenter__/__aexit__, body outcome)
is given to `hwmodel disposables`, whose predictions (call counts, exception argument, body ran, caller sees an
exception) must equal the observation; the monitor states the property on the event log directly."""
from __future__ import annotations

import itertools
import json

from harness import scopeprog as sp

PID = "C08"
LEAN_COMPONENT = "disposables"
PROPS_MODULE = "Haiway.Props.C08"
ANCHORS = ["src/haiway/context/disposables.py", "src/haiway/context/access.py"]
RULE = ("case = random multi-task scope program (scopeprog) with 0-3 disposables per async block, each enter/exit script in "
        "{ok, raise, wait on a gate}, yields none/one/several states, body outcomes return/raise/BaseException/cancelled, "
        "external schedule of gate releases and cancellations (=> all completion orders the schedule can produce); plus the "
        "exhaustive single-block family (<=2 disposables quick, <=3 thorough) x scripts x body x cancellation at every gate; "
        "plus the 'retry' family: ONE Disposables object used for two consecutive scope entries (1-2 doubles, every "
        "combination of enter/exit scripts per attempt and body outcomes; 364 sampled quick, all 1088 thorough); "
        "non-trivial = a block with >=2 disposables and >=1 fault (failed/interrupted enter, raising exit, failing body); "
        "distinct = by case text")
TRUSTED = ["asyncio.gather semantics (children started once, return_exceptions) as abstracted in Haiway/Model/Disposables.lean",
           "harness/scopeprog.py event log; harness/comp_disposables.py projection + monitor"]
ASSUMPTIONS = ["disposable doubles do not catch the cancellation delivered to them (an interrupted enter ends with CancelledError)",
               "the fault assignment is read off the implementation's own log (replay), the theorems cover every assignment"]

shrink = sp.shrink


def mutate(rng, case: str) -> str:
    if '"retry"' in case:
        return rng.choice(_RETRY) if _RETRY else case
    return sp.mutate(rng, case)


def run_real(case: str) -> str:
    spec = json.loads(case)
    if spec.get("retry"):
        return run_retry(spec)
    sp.DEXCALL = True
    try:
        return sp.run_real(case)
    finally:
        sp.DEXCALL = False


def run_retry(spec) -> str:
    """ONE `Disposables` object used for two consecutive scope entries (the retry idiom with re-enterable pool/client
    disposables): `prog` = [try[block 1], try[block 2]] with the same number of disposables; disposable k of block 2
    is the *same double* as disposable k of block 1, following its second script.  Events use the ordinary grammar
    (each attempt looks like a block of its own), so facts / model / monitor apply unchanged."""
    from haiway import Disposables, ctx

    b1, b2 = spec["prog"][0][1][0], spec["prog"][1][1][0]
    r = sp.Run()
    try:
        attempt = {"n": 0}

        class D:
            def __init__(s, k):
                s.k = k

            def cur(s):
                blk = (b1, b2)[attempt["n"]]
                return blk[4][s.k]

            async def __aenter__(s):
                did, en, _ex, _ys = s.cur()
                r.ev(0, "den", did)
                if en == "raise":
                    r.ev(0, "dened", did, "Boom")
                    raise sp.Boom(f"den{did}")
                r.ev(0, "dened", did, "ok")
                return None

            def __aexit__(s, et, ev, tb):
                r.ev(0, "dexcall", s.cur()[0])      # the call; the coroutine's first step is `dex`
                return s._aexit(et, ev, tb)

            async def _aexit(s, et, ev, tb):
                did, _en, ex, _ys = s.cur()
                r.ev(0, "dex", did, sp.out_name(ev) if et is not None else "None")
                if ex == "raise":
                    r.ev(0, "dexed", did, "Boom")
                    raise sp.Boom(f"dex{did}")
                r.ev(0, "dexed", did, "ok")

        shared = Disposables(*[D(k) for k in range(len(b1[4]))])

        async def main():
            r.ev(0, "start")
            for i, blk in enumerate((b1, b2)):
                attempt["n"] = i
                b, body = blk[2], blk[5]
                r.ev(0, "pre", b, r.fingerprint())
                body_exc = None
                try:
                    async with ctx.scope(f"b{b}", disposables=shared):
                        r.ev(0, "enter", b)
                        try:
                            if body and body[0][0] == "raise":
                                r.ev(0, "raise", "exc")
                                raise sp.Boom("body")
                        except BaseException as e:
                            body_exc = e
                            r.ev(0, "bodyend", b, sp.out_name(e), r.pending_cancel())
                            raise
                        r.ev(0, "bodyend", b, "ok", r.pending_cancel())
                except BaseException as e:  # noqa: BLE001
                    r.ev(0, "left", b, sp.out_name(e), 1 if e is body_exc else 0, "0")
                    r.ev(0, "post", b, r.fingerprint())
                    r.ev(0, "caught", sp.out_name(e))
                    continue
                r.ev(0, "left", b, "ok", 1, "0")
                r.ev(0, "post", b, r.fingerprint())
            r.ev(0, "end", "ok")

        t = r.loop.create_task(main())
        r.loop.quiesce()
        if not t.done():
            r.ev(0, "hang")
        return " ".join(r.log)
    finally:
        r.close()


def retry_family():
    import itertools as it

    opts = ["ok", "raise"]
    for nd in (1, 2):
        for scripts in it.product(it.product(opts, repeat=4), repeat=nd):   # (enter1, exit1, enter2, exit2) per disposable
            for body1, body2 in it.product(("ok", "raise"), repeat=2):
                d1 = [[10 * (k + 1) + 1, sc[0], sc[1], []] for k, sc in enumerate(scripts)]
                d2 = [[10 * (k + 1) + 2, sc[2], sc[3], []] for k, sc in enumerate(scripts)]
                prog = [["try", [["block", "async", 1, [], d1, [["raise", "exc"]] if body1 == "raise" else []]]],
                        ["try", [["block", "async", 2, [], d2, [["raise", "exc"]] if body2 == "raise" else []]]]]
                yield json.dumps({"prog": prog, "sched": [], "retry": True}, separators=(",", ":"))


_RETRY = list(retry_family())


def single_block_family(max_d):
    opts = ["ok", "raise", "gate"]
    xopts = opts + ["swallow", "reraise"]      # exit only: `__aexit__` returns True / re-raises the exception it was handed
    for nd in range(0, max_d + 1):
        for disp in itertools.product(itertools.product(opts, xopts), repeat=nd):
            for body in ("ok", "raise", "base", "gate"):
                g = 0
                ds = []
                for i, (en, ex) in enumerate(disp):
                    def sc(x):
                        nonlocal g
                        if x == "gate":
                            g += 1
                            return ["wait", g]
                        return x
                    ds.append([i + 1, sc(en), sc(ex), [[i % 3, 100 + i]] * (i % 3)])
                stmts = [["probe", 1]]
                if body == "gate":
                    g += 1
                    stmts.append(["await", g])
                elif body != "ok":
                    stmts.append(["raise", "exc" if body == "raise" else "base"])
                prog = [["block", "async", 2, [[0, 9000]], [], [["try", [["block", "async", 1, [[0, 7]], ds, stmts]]], ["probe", 2]]]]
                ngates = g
                scheds = [[]] + [[0] * k + [55] for k in range(ngates)]  # cancel the victim while the k-th gate is pending
                for s in scheds:
                    yield json.dumps({"prog": prog, "sched": s}, separators=(",", ":"))


def extra_obligations():
    """`Disposables.__aexit__` regenerated from /repo's disposables.py as a MiniPy term (the gather is the external): for every list
    of results the disposing errors are exactly the exception instances that are not the very exception handed in; none - the
    method returns; one - that object is raised; several - one BaseExceptionGroup of exactly those, in order"""
    from harness import core, regen

    return regen.check("dispexit", core.REPO, core.LEAN)


# the known finding in the ROLLBACK path (thorough sweep, seed 11): a member of a cancelled scope is past its disposable's enter when the
# yielded iterable raises; `_dispose` builds its gather, and the owner's task-group abort reaches the member in that same loop turn
_ROLLBACK_STRUCK = ('{"prog":[["block","async",1,[],[[1,"ok","ok",[[2,1]]]],[["cancelself"],["spawn",1,"spawn",[["block","async",3,[],'
                    '[[3,"ok","ok",[[-1,0]]]],[]]]],["await",2]]]],"sched":[]}')


def corpus():
    return list(itertools.islice(single_block_family(1), 0, None)) + [_ROLLBACK_STRUCK]


def generate(rng, tier):
    yield from single_block_family(2 if tier == "quick" else 3)
    yield from (_RETRY if tier == "thorough" else _RETRY[:64] + rng.sample(_RETRY[64:], 300))
    n = 2500 if tier == "quick" else 60000
    for _ in range(n):
        yield sp.gen_case(rng, depth=rng.choice([2, 3]), p_disp=0.9, p_raise=0.1, p_fault=0.5, p_cancel=0.25)


# ------------------------------------------------------------------------------------------------

def blocks_of(case: str, out: str):
    """per async block with disposables that reached the enter phase: dict of observed facts"""
    prog = json.loads(case)["prog"]
    blocks, _ = sp.index_program(prog)
    disp_block = {d[0]: b for b, st in blocks.items() for d in st[4]}
    evs = sp.events(out)
    res = {}
    cancel_asked = {}
    disturb = []
    for idx, e in enumerate(evs):
        if e[0] == "X" and e[1] == "cancel":
            cancel_asked.setdefault(int(e[2]), idx)
            disturb.append(idx)
            continue
        if len(e) > 1 and e[1] == "cancelself":
            cancel_asked.setdefault(int(e[0]), idx)
            disturb.append(idx)
        if len(e) > 2 and e[1] == "end" and e[2] not in ("ok", "Cancelled"):
            disturb.append(idx)  # a failing member makes TaskGroup cancel its parent
        if (len(e) > 3 and e[1] == "bodyend" and e[3] != "ok") or e[1] == "raise":
            disturb.append(idx)  # a failing body makes TaskGroup cancel the members
        k = e[1]
        if k in ("den", "dened", "dex", "dexed", "dexcall"):
            b = disp_block[int(e[2])]
            r = res.setdefault(b, {"b": b, "task": int(e[0]), "ev": [], "order": [d[0] for d in blocks[b][4]]})
            r["ev"].append((idx, e))
        elif k in ("enter", "bodyend", "left") and int(e[2]) in disp_block.values():
            b = int(e[2])
            if blocks[b][4]:
                r = res.setdefault(b, {"b": b, "task": int(e[0]), "ev": [], "order": [d[0] for d in blocks[b][4]]})
                r["ev"].append((idx, e))
    async_blocks = {b for b, st in blocks.items() if st[1] == "async"}
    for r in res.values():
        r["cancel_idx"] = min(disturb) if disturb else None
        r["pending"] = pending_cancel_at_exit(evs, r, async_blocks)
    return [res[b] for b in sorted(res)]


def pending_cancel_at_exit(evs, r, async_blocks) -> bool:
    """The known-finding situation: a cancellation reaches the scope task before the `__aexit__` coroutines started by
    `gather` took their first step.  CAUSE observed directly: asyncio reports a request still undelivered when the body
    ends (`pending` field of `bodyend`: Task.cancel() landed while the task was runnable - ctx.cancel() in the body, a
    task-group abort reaching a member about to resume - with no suspension point since).  One more way in cannot be
    read off the log exactly: a sibling/member failed earlier and TaskGroup's done-callback (which cancels the others)
    runs in the same loop turn, right after this task suspended in the exit's gather; it is recognised by its effect
    (no `__aexit__` started at all, caller cancelled) *together with* such a failure preceding the exit."""
    bodyend = left = None
    ndex = 0
    for idx, e in r["ev"]:
        if e[1] == "bodyend":
            bodyend = (idx, e)
        elif e[1] == "left":
            left = (idx, e)
        elif e[1] == "dex":
            ndex += 1
    if bodyend is not None and len(bodyend[1]) > 4 and bodyend[1][4] == "1":
        return True
    if left is None or left[1][3] != "Cancelled" or ndex:
        return False
    if bodyend is None and not any(e[1] == "dened" and e[3] == "ok" for _i, e in r["ev"]):
        return False  # rollback flavour needs something that entered
    return any(e[0] != "X" and len(e) > 2 and e[1] == "end" and e[2] not in ("ok", "Cancelled")
               for e in evs[:left[0]])


def _from_check(evs, idx, t) -> bool:
    """the CancelledError just caught was raised by ctx.check_cancellation itself (which does not consume the
    pending request), not delivered by the event loop"""
    for j in range(idx - 1, -1, -1):
        if evs[j][0] == t:
            return evs[j][1] == "check" and evs[j][2] == "1"
    return False


def facts(r):
    f = {"den": {}, "dened": {}, "dex": {}, "dexed": {}, "dexcall": set(), "enter": None, "bodyend": None, "left": None, "pos": {}}
    for idx, e in r["ev"]:
        k = e[1]
        if k in ("den",):
            f["den"][int(e[2])] = f["den"].get(int(e[2]), 0) + 1
            f["pos"].setdefault(("den", int(e[2])), idx)
        elif k == "dened":
            f["dened"][int(e[2])] = e[3]
        elif k == "dex":
            f["dex"].setdefault(int(e[2]), []).append(e[3])
            f["pos"].setdefault(("dex", int(e[2])), idx)
        elif k == "dexed":
            f["dexed"][int(e[2])] = e[3]
        elif k == "dexcall":
            f["dexcall"].add(int(e[2]))
        elif k == "enter":
            f["enter"] = idx
        elif k == "bodyend":
            f["bodyend"] = (idx, e[3])
        elif k == "left":
            f["left"] = (idx, e[3])
            f["same"] = e[4]
            f["reach"] = e[6] if len(e) > 6 else None
    return f


def usable(r, f):
    return f["left"] is not None and all(d in f["dened"] for d in r["order"])


def model_input(case: str, out: str) -> str:
    specs = []
    for r in blocks_of(case, out):
        f = facts(r)
        if not usable(r, f):
            continue
        ds = []
        for d in r["order"]:
            en = {"ok": "e", "Cancelled": "i"}.get(f["dened"][d], "f")
            ex = "r" if f["dexed"].get(d, "ok") != "ok" else "o"
            ds.append(en + ex)
        body = "exc" if (f["bodyend"] and f["bodyend"][1] != "ok") else "ok"
        intr = 1 if (f["enter"] is None and all(f["dened"][d] == "ok" for d in r["order"])) else 0
        # the known finding's situation: read off the log by its cause (`pending_cancel_at_exit`) or by its exact mechanism (an
        # exit that was asked for - `dexcall` - and never took its first step, the block left cancelled)
        struck = f["left"][1] == "Cancelled" and any(d in f["dexcall"] and not f["dex"].get(d) for d in r["order"])
        specs.append(",".join(ds) + f" {body} {intr} {1 if (r['pending'] or struck) else 0}")
    return ";".join(specs)


def observed(case: str, out: str):
    res = []
    for r in blocks_of(case, out):
        f = facts(r)
        if not usable(r, f):
            continue
        enters = ",".join(str(f["den"].get(d, 0)) for d in r["order"])
        exits = ",".join(str(len(f["dex"].get(d, []))) for d in r["order"])
        args = [a != "None" for d in r["order"] for a in f["dex"].get(d, [])]
        arg = "-" if not args else "1" if all(args) else "0" if not any(args) else "mixed"
        body = 1 if f["enter"] is not None else 0
        caller = 0 if f["left"][1] == "ok" else 1
        cancelled_exit = f["left"][1] == "Cancelled" and r["cancel_idx"] is not None and r["cancel_idx"] < f["left"][0]
        reach = None
        if f.get("reach") is not None and f["left"][1] not in ("ok", "Cancelled"):
            tags = set(f["reach"].split("+"))
            got = [str(i) for i, d in enumerate(r["order"]) if f"dex{d}" in tags]
            reach = ",".join(got) or "-"
        res.append((f"enters={enters} exits={exits} args={arg} body={body}", caller, cancelled_exit, reach))
    return res


def agree(case: str, m: str, out: str) -> bool:
    obs = observed(case, out)
    preds = [p for p in m.split(";") if p] if m else []
    if len(preds) != len(obs):
        return False
    for p, (o, caller, cancelled_exit, reach) in zip(preds, obs):
        p, _, want_reach = p.rpartition(" reach=")
        head, _, c = p.rpartition(" caller=")
        if head != o:
            return False
        if reach is not None and reach != want_reach:
            return False  # which cleanup errors reach the caller (raised / in the group / on the cause-context chain)
        if c == "1" and caller != 1:
            return False
        if c == "0" and caller == 1 and not cancelled_exit:
            return False  # a cancellation delivered during the scope exit is outside this model (C02/C07)
    return True


def _direct_probes(prog, acc=None, owner=None):
    """probe id -> the block whose body holds it *directly* (None at top level / inside try / in a spawned task's body
    before any block)"""
    acc = {} if acc is None else acc
    for st in prog:
        if st[0] == "probe":
            acc[st[1]] = owner
        elif st[0] == "block":
            _direct_probes(st[5], acc, st)
        elif st[0] == "try":
            _direct_probes(st[1], acc, owner)
        elif st[0] == "spawn":
            _direct_probes(st[3], acc, None)    # the spawned task inherits the state; keep it simple: not judged here
    return acc


def visibility_failures(case: str, out: str) -> set[str]:
    """'State yielded by disposables is visible inside the scope': a lookup made directly in the body of an async block
    returns, for every type the block supplies (directly or through what its disposables yielded, in declaration order,
    the last one winning), exactly that instance – whatever the instance's truthiness"""
    fails = set()
    owner = _direct_probes(json.loads(case)["prog"])
    for e in sp.events(out):
        if len(e) < 4 or e[1] != "probe":
            continue
        blk = owner.get(int(e[2]))
        if blk is None or blk[1] != "async" or not blk[4]:
            continue
        want = {}
        for ty, tag in blk[3]:
            want[ty] = tag
        for d in blk[4]:
            for ty, tag in d[3]:
                if ty >= 0:
                    want[ty] = tag
        got = e[3].split("/")[0].split(",")
        for ty, tag in want.items():
            if ty < len(got) and got[ty] != str(tag):
                fails.add("disposables.yielded-state-not-visible")
    return fails


def monitor(case: str, out: str) -> list[str]:
    fails = set()
    if '"retry"' not in case:
        fails |= visibility_failures(case, out)
    for r in blocks_of(case, out):
        f = facts(r)
        if f["left"] is None:
            continue
        for d in r["order"]:
            n = f["den"].get(d, 0)
            if n > 1 or (n == 0 and (f["enter"] is not None or f["den"])):
                fails.add("disposables.entered-not-once")
            entered = f["dened"].get(d) == "ok"
            nx = len(f["dex"].get(d, []))
            if entered and nx == 0:
                if d in f["dexcall"] and f["left"][1] == "Cancelled":
                    # known finding, recognised by its exact mechanism: the exit WAS asked for (`gather` built the list of
                    # `__aexit__` coroutines – normal exit or rollback of a failed / interrupted enter) and asyncio cancelled the
                    # wrapping task before the coroutine's first step (a cancellation pending when the exit starts, or reaching
                    # the task in the loop turn in which it suspended in that `gather`); an exit that was never asked for is not this
                    fails.add("disposables.pending-cancel-skips-exit")
                else:
                    fails.add("disposables.entered-not-exited")
            if nx > 1:
                fails.add("disposables.exited-twice")
            if not entered and nx:
                fails.add("disposables.exit-without-enter")
            if f["enter"] is not None and ("den", d) in f["pos"] and f["pos"][("den", d)] > f["enter"]:
                fails.add("disposables.enter-after-body-start")
            if f["bodyend"] and ("dex", d) in f["pos"] and f["pos"][("dex", d)] < f["bodyend"][0]:
                fails.add("disposables.exit-before-body-end")
        all_entered = all(f["dened"].get(d) == "ok" for d in r["order"])
        if f["enter"] is not None and not all_entered:
            fails.add("disposables.body-ran-without-all-entered")
        if f["enter"] is None and all_entered and all(d in f["dened"] for d in r["order"]) and f["left"][1] == "ok":
            fails.add("disposables.body-skipped")
        if f["bodyend"]:
            want = "None" if f["bodyend"][1] == "ok" else f["bodyend"][1]
            for d in r["order"]:
                for a in f["dex"].get(d, []):
                    if a != want:
                        fails.add("disposables.exit-args-not-body-outcome")
        elif f["enter"] is None:
            for d in r["order"]:
                for a in f["dex"].get(d, []):
                    if a == "None":
                        fails.add("disposables.rollback-exit-without-exception")
        if f["left"][1] == "ok":
            if any(v != "ok" for v in f["dexed"].values()):
                fails.add("disposables.cleanup-error-vanished")
        elif f["bodyend"] and f["bodyend"][1] != "ok" and f.get("same") == "1" \
                and any(v not in ("ok", "Cancelled") for v in f["dexed"].values()):
            # the body failed AND a cleanup raised: what reaches the caller must not be just the body's own exception
            fails.add("disposables.cleanup-error-vanished")
            if any(v != "ok" for v in f["dened"].values()):
                fails.add("disposables.enter-error-vanished")
        if f.get("reach") is not None and f["left"][1] != "Cancelled":
            # every ordinary error raised by the cleanup of a disposable of this block (after the body, or during the
            # rollback of a failed enter) reaches the caller: as the exception raised, inside a raised
            # group, or on its cause / context chain.  (A cancellation delivered during the exit is C02/C07's subject.)
            tags = set(f["reach"].split("+"))
            for d in r["order"]:
                if f["dexed"].get(d) == "Boom" and f"dex{d}" not in tags:
                    fails.add("disposables.cleanup-error-vanished" if f["enter"] is not None
                              else "disposables.rollback-cleanup-error-vanished")
    return sorted(fails)


def nontrivial(case: str, out: str) -> bool:
    for r in blocks_of(case, out):
        f = facts(r)
        if len(r["order"]) >= 2 and f["left"] is not None:
            if any(v != "ok" for v in f["dened"].values()) or any(v != "ok" for v in f["dexed"].values()) or (
                    f["bodyend"] and f["bodyend"][1] != "ok"):
                return True
    return False


def classify(case: str, out: str):
    for r in blocks_of(case, out):
        f = facts(r)
        yield f"ndisp:{len(r['order'])}"
        for v in f["dened"].values():
            yield "enter:" + v
        for v in f["dexed"].values():
            yield "exit:" + v
        if f["bodyend"]:
            yield "body:" + f["bodyend"][1]
        if f["enter"] is None:
            yield "rollback"
        if f["left"]:
            yield "left:" + f["left"][1]
