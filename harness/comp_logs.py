"""C19 – context log lines: real `ctx.log_*` under nested scopes vs `hwmodel logs`."""
from __future__ import annotations

from harness import core, vloop  # noqa: F401
from harness import metrics_common as mc

PID = "C19"
LEAN_COMPONENT = "logs"
PROPS_MODULE = "Haiway.Props.C19"
ANCHORS = ["src/haiway/context/metrics.py", "src/haiway/context/access.py"]
RULE = ("case = event sequence over <=5 scopes and <=4 tasks where every scope optionally sets its own logger (3 supplied Logger "
        "objects) and/or trace id, scope names from a pool incl. the empty name, names with '%', '%s', '%d', '%(', brackets, blanks, "
        "dots; ctx.log_debug/info/warning/error calls at arbitrary positions (inside scopes, outside any scope, in ctx.spawn "
        "members and in plain tasks that inherited the context, after the scope was left) with %-formats and arguments from a "
        "pool (agreeing and disagreeing: too few / too many / ill-typed arguments, malformed directives, '%%', no arguments, ONE mapping "
        "argument with %(key)s/%(key)d/%(key)r placeholders incl. missing keys) plus "
        "random formats over the alphabet {% s d r q z [ ] = /}, optional exception; a fifth of the sequences use the fault knob "
        "(tasks cancelled from outside while suspended or blocked in an exit, async scopes with a disposable whose cleanup raises "
        "and whose caller goes on logging); records captured by handlers on the supplied loggers and on the root logger (a record "
        "whose message cannot be built is lost through Handler.handleError); "
        "quick ~6000 sequences + corpus, thorough 16x5000; non-trivial = >=2 nested scopes, >=1 log call with arguments inside a "
        "scope nested in another AND (an inherited trace id or logger is exercised: some ancestor sets what the logging scope does "
        "not); distinct = by case text")
TRUSTED = ["Python logging (Logger.log, LogRecord.getMessage, propagation to the root logger) as exercised, modelled by Haiway/Model/Logs.lean",
           "the %-format reader of the model covers literal text, %%, %s %r %d, and %(key)s %(key)r %(key)d with a single mapping "
           "argument; the generators stay inside that fragment for user formats "
           "(scope names are arbitrary)",
           "harness/metrics_common.py (event language, spec replay, runner, capturing handlers) + harness/comp_logs.py monitor"]
ASSUMPTIONS = ["trace ids given to ctx.scope are non-empty strings", "supplied loggers and the root logger let every level through (level DEBUG) at the time of each ctx.log_* call; in half of the cases they are at WARNING while scopes are built / entered / left and opened up only around the log calls (catches C19-x3: effective level cached at scope creation)",
               "scope names are not 'root' and do not look like the supplied loggers' names (L0..L2)"]

NAMES = ["", "svc", "a", "50%", "%s", "%d", "100%_done", "a[b]", "[x]_%r", "%(x)s", "%%", "x.y", "q%", "%_s", "db%5d", "n_m"]
TRACES = ["tr1", "T-2", "r%s", "t3"]
FORMATS = [
    ("plain", ""), ("hello_%s", "sw"), ("%d_items_of_%s", "i3,sx"), ("100%%_sure_%s", "sy"), ("rate_100%", ""),
    ("%r_and_%s", "sq,i7"), ("%s", "i0"), ("%d", "i12"), ("a%sb%sc", "s1,s2"),
    # disagreeing format / arguments: may be lost, must not raise
    ("bad_%s_%s", "sonly"), ("none", "sextra"), ("%d", "sstr"), ("trail_%", "sa"), ("%q", "sa"), ("%", "i1"),
    ("rate_100%_%s", "sz"),
    # ONE mapping argument with named placeholders (agreeing) …
    ("user_%(name)s", "kname=sbob"), ("%(n)d_of_%(m)d", "kn=i1,km=i3"), ("pct_100%%_%(a)r", "ka=sx"), ("%(a)s_%(a)s", "ka=i5,kb=sy"),
    ("plain_text", "ka=i1"),
    # … and disagreeing ones
    ("%(missing)s", "ka=i1"), ("%(a)d", "ka=sx"), ("%(a", "ka=i1"), ("%(a)", "ka=i1"), ("half_%", "ka=i1"),
]
ALPHA = list("%%%sdrqz[]=/")   # no flag / width / conversion characters other than s d r


def _logger_name(origin: str, rec_name: str) -> str:
    if origin != "root":
        return origin
    return "root" if rec_name == "root" else "N:" + mc.enc(rec_name)


def run_real(case: str) -> str:
    run = mc.run_case(case)
    if run is None:
        return "invalid"
    out = []
    if run.churn is not None:
        idents, traces = run.churn
        own = {str(m.identifier) for m in run.metrics.values()}
        out.append(f"C{mc.churn_of(case)}/{len(set(idents))}/{len(set(traces))}/{len(own & set(idents))}")
    last = int(run.desync.split("@")[1]) if run.desync else len(run.evs) + 1
    for k in range(last):
        for n in run.notes.get(k, []):
            out.append(f"{k}!{n}")
        for (origin, name, level, exc, text) in run.logs.get(k, []):
            body = "LOST" if text is None else "=" + mc.enc(text)
            out.append(f"{k}~{_logger_name(origin, name)}/{level}/{exc}/{body}")
        for sid, _obs in sorted(run.fired.get(k, []), key=lambda x: x[0]):
            out.append(f"{k}^{sid}")
    for sid in sorted(run.metrics):
        m = run.metrics[sid]
        out.append(f"S{sid}/{mc.enc(m.trace_id)}/{mc.enc(m.identifier)}/{mc.enc(m.label)}")
    if run.desync:
        out.append(f"D{last}")       # a task was not where the program says it is: observations end here
    return " ".join(out)


def canon(case: str, out: str) -> str:
    return mc.canon_ids(out) if mc.valid(case) else "invalid"


# ------------------------------------------------------------------------------------------------
# the property on the implementation's observations

def _user_text(ev):
    """what `fmt % args` gives (None when the user's own format and arguments disagree)"""
    if not ev.args:
        return ev.fmt
    args = ev.args
    if len(args) == 1 and isinstance(args[0], dict) and args[0]:
        args = args[0]          # what `logging` documents for a single mapping argument
    try:
        return ev.fmt % args
    except Exception:  # noqa: BLE001
        return None


def monitor(case: str, out: str) -> list[str]:
    p = mc.parse_case(case)
    if p is None:
        return []
    _, evs, _ = p
    spec = mc.replay(evs)
    if not spec.ok:
        return []
    if out.startswith("HANG"):
        return ["logs.no-observation:" + out[:24]]
    fails = set()
    limit = len(evs) + 1
    for tok in out.split():
        if tok.startswith("D") and tok[1:].isdigit():
            limit = int(tok[1:])
            fails.add("logs.unobservable:desync")
    recs: dict[int, list] = {}
    ids: dict[int, tuple[str, str, str]] = {}
    for tok in out.split():
        if "~" in tok and tok.split("~")[0].isdigit():
            k, rest = tok.split("~", 1)
            logger, level, exc, body = rest.split("/", 3)
            recs.setdefault(int(k), []).append((logger, level, exc, body))
        elif tok.startswith("S") and "/" in tok:
            sid, tr, ident, label = tok[1:].split("/", 3)
            ids[int(sid)] = (mc.dec(tr), mc.dec(ident), mc.dec(label))
        elif "!" in tok and tok.split("!")[0].isdigit():
            what = tok.split("!", 1)[1]
            fails.add("logs.log-raised" if what.startswith("log-raised") else "logs.unexpected:" + what)

    def chain(sid):
        yield sid
        yield from spec.lex_ancestors(sid)

    def root_of(sid):
        return list(chain(sid))[-1]

    def expected_trace(sid):
        """the given id of the nearest scope that has one; else the id the outermost scope reports (fresh)"""
        for a in chain(sid):
            if spec.scopes[a].trace is not None:
                return spec.scopes[a].trace
        r = root_of(sid)
        return ids[r][0] if r in ids else None

    def expected_logger(sid):
        for a in chain(sid):
            if spec.scopes[a].logger is not None:
                return f"L{spec.scopes[a].logger}"
        name = spec.scopes[root_of(sid)].name
        return "root" if name == "" else "N:" + mc.enc(name)

    # trace ids reported by the scopes themselves
    fresh_seen: dict[str, int] = {}
    for sid, (tr, ident, label) in ids.items():
        exp = expected_trace(sid)
        if exp is not None and tr != exp:
            fails.add("logs.trace-not-inherited")
        if label != spec.scopes[sid].name:
            fails.add("logs.wrong-label")
        if not ident:
            fails.add("logs.no-identifier")
        sc = spec.scopes[sid]
        if sc.lex is None and sc.trace is None:
            if not tr or tr in fresh_seen:
                fails.add("logs.trace-not-fresh")
            fresh_seen[tr] = sid
    idents = [v[1] for v in ids.values()]
    if len(set(idents)) != len(idents):
        fails.add("logs.identifier-not-unique")
    for tok in out.split():
        if tok.startswith("C") and tok.count("/") == 3 and tok[1:].split("/")[0].isdigit():
            n, d_id, d_tr, overlap = tok[1:].split("/")
            if d_id != n or overlap != "0":
                fails.add("logs.identifier-not-unique")      # over time: a scope that is gone still owns its identifier
            if d_tr != n:
                fails.add("logs.trace-not-fresh")

    for k, ev in enumerate(evs):
        if ev.kind != "log" or k >= limit:
            continue
        got = recs.get(k, [])
        user = _user_text(ev)
        if len(got) > 1:
            fails.add("logs.duplicate-record")
        if not got:
            fails.add("logs.record-missing")
            continue
        logger, level, exc, body = got[0]
        sid = spec.innermost_at.get(k)
        if level != mc.LEVELS[ev.level]:
            fails.add("logs.wrong-level")
        if ev.exc and exc != "1":
            fails.add("logs.exception-missing")
        if sid is None:
            if logger != "root":
                fails.add("logs.outside-not-root")
            if user is not None:
                if body == "LOST":
                    fails.add("logs.message-lost")
                elif mc.dec(body[1:]) != user:
                    fails.add("logs.outside-tagged")
            continue
        if logger != expected_logger(sid):
            fails.add("logs.wrong-logger")
        if user is None:
            continue                                    # the caller's own format is wrong: the record may be lost
        if body == "LOST":
            fails.add("logs.message-lost")
            continue
        text = mc.dec(body[1:])
        if user not in text:
            fails.add("logs.message-altered")
        tr = expected_trace(sid)
        if tr is not None and tr not in text:
            fails.add("logs.untagged-trace")
        if sid in ids and ids[sid][1] not in text:
            fails.add("logs.untagged-identifier")
        if spec.scopes[sid].name not in text:
            fails.add("logs.untagged-name")
    return sorted(fails)


# ------------------------------------------------------------------------------------------------
# cases

def extra_obligations():
    """`MetricsContext.scope` regenerated from /repo's metrics.py as a MiniPy term: outside any scope the new scope gets the
    trace id and logger as given and no parent; inside one it gets the caller's trace id / logger when given and otherwise the
    ENCLOSING scope's, with the enclosing scope as parent - exactly what `Logs.mkScope` assumes; one ScopeMetrics built, wrapped once"""
    from harness import core, regen

    return regen.check("logscope", core.REPO, core.LEAN)


def corpus():
    cs = [
        # nested scope without own trace id inherits (pinned defect: fresh id)
        "0:o:a:s:outer::tr1 0:o:a:s:inner:: 0:l:i:0:hello_%s:sw 0:x 0:x 0:e",
        "0:o:a:s:outer:: 0:o:s:a:mid::T-2 0:o:s:s:inner:: 0:l:w:0:plain: 0:x 0:l:e:1:%d_items_of_%s:i3,sx 0:x 0:l:d:0:x: 0:x 0:e",
        # a single mapping argument, inside scopes whose names contain '%' and outside any scope
        "0:l:i:0:user_%(name)s:kname=sbob 0:o:a:s:50%:: 0:l:i:0:user_%(name)s:kname=sbob 0:l:w:0:%(n)d_of_%(m)d:kn=i1,km=i3 "
        "0:o:s:s:%(x)s:: 0:l:e:1:pct_100%%_%(a)r:ka=sx 0:l:d:0:%(missing)s:ka=i1 0:x 0:x 0:e",
        # '%' in the scope name with arguments (pinned defect: message lost)
        "0:o:a:s:50%:: 0:l:i:0:hello_%s:sw 0:l:i:0:plain_100%: 0:x 0:e",
        "0:o:s:s:%s:: 0:l:e:1:%d:i5 0:o:s:s:%d:0: 0:l:w:0:a%sb%sc:s1,s2 0:x 0:x 0:e",
        "0:o:s:s:%(x)s::r%s 0:l:d:0:%r_and_%s:sq,i7 0:x 0:e",
        # logger chain: own, nearest enclosing, named after the outermost scope, root for the empty name
        "0:o:a:s:svc:: 0:l:i:0:plain: 0:o:s:s:in:1: 0:l:i:0:plain: 0:o:s:s:in2:: 0:l:i:0:plain: 0:x 0:x 0:x 0:e",
        "0:o:a:s::: 0:l:w:0:hello_%s:sw 0:o:s:a:x.y:: 0:l:e:0:plain: 0:x 0:x 0:e",
        # outside any scope; disagreeing formats are never raised
        "0:l:w:0:out_%s:sx 0:l:e:1:plain: 0:l:d:0:bad_%s_%s:sonly 0:o:s:s:a:: 0:l:i:0:none:sextra 0:l:e:0:%q:sa 0:l:w:1:trail_%:sa 0:x 0:e",
        # spawned member and plain task inherit trace id and logger; log after the scope was left
        "0:o:a:s:svc:2:tr1 0:s 0:c 1:l:i:0:hello_%s:sw 2:o:s:s:late:: 2:l:w:0:%d:i12 1:e 0:x 2:l:e:0:%s:i0 2:x 2:l:d:0:plain: 2:e 0:e",
        # fault paths: after a scope whose disposable cleanup raised (caller catches it) the enclosing scope tags the lines
        "0:o:a:s:outer:1:tr1 0:o:d:a:inner:2:T-2 0:l:i:0:hello_%s:sw 0:x 0:l:w:0:after_%s:sx 0:o:s:s:next:: 0:l:e:0:plain: 0:x 0:x 0:l:d:0:out: 0:e",
        "0:o:d:s:only:: 0:x 0:l:w:0:after_%s:sx 0:o:s:s:n2:: 0:l:i:0:%d:i3 0:x 0:e",
        # the scope's task is cancelled while its exit waits for a member; the parent task goes on logging
        "0:o:a:s:outer::tr1 0:c 1:o:a:a:w:0: 1:s 2:l:i:0:m: 1:x 1:k 0:l:i:0:after_%d:i1 0:x 0:e",
        # uniqueness over time: hundreds of short-lived outermost scopes before the program proper
        "churn=400 0:o:a:s:svc:: 0:l:i:0:plain: 0:o:s:s:in:: 0:l:i:0:hello_%s:sw 0:x 0:x 0:e",
        "churn=1500 0:o:s:s:a:: 0:x 0:o:s:s:b:: 0:l:w:0:%d:i3 0:x 0:e",
    ]
    return [mc.normalize(c) for c in cs]


def _open_tok(rng, t, held):
    name = rng.choice(NAMES) if rng.random() < 0.85 else "".join(rng.choice(list("ab%sd[]_.")) for _ in range(rng.randint(1, 5)))
    if name in ("root",) or (name.startswith("L") and name[1:].isdigit()):
        name = "svc"
    logger = str(rng.randrange(3)) if rng.random() < 0.3 else ""
    trace = rng.choice(TRACES) if rng.random() < 0.3 else ""
    return f"{t}:{'m' if held else 'o'}:{rng.choice(mc.KINDS)}:{rng.choice('sa')}:{name}:{logger}:{trace}"


def _rand_arg(rng):
    return f"i{rng.randint(0, 20)}" if rng.random() < 0.5 else "s" + "".join(rng.choice("abz") for _ in range(rng.randint(0, 2)))


def _log_tok(rng, t):
    if rng.random() < 0.75:
        fmt, args = rng.choice(FORMATS)
    else:
        fmt = "".join(rng.choice(ALPHA) for _ in range(rng.randint(0, 7)))
        args = ",".join(_rand_arg(rng) for _ in range(rng.choice([0, 0, 1, 1, 2, 3])))
    lv = rng.choice("diwe")
    exc = "1" if lv != "i" and rng.random() < 0.3 else "0"
    return f"{t}:l:{lv}:{exc}:{fmt}:{args}"


def _extra(rng, r, t):
    return [(4.0 if r.cur(t) is not None else 1.0, _log_tok(rng, t))]


def sample(rng) -> str | None:
    return mc.sample_events(rng, rng.randint(1, 5), degenerate=False, extra=_extra, open_tok=_open_tok, max_steps=50, tick_w=0.0,
                            faults=1.0 if rng.random() < 0.2 else 0.0)


def generate(rng, tier):
    n = 6000 if tier == "quick" else 16 * 5000
    for i in range(n):
        c = sample(rng)
        if c:
            yield f"churn={rng.choice([150, 300, 600])} {c}" if i % 200 == 7 else c


def nontrivial(case: str, out: str) -> bool:
    p = mc.parse_case(case)
    if p is None:
        return False
    spec = mc.replay(p[1])
    if not spec.ok or len(spec.scopes) < 2:
        return False
    for k, ev in enumerate(p[1]):
        if ev.kind != "log" or not ev.args:
            continue
        sid = spec.innermost_at.get(k)
        if sid is None or spec.scopes[sid].lex is None:
            continue
        sc = spec.scopes[sid]
        anc = [spec.scopes[a] for a in spec.lex_ancestors(sid)]
        if (sc.trace is None and any(a.trace is not None for a in anc)) or (sc.logger is None and any(a.logger is not None for a in anc)):
            return True
    return False


def classify(case: str, out: str):
    p = mc.parse_case(case)
    if p is None:
        return
    spec = mc.replay(p[1])
    yield f"scopes:{len(spec.scopes)}"
    yield f"tasks:{len(spec.tasks)}"
    for sc in spec.scopes:
        if "%" in sc.name:
            yield "name:has-percent"
        if sc.name == "":
            yield "name:empty"
        if sc.logger is not None:
            yield "scope:own-logger"
        if sc.trace is not None:
            yield "scope:own-trace"
    for k, ev in enumerate(p[1]):
        if ev.kind == "log":
            yield f"level:{ev.level}"
            yield "log:args" if ev.args else "log:no-args"
            if ev.exc:
                yield "log:exception"
            if _user_text(ev) is None:
                yield "log:disagreeing-format"
            sid = spec.innermost_at.get(k)
            if sid is None:
                yield "log:outside-any-scope"
            elif ev.t != spec.scopes[sid].task:
                yield "log:from-other-task"
    if "LOST" in out:
        yield "obs:lost"


def mutate(rng, case: str) -> str:
    toks = case.split()
    ntasks = 1 + sum(1 for t in toks if t.endswith(":s") or t.endswith(":c"))
    for _ in range(rng.randint(1, 3)):
        t = rng.randrange(ntasks)
        op = rng.choice(["l", "l", "l", "o", "o", "x", "s", "c", "e", "k", "d"])
        if op == "l":
            new = _log_tok(rng, t)
        elif op == "o":
            new = _open_tok(rng, t, False)
        elif op == "d":
            f = _open_tok(rng, t, False).split(":")
            f[2] = "d"
            new = ":".join(f)
        else:
            new = f"{t}:{op}"
        r = rng.random()
        if r < 0.5 or not toks:
            toks.insert(rng.randint(0, len(toks)), new)
        elif r < 0.75:
            toks[rng.randrange(len(toks))] = new
        else:
            del toks[rng.randrange(len(toks))]
    pre: list[str] = []
    for tok in toks:
        pre.append(tok)
        if not mc.valid(" ".join(pre)):
            pre.pop()
    return mc.normalize(" ".join(pre)) or "0:e"


def shrink(case: str):
    toks = case.split()
    seen = set()
    for i in range(len(toks)):
        cand = toks[:i] + toks[i + 1:]
        pre: list[str] = []
        for tok in cand:
            pre.append(tok)
            if not mc.valid(" ".join(pre)):
                pre.pop()
        c = mc.normalize(" ".join(pre))
        if c and c != case and len(c.split()) < len(toks) and c not in seen:
            seen.add(c)
            yield c
