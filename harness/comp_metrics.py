"""C10 – recorded metrics: real `ctx.record` / `ScopeMetrics.read` / `.metrics(merge=…)` vs `hwmodel metrics`."""
from __future__ import annotations

from harness import core, vloop  # noqa: F401
from harness import metrics_common as mc

PID = "C10"
LEAN_COMPONENT = "metrics"
PROPS_MODULE = "Haiway.Props.C10"
ANCHORS = ["src/haiway/context/metrics.py", "src/haiway/context/access.py"]
RULE = ("case = event sequence over <=5 scopes and <=4 tasks (creating task, ctx.spawn members, plain tasks that inherit the "
        "context and may outlive the scope) with ctx.record calls of 3 metric types at arbitrary positions (inside scopes, "
        "outside any scope, in concurrently running tasks, after the scope completed), record merge in {replace(default), sum, "
        "concatenate, keep-first, raising}, one view merge per case in {replace, sum, concatenate, keep-first, skip-new(returns "
        "MISSING)}; observed: outcome of every record call, read(T) for the 3 types / metrics() / metrics(merge=view) inside "
        "every completion callback, read(T) at the end; quick ~6000 sampled sequences + corpus, thorough 16x5000; non-trivial = "
        ">=1 scope with >=2 records of one type folded by a non-replace merge AND (records from >=2 tasks OR a nested scope with "
        "records under a scope with a callback); distinct = by case text")
TRUSTED = ["harness/metrics_common.py (event language, spec replay, runner, merge function family) + harness/comp_metrics.py monitor",
           "the merge functions of the family are written twice (Python test doubles, Lean driver) and compared through the runs"]
ASSUMPTIONS = ["metric classes are plain State subclasses (instances truthy: no __bool__/__len__); the model also covers falsy "
               "values, where the code replaces instead of merging (theorem C10.fold_falsy_replaces)",
               "merge functions raise only Exception subclasses (a bare BaseException propagates: theorem C10.never_raises states the exact condition)",
               "view merge functions do not raise"]


def extra_obligations():
    """ScopeMetrics.record and MetricsContext.record regenerated from /repo's metrics.py as MiniPy terms and proved to refine
    `Metrics.record` (store / merge-by-truthiness / refused once completed / a raising merge leaves the value) and
    `Metrics.ctxRecord` (recording never raises an Exception into user code) for arbitrary recorded values; C10's fold law
    restated of the regenerated `record` over whole histories; and `ScopeMetrics.metrics(merge=…)` – the merged view – taken
    apart into the pieces of its `for` loop and proved to be the left fold over the nested scopes' values"""
    from harness import core, regen

    return regen.check("metrics", core.REPO, core.LEAN) + regen.check("view", core.REPO, core.LEAN)


def _vals(vs) -> str:
    return ",".join(mc.show_val(v) for v in vs)


def _reads(vs) -> str:
    return "|".join("-" if v is None else mc.show_val(v) for v in vs)


def run_real(case: str) -> str:
    run = mc.run_case(case)
    if run is None:
        return "invalid"
    if run.desync:
        return run.desync
    out = []
    cls = mc.metric_classes()
    for k in range(len(run.evs) + 1):
        for n in run.notes.get(k, []):
            out.append(f"{k}!{n}")
        if k in run.rec:
            out.append(f"{k}={'ok' if run.rec[k] == 'ok' else 'raised'}")
        for sid, obs in sorted(run.fired.get(k, []), key=lambda x: x[0]):
            if "error" in obs:
                out.append(f"{k}^{sid}!{obs['error']}")
            else:
                out.append(f"{k}^{sid}[{_reads(obs['read'])}][{_vals(obs['plain'])}][{_vals(obs['view'])}]")
    for sid in sorted(run.metrics):
        m = run.metrics[sid]
        out.append(f"F{sid}[{_reads([m.read(c) for c in cls])}]")
    return " ".join(out)


def canon(case: str, out: str) -> str:
    return out if mc.valid(case) else "invalid"


# ------------------------------------------------------------------------------------------------
# the property: an independent replay of the flat event log

def _merge(name, a, b):
    """reference semantics of the record merge family on payload tuples; None = raises"""
    if name == "rep":
        return b
    if name == "sum":
        return (sum(a) + sum(b),)
    if name == "cat":
        return a + b
    if name == "first":
        return a
    return None


def _vmerge(name, a, b):
    """reference semantics of the view merge family; a is None for MISSING; result None = MISSING"""
    if a is None:
        return None if name == "skipnew" else b
    if name == "rep":
        return b
    if name == "sum":
        return (sum(a) + sum(b),)
    if name in ("cat", "skipnew"):
        return a + b
    return a        # first


def _fold(records):
    """records: [(ty, merge, val)] in recording order -> ordered dict ty -> payload"""
    own: dict[int, tuple] = {}
    for ty, mg, val in records:
        if ty in own:
            r = _merge(mg, own[ty], (val,))
            if r is not None:
                own[ty] = r
        else:
            own[ty] = (val,)
    return own


def _show(d: dict) -> str:
    return ",".join(f"{ty}({'.'.join(map(str, v))})" for ty, v in d.items())


def _show_reads(d: dict) -> str:
    return "|".join(f"{ty}({'.'.join(map(str, d[ty]))})" if ty in d else "-" for ty in range(3))


def monitor(case: str, out: str) -> list[str]:
    p = mc.parse_case(case)
    if p is None:
        return []
    vm, evs, _ = p
    spec = mc.replay(evs)
    if not spec.ok:
        return []
    if out.startswith("HANG") or out.startswith("desync"):
        return ["metrics.no-observation:" + out[:24]]
    fails = set()
    # attribution by the spec: the innermost scope active in the recording task at that moment
    recs: dict[int, list] = {}
    for k, ev in enumerate(evs):
        if ev.kind == "record":
            sid = spec.innermost_at.get(k)
            if sid is not None:
                recs.setdefault(sid, []).append((k, ev.ty, ev.merge, ev.val))
    children: dict[int, list[int]] = {}
    late: set[int] = set()          # scopes constructed after their lexical parent had been left (it may have completed)
    fired_k: dict[int, int] = {}
    toks = out.split()
    for tok in toks:
        if "^" in tok and "[" in tok:
            k, rest = tok.split("^")
            fired_k.setdefault(int(rest.split("[")[0]), int(k))
    for sc in spec.scopes:
        if sc.lex is not None:
            children.setdefault(sc.lex, []).append(sc.sid)
            par = spec.scopes[sc.lex]
            if par.ev_left is not None and par.ev_left < sc.ev_made:
                late.add(sc.sid)

    def own_at(sid, k):
        return _fold([(ty, mg, v) for (kk, ty, mg, v) in recs.get(sid, []) if kk < k])

    def has_late(sid):
        return any(c in late or has_late(c) for c in children.get(sid, []))

    INF = 10 ** 9

    def done_ev(sid):
        """the event at which the scope and everything constructed inside it has been left (spec side)"""
        sc = spec.scopes[sid]
        own = sc.ev_left if sc.ev_left is not None else INF
        return max([own] + [done_ev(c) for c in children.get(sid, [])])

    def ambiguous(sid, k):
        """a record arrived in a scope of the subtree after that scope was done: the property does not say
        whether it still counts, so the view is not judged"""
        if any(done_ev(sid) < kk < k for (kk, _, _, _) in recs.get(sid, [])):
            return True
        return any(ambiguous(c, k) for c in children.get(sid, []))

    def view_done(sid):
        acc = dict(own_at(sid, done_ev(sid)))
        for c in children.get(sid, []):
            for ty, v in view_done(c).items():
                r = _vmerge(vm, acc.get(ty), v)
                if r is not None:
                    acc[ty] = r
        return acc

    seen_reads: dict[int, str] = {}
    for tok in toks:
        if "=" in tok and tok.split("=")[0].isdigit():
            if tok.split("=")[1] != "ok":
                fails.add("metrics.record-raised")
        elif "!" in tok and "^" not in tok:
            fails.add("metrics.unexpected:" + tok.split("!", 1)[1])
        elif "^" in tok:
            k, rest = tok.split("^")
            k = int(k)
            if "!" in rest:
                fails.add("metrics.read-raised:" + rest.split("!")[1])
                continue
            sid = int(rest.split("[")[0])
            reads, plain, view = [x.rstrip("]") for x in rest.split("[")[1:]]
            seen_reads.setdefault(sid, reads)
            own = own_at(sid, k)
            if reads != _show_reads(own):
                # which way is it wrong?
                got = {i: x for i, x in enumerate(reads.split("|")) if x != "-"}
                exp = {i: x for i, x in enumerate(_show_reads(own).split("|")) if x != "-"}
                if set(got) - set(exp):
                    fails.add("metrics.foreign-record-in-scope")
                elif set(exp) - set(got):
                    fails.add("metrics.record-missing")
                else:
                    fails.add("metrics.fold-differs")
            if plain != _show(own):
                fails.add("metrics.own-values-differ")
            if not has_late(sid) and not ambiguous(sid, k) and done_ev(sid) == k and view != _show(view_done(sid)):
                fails.add("metrics.view-differs")
        elif tok.startswith("F"):
            sid = int(tok[1:].split("[")[0])
            reads = tok.split("[")[1].rstrip("]")
            k = fired_k.get(sid)
            if k is not None and sid in seen_reads:
                # frozen (what the callback saw), or still folding records that arrive later: both satisfy the property
                ok = {seen_reads[sid], _show_reads(own_at(sid, len(evs) + 1))}
                if reads not in ok:
                    fails.add("metrics.value-changed-after-completion")
    return sorted(fails)


# ------------------------------------------------------------------------------------------------
# cases

def corpus():
    cs = [
        "vm=cat 0:o:a:s 0:r:0:cat:1 0:o:s:s 0:r:0:cat:2 0:r:1:sum:5 0:x 0:r:0:cat:3 0:r:0:boom:9 0:x 0:r:2:rep:1 0:e",
        # concurrently recording tasks, non-commutative fold
        "vm=cat 0:o:a:s 0:s 0:s 1:r:0:cat:1 2:r:0:cat:2 1:r:0:cat:3 0:r:0:cat:4 2:r:1:sum:2 1:r:1:sum:5 1:e 2:e 0:x 0:e",
        # each task records into its own innermost scope
        "vm=sum 0:o:a:s 0:s 1:o:s:s 0:o:s:a 1:r:0:sum:1 0:r:0:sum:10 1:r:0:sum:2 0:r:0:sum:20 0:x 1:x 1:e 0:x 0:e",
        # outside any scope, raising merge, after completion (plain task outliving the scope)
        "vm=rep 0:r:0:rep:1 0:o:s:s 0:c 0:r:0:sum:1 0:r:0:boom:2 0:x 1:r:0:sum:5 1:r:1:cat:1 1:e 0:r:1:rep:3 0:e",
        # creation-order view with MISSING results
        "vm=skipnew 0:o:a:s 0:r:0:cat:1 0:o:s:s 0:r:0:cat:2 0:r:1:cat:7 0:x 0:o:s:s 0:r:1:cat:8 0:r:0:cat:3 0:x 0:x 0:e",
        "vm=first 0:o:a:s 0:o:s:s 0:r:1:cat:7 0:o:a:a 0:r:1:cat:8 0:r:0:cat:1 0:x 0:x 0:r:0:cat:2 0:x 0:e",
        # finished but not completed scope still records (child task inherited it)
        "vm=cat 0:o:s:s 0:c 1:o:s:s 0:x 1:x 1:r:0:cat:4 1:r:0:cat:5 1:e 0:e",
        "vm=cat 0:o:s:s 0:c 0:r:0:cat:1 1:o:s:s 0:x 1:r:0:cat:4 1:x 1:e 0:e",
        "vm=sum 0:o:a:s 0:r:2:first:1 0:r:2:first:2 0:r:2:rep:3 0:r:2:sum:4 0:x 0:e",
    ]
    return [mc.normalize(c) for c in cs]


def _extra(rng, r, t):
    ty = rng.randrange(3)
    mg = rng.choices(mc.REC_MERGES, weights=[2, 3, 4, 1, 1])[0]
    w = 5.0 if r.cur(t) is not None else 0.7
    return [(w, f"{t}:r:{ty}:{mg}:{rng.randint(0, 9)}")]


def sample(rng) -> str | None:
    body = mc.sample_events(rng, rng.randint(1, 5), degenerate=rng.random() < 0.05, extra=_extra, max_steps=70, tick_w=0.1)
    if body is None:
        return None
    return f"vm={rng.choice(mc.VIEW_MERGES)} {body}"


def generate(rng, tier):
    n = 6000 if tier == "quick" else 16 * 5000
    for _ in range(n):
        c = sample(rng)
        if c:
            yield c


def nontrivial(case: str, out: str) -> bool:
    p = mc.parse_case(case)
    if p is None:
        return False
    spec = mc.replay(p[1])
    if not spec.ok:
        return False
    per: dict[tuple, list] = {}
    tasks_rec = set()
    nested_rec = False
    for k, ev in enumerate(p[1]):
        if ev.kind == "record":
            sid = spec.innermost_at.get(k)
            if sid is None:
                continue
            per.setdefault((sid, ev.ty), []).append(ev.merge)
            tasks_rec.add(ev.t)
            lex = spec.scopes[sid].lex
            if lex is not None and spec.scopes[lex].cb != "n":
                nested_rec = True
    folded = any(len(v) >= 2 and any(m != "rep" for m in v[1:]) for v in per.values())
    return folded and (len(tasks_rec) >= 2 or nested_rec)


def classify(case: str, out: str):
    p = mc.parse_case(case)
    if p is None:
        return
    spec = mc.replay(p[1])
    yield f"vm:{p[0]}"
    yield f"scopes:{len(spec.scopes)}"
    yield f"tasks:{len(spec.tasks)}"
    n = 0
    for k, ev in enumerate(p[1]):
        if ev.kind == "record":
            n += 1
            yield f"merge:{ev.merge}"
            sid = spec.innermost_at.get(k)
            if sid is None:
                yield "record:outside-any-scope"
            else:
                sc = spec.scopes[sid]
                if sc.ev_left is not None and sc.ev_left < k:
                    yield "record:after-scope-left"
                if ev.t != sc.task:
                    yield "record:from-other-task"
    yield f"records:{min(n // 4 * 4, 20)}"


def mutate(rng, case: str) -> str:
    toks = case.split()
    head = [t for t in toks if t.startswith("vm=")] or ["vm=cat"]
    toks = [t for t in toks if not t.startswith("vm=")]
    ntasks = 1 + sum(1 for t in toks if t.endswith(":s") or t.endswith(":c"))
    for _ in range(rng.randint(1, 3)):
        t = rng.randrange(ntasks)
        op = rng.choice(["r", "r", "r", "o", "x", "s", "c", "e"])
        if op == "r":
            new = f"{t}:r:{rng.randrange(3)}:{rng.choice(mc.REC_MERGES)}:{rng.randint(0, 9)}"
        elif op == "o":
            new = f"{t}:o:{rng.choice(mc.KINDS)}:{rng.choice('sa')}"
        else:
            new = f"{t}:{op}"
        r = rng.random()
        if r < 0.5 or not toks:
            toks.insert(rng.randint(0, len(toks)), new)
        elif r < 0.75:
            toks[rng.randrange(len(toks))] = new
        else:
            del toks[rng.randrange(len(toks))]
    if rng.random() < 0.2:
        head = [f"vm={rng.choice(mc.VIEW_MERGES)}"]
    pre: list[str] = []
    for tok in toks:
        pre.append(tok)
        if not mc.valid(" ".join(pre)):
            pre.pop()
    body = mc.normalize(" ".join(pre)) or "0:e"
    return " ".join(head + [body])


def shrink(case: str):
    toks = case.split()
    head = [t for t in toks if t.startswith("vm=")]
    body = [t for t in toks if not t.startswith("vm=")]
    seen = set()
    for i in range(len(body)):
        cand = body[:i] + body[i + 1:]
        pre: list[str] = []
        for tok in cand:
            pre.append(tok)
            if not mc.valid(" ".join(pre)):
                pre.pop()
        c = mc.normalize(" ".join(pre))
        if c is None:
            continue
        full = " ".join(head + [c])
        if full != case and len(full.split()) < len(toks) and full not in seen:
            seen.add(full)
            yield full
