"""C20 – MISSING singleton: real `haiway.types.missing` (+ State instances holding MISSING) vs `hwmodel missing`.

case:  <op> <value>      op in id | call | copy | deepcopy | pickle0..pickle5 (pickle6: protocol refused)
value (prefix tokens):   N None, T/F, I<int>, S<text>, M the constant MISSING, Mc a call Missing(),
  Q an object whose __eq__ always answers True, L<k> list, U<k> tuple, E<k> set, Z<k> frozenset (k values
  follow), D<k> dict (k key/value pairs), A<k> State instance with k attributes (k = 1..3):
  a: Any | Missing, b: Sequence[Any] | Missing (a tuple or MISSING), c: int | Missing.
observation: `<result tree> | is= not= when= bool= eqL= eqR= | attr=`; in the tree an instance of Missing
  prints `M` when it `is MISSING`, `m` otherwise; eqL is `MISSING == r`, eqR is `r == MISSING`; valM / valSM = a State
  attribute annotated `Missing` / `str | Missing` accepts r (1 = accepted and stored as it is, 0 = construction raises);
  attr = outcome of get/set/del of an attribute when r is an instance of Missing, followed by
  mod=<assignment of __class__ (to a class of the same empty layout), __dict__, __slots__, __doc__, _instance, __bool__ and
  deletion of __class__, __doc__, __slots__: R = rejected with AttributeError/TypeError> intact=<the object is still the falsy
  Missing singleton after each probe>; byp=<object.__setattr__(r, "value", 42), vars(r), r.__dict__: R = rejected, i.e. no
  instance storage> post=<reading r.value afterwards> wr=<weakref.ref(r), recorded only>; anything a mutated library lets
  through is undone by the harness.  `P` = object of another type whose __class__ reports Missing.
"""
from __future__ import annotations

import copy as _copy
import pickle as _pickle

from harness import core, vloop

PID = "C20"
LEAN_COMPONENT = "missing"
PROPS_MODULE = "Haiway.Props.C20"
ANCHORS = ["src/haiway/types/missing.py", "src/haiway/state/structure.py"]
OPS = ["id", "call", "copy", "deepcopy"] + [f"pickle{p}" for p in range(6)]
RULE = ("case = one way of obtaining a value (identity, Missing(), copy.copy, copy.deepcopy, pickle round trip with protocol 0..5) "
        "applied to a value tree over {None, bools, ints, strs, MISSING, Missing(), always-equal object, list, tuple, dict, set, "
        "frozenset, State instance with 1..3 attributes}; both tiers: every leaf alone and in every 1- and 2-level wrapping "
        "(list, tuple, dict value, State attribute, next to a second MISSING) x every op, plus random trees to depth 4 "
        "(2000 quick / 60000 thorough); non-trivial = the tree holds MISSING and the op is not the identity, or the top-level "
        "value is a look-alike (None, False, 0, empty container, always-equal object); distinct = by case text")
TRUSTED = ["copy / deepcopy / pickle follow the reduce protocol as modelled in Haiway/Model/Missing.lean",
           "harness/comp_missing.py run_real + monitor"]
ASSUMPTIONS = ["State instances of the current code cannot be pickled at all (__slots__ + immutable __setattr__, nothing to do "
               "with MISSING): for a pickle round trip of a tree holding a State instance the model admits both the error and the "
               "successful result, and the monitor only judges a successful result",
               "MISSING is unhashable (defines __eq__ without __hash__), so it cannot be a set element or a dict key: "
               "sets and dict keys in the cases hold plain values only",
               "Mapping-typed State attributes are avoided (their deepcopy belongs to C04/C05)"]

# the real library must come from the tree under test *before* the State doubles are defined
core.import_haiway()

from collections.abc import Sequence  # noqa: E402
from typing import Any  # noqa: E402

import haiway  # noqa: E402
from haiway import MISSING, Missing, State  # noqa: E402


class StateM(State):
    v: Missing                     # only the constant conforms


class StateSM(State):
    v: str | Missing = MISSING     # a str or the constant


class StateA1(State):
    a: Any | Missing = MISSING


class StateA2(State):
    a: Any | Missing = MISSING
    b: Sequence[Any] | Missing = MISSING


class StateA3(State):
    a: Any | Missing = MISSING
    b: Sequence[Any] | Missing = MISSING
    c: int | Missing = MISSING


STATE_CLASSES = {1: StateA1, 2: StateA2, 3: StateA3}
FIELDS = ["a", "b", "c"]


class AlwaysEq:
    def __eq__(self, other):  # noqa: ANN001
        return True

    __hash__ = None  # type: ignore[assignment]


class Pretender:
    """An object of another type that reports `Missing` as its `__class__` (like `Mock(spec=Missing)` or a proxy):
    `isinstance(x, Missing)` and `case Missing():` accept it, identity does not."""

    @property
    def __class__(self):  # noqa: ANN204
        return haiway.Missing

    def __copy__(self):
        return self

    def __deepcopy__(self, memo):  # noqa: ANN001
        return self

    def __reduce__(self):
        return (Pretender, ())


DFLT = object()

# ---------------------------------------------------------------------------------------------
# token trees: ("N",) ("T",) ("F",) ("I", n) ("S", s) ("M",) ("Mc",) ("Q",) (tag, [children]) for L U E Z A,
# ("D", [(k, v), …])


class BadCase(Exception):
    pass


def parse_tokens(toks: list[str]):
    pos = 0

    def val():
        nonlocal pos
        if pos >= len(toks):
            raise BadCase("short")
        t = toks[pos]
        pos += 1
        if t in ("N", "T", "F", "M", "Mc", "Q", "P"):
            return (t,)
        h, arg = t[0], t[1:]
        if h == "I":
            return ("I", int(arg))
        if h == "S":
            return ("S", arg)
        if h in "LUEZA":
            k = int(arg)
            if k < 0 or k > 50:
                raise BadCase("arity")
            return (h, [val() for _ in range(k)])
        if h == "D":
            k = int(arg)
            if k < 0 or k > 50:
                raise BadCase("arity")
            return ("D", [(val(), val()) for _ in range(k)])
        raise BadCase(t)

    try:
        v = val()
    except (ValueError, IndexError) as exc:
        raise BadCase(str(exc)) from None
    if pos != len(toks):
        raise BadCase("trailing")
    return v


HASHABLE_LEAVES = ("N", "T", "F", "I", "S")


def wellformed(t) -> bool:
    h = t[0]
    if h in ("N", "T", "F", "I", "S", "M", "Mc", "Q", "P"):
        return True
    if h in ("L", "U"):
        return all(wellformed(c) for c in t[1])
    if h in ("E", "Z"):
        toks = [render_tree(c) for c in t[1]]
        # distinct plain values; avoid True == 1 / False == 0 collapsing
        plain = all(c[0] in HASHABLE_LEAVES for c in t[1]) and len(set(toks)) == len(toks)
        has_bool = any(c[0] in ("T", "F") for c in t[1])
        has_small = any(c[0] == "I" and c[1] in (0, 1) for c in t[1])
        return plain and not (has_bool and has_small)
    if h == "D":
        keys = [render_tree(k) for k, _ in t[1]]
        return (all(k[0] in ("I", "S") for k, _ in t[1]) and len(set(keys)) == len(keys)
                and all(wellformed(v) for _, v in t[1]))
    if h == "A":
        kids = t[1]
        if len(kids) not in STATE_CLASSES:
            return False
        if len(kids) >= 2 and kids[1][0] not in ("M", "Mc", "U"):
            return False
        if len(kids) >= 3 and kids[2][0] not in ("M", "Mc", "I"):
            return False
        return all(wellformed(c) for c in kids)
    return False


def render_tree(t, norm: bool = False) -> str:
    """tokens of a case tree; with `norm` in the form the observation uses (Mc -> M, sets sorted)"""
    h = t[0]
    if h in ("N", "T", "F", "M", "Q", "P"):
        return h
    if h == "Mc":
        return "M" if norm else "Mc"
    if h in ("I", "S"):
        return f"{h}{t[1]}"
    if h in ("L", "U", "A"):
        return " ".join([f"{h}{len(t[1])}"] + [render_tree(c, norm) for c in t[1]])
    if h in ("E", "Z"):
        kids = [render_tree(c, norm) for c in t[1]]
        return " ".join([f"{h}{len(kids)}"] + (sorted(kids) if norm else kids))
    if h == "D":
        out = [f"D{len(t[1])}"]
        for k, v in t[1]:
            out += [render_tree(k, norm), render_tree(v, norm)]
        return " ".join(out)
    raise BadCase(str(t))


def holds_state(t) -> bool:
    h = t[0]
    if h == "A":
        return True
    if h in ("L", "U", "E", "Z"):
        return any(holds_state(c) for c in t[1])
    if h == "D":
        return any(holds_state(k) or holds_state(v) for k, v in t[1])
    return False


def holds_missing(t) -> bool:
    h = t[0]
    if h in ("M", "Mc"):
        return True
    if h in ("L", "U", "E", "Z", "A"):
        return any(holds_missing(c) for c in t[1])
    if h == "D":
        return any(holds_missing(v) for _, v in t[1])
    return False


def depth(t) -> int:
    h = t[0]
    if h in ("L", "U", "E", "Z", "A"):
        return 1 + max([depth(c) for c in t[1]], default=0)
    if h == "D":
        return 1 + max([depth(v) for _, v in t[1]], default=0)
    return 0


def parse_case(case: str):
    toks = case.split()
    if not toks:
        raise BadCase("empty")
    op = toks[0]
    if not (op in ("id", "call", "copy", "deepcopy") or (op.startswith("pickle") and op[6:].isdigit())):
        raise BadCase(op)
    tree = parse_tokens(toks[1:])
    if not wellformed(tree):
        raise BadCase("ill-formed")
    return op, tree


# ---------------------------------------------------------------------------------------------
# real side

def build(t):
    h = t[0]
    if h == "N":
        return None
    if h == "T":
        return True
    if h == "F":
        return False
    if h in ("I", "S"):
        return t[1]
    if h == "M":
        return haiway.MISSING
    if h == "Mc":
        return haiway.Missing()
    if h == "Q":
        return AlwaysEq()
    if h == "P":
        return Pretender()
    if h == "L":
        return [build(c) for c in t[1]]
    if h == "U":
        return tuple(build(c) for c in t[1])
    if h == "E":
        return {build(c) for c in t[1]}
    if h == "Z":
        return frozenset(build(c) for c in t[1])
    if h == "D":
        return {build(k): build(v) for k, v in t[1]}
    if h == "A":
        return STATE_CLASSES[len(t[1])](**{FIELDS[i]: build(c) for i, c in enumerate(t[1])})
    raise BadCase(str(t))


def observe_tree(x) -> str:
    if x is None:
        return "N"
    if x is True:
        return "T"
    if x is False:
        return "F"
    if type(x) is haiway.Missing:
        return "M" if x is haiway.MISSING else "m"
    if type(x) is int:
        return f"I{x}"
    if type(x) is str:
        return f"S{x}"
    if type(x) is AlwaysEq:
        return "Q"
    if type(x) is Pretender:
        return "P"
    if type(x) is list:
        return " ".join([f"L{len(x)}"] + [observe_tree(c) for c in x])
    if type(x) is tuple:
        return " ".join([f"U{len(x)}"] + [observe_tree(c) for c in x])
    if type(x) is set:
        return " ".join([f"E{len(x)}"] + sorted(observe_tree(c) for c in x))
    if type(x) is frozenset:
        return " ".join([f"Z{len(x)}"] + sorted(observe_tree(c) for c in x))
    if type(x) is dict:
        out = [f"D{len(x)}"]
        for k, v in x.items():
            out += [observe_tree(k), observe_tree(v)]
        return " ".join(out)
    if isinstance(x, State):
        attrs = vars(x)
        return " ".join([f"A{len(attrs)}"] + [observe_tree(attrs[k]) for k in sorted(attrs)])
    return "?" + type(x).__name__


def exc_enum(exc: BaseException) -> str:
    for cls in (TypeError, ValueError, AttributeError, RecursionError, _pickle.PickleError):
        if isinstance(exc, cls):
            return cls.__name__
    return "ExceptionGroup" if isinstance(exc, BaseExceptionGroup) else "other"


def bit(b) -> str:
    return "1" if b is True else "0" if b is False else "?"


class _EmptyLayout:
    # same (empty) instance layout as Missing, so CPython itself would permit `__class__` assignment
    __slots__ = ()


SPECIAL_SETS = ["__class__", "__dict__", "__slots__", "__doc__", "_instance", "__bool__"]
SPECIAL_DELS = ["__class__", "__doc__", "__slots__"]


def probe_special(r) -> str:
    """Try to modify an instance of Missing through special attribute names.  `R` = rejected with
    AttributeError / TypeError.  Whatever a (mutated) library lets through is undone before returning,
    so later cases in the same process see the original object; `intact` is taken before the undo."""
    original = type(r)
    values = {"__class__": _EmptyLayout, "__dict__": {}, "__slots__": (), "__doc__": "x", "_instance": None,
              "__bool__": lambda: True}
    res = []

    def restore():
        if type(r) is not original:
            try:
                object.__setattr__(r, "__class__", original)
            except Exception:  # noqa: BLE001
                pass

    intact = True
    for kind, names in (("set", SPECIAL_SETS), ("del", SPECIAL_DELS)):
        for name in names:
            try:
                if kind == "set":
                    setattr(r, name, values[name])
                else:
                    delattr(r, name)
                res.append("ok")
            except (AttributeError, TypeError):
                res.append("R")
            except Exception as exc:  # noqa: BLE001
                res.append("X" + exc_enum(exc))
            try:
                same = type(r) is original and (bool(r) is False) and (r is haiway.MISSING or original is not haiway.Missing)
            except Exception:  # noqa: BLE001
                same = False
            intact = intact and same
            restore()
            if res[-1] == "ok" and kind == "set" and name != "__class__":
                try:
                    object.__delattr__(r, name)
                except Exception:  # noqa: BLE001
                    pass
    # bypassing Missing.__setattr__: there must be no instance storage at all
    byp = []

    def attempt(f, cleanup=None):
        try:
            f()
            byp.append("ok")
            if cleanup:
                try:
                    cleanup()
                except Exception:  # noqa: BLE001
                    pass
        except (AttributeError, TypeError):
            byp.append("R")
        except Exception as exc:  # noqa: BLE001
            byp.append("X" + exc_enum(exc))

    stored = {}

    def raw_set():
        object.__setattr__(r, "value", 42)
        try:
            stored["seen"] = r.value == 42
        except Exception:  # noqa: BLE001
            stored["seen"] = False

    attempt(raw_set)
    try:
        r.value  # noqa: B018
        post = "ok"
    except AttributeError:
        post = "AE"
    except Exception as exc:  # noqa: BLE001
        post = "X" + exc_enum(exc)
    try:
        object.__delattr__(r, "value")
    except Exception:  # noqa: BLE001
        pass
    attempt(lambda: vars(r))
    attempt(lambda: r.__dict__)
    import weakref

    try:
        weakref.ref(r)
        wr = "ok"
    except TypeError:
        wr = "R"
    return f"mod={','.join(res)} byp={','.join(byp)} post={post} intact={'1' if intact else '0'} wr={wr}"


def observe(r) -> str:
    from haiway import is_missing, not_missing, when_missing

    w = when_missing(r, DFLT)
    when = "dflt" if w is DFLT else "same" if w is r else "other"
    if type(r) is haiway.Missing:
        probes = []
        for f in (lambda: r.foo, lambda: setattr(r, "foo", 1), lambda: delattr(r, "foo")):
            try:
                f()
                probes.append("ok")
            except AttributeError:
                probes.append("AE")
            except Exception as exc:  # noqa: BLE001
                probes.append("X" + exc_enum(exc))
        attr = ",".join(probes) + " " + probe_special(r)
    else:
        attr = "-"
    def accepted(cls):
        try:
            inst = cls(v=r)
        except Exception:  # noqa: BLE001
            return "0"
        return "1" if inst.v is r else "x"     # accepted: stored as it is
    return (f"{observe_tree(r)} | is={bit(is_missing(r))} not={bit(not_missing(r))} when={when} bool={bit(bool(r))} "
            f"eqL={bit(haiway.MISSING == r)} eqR={bit(r == haiway.MISSING)} valM={accepted(StateM)} valSM={accepted(StateSM)} "
            f"| attr={attr}")


def run_real(case: str) -> str:
    try:
        op, tree = parse_case(case)
    except BadCase:
        return "bad-case"
    try:
        v = build(tree)
    except Exception as exc:  # noqa: BLE001
        return "ERR:build:" + exc_enum(exc)
    try:
        if op == "id":
            r = v
        elif op == "call":
            r = haiway.Missing()
        elif op == "copy":
            r = _copy.copy(v)
        elif op == "deepcopy":
            r = _copy.deepcopy(v)
        else:
            p = int(op[6:])
            if p > _pickle.HIGHEST_PROTOCOL:
                try:
                    _pickle.dumps(v, p)
                except ValueError:
                    return "ERR:bad-protocol"
                return "ERR:protocol-accepted"
            r = _pickle.loads(_pickle.dumps(v, p))
    except Exception as exc:  # noqa: BLE001
        if op.startswith("pickle") and holds_state(tree):
            return "ERR:state-not-picklable"
        return "ERR:" + exc_enum(exc)
    try:
        return observe(r)
    except Exception as exc:  # noqa: BLE001
        return "ERR:observe:" + exc_enum(exc)


# ---------------------------------------------------------------------------------------------
# comparison

_ALTS: dict[str, list[str]] = {}
import re as _re  # noqa: E402

_WR = _re.compile(r" wr=\S+")


def _alt_case(case: str) -> bool:
    try:
        op, tree = parse_case(case)
    except BadCase:
        return False
    return op.startswith("pickle") and int(op[6:]) <= 5 and holds_state(tree)


def canon(case: str, out: str) -> str:
    """Ill-formed cases (hand-written replays only) compare as `bad-case` on both sides.  A pickle round
    trip of a tree holding a State instance may fail (current code) or succeed with the faithful result:
    the model prints both as `ALT …`, the implementation's line must be one of them."""
    try:
        parse_case(case)
    except BadCase:
        return "bad-case"
    out = _WR.sub("", out)   # weak-referenceability is recorded, not compared: the property is silent on it
    if out.startswith("ALT "):
        if not _alt_case(case):
            return out
        _ALTS[case] = out[4:].split(" || ")
        return "ALT-OK"
    if _alt_case(case):
        alts = _ALTS.get(case)
        if alts is None:
            m = core.run_model(LEAN_COMPONENT, [case])[0]
            alts = m[4:].split(" || ") if m.startswith("ALT ") else [m]
            _ALTS[case] = alts
        return "ALT-OK" if out in alts else out
    return out


# ---------------------------------------------------------------------------------------------
# the property on the implementation's observation

def opclass(op: str) -> str:
    return "pickle" if op.startswith("pickle") else op


def monitor(case: str, out: str) -> list[str]:
    try:
        op, tree = parse_case(case)
    except BadCase:
        return []
    oc = opclass(op)
    if out.startswith("ERR:") or out.startswith("HANG"):
        if out == "ERR:bad-protocol" and oc == "pickle" and int(op[6:]) > 5:
            return []
        if out == "ERR:state-not-picklable":
            return []   # no value obtained at all: nothing for the property to say (see ASSUMPTIONS)
        return [f"missing.{oc}.fails"]
    parts = out.split(" | ")
    if len(parts) != 3:
        return ["missing.no-observation"]
    shape, preds, attr = parts
    try:
        p = dict(t.split("=", 1) for t in preds.split())
        p["attr"] = attr.split("=", 1)[1]
        for k in ("is", "not", "when", "bool", "eqL", "eqR", "valM", "valSM"):
            p[k]
    except Exception:  # noqa: BLE001
        return ["missing.no-observation"]
    fails = []
    toks = shape.split()
    if "m" in toks:
        fails.append(f"missing.{oc}.new-instance")
    expected = "M" if op == "call" else render_tree(tree, norm=True)
    if " ".join("M" if t == "m" else t for t in toks) != expected:
        fails.append(f"missing.{oc}.result-differs")
    top = toks[0] if toks else "?"
    if top == "M":
        if p["is"] != "1":
            fails.append("missing.predicate.is_missing")
        if p["not"] != "0":
            fails.append("missing.predicate.not_missing")
        if p["when"] != "dflt":
            fails.append("missing.predicate.when_missing")
        if p["bool"] != "0":
            fails.append("missing.truthy")
        if p["eqL"] != "1" or p["eqR"] != "1":
            fails.append("missing.not-equal-to-itself")
        if p["valM"] != "1" or p["valSM"] != "1":
            fails.append("missing.validator-rejects-the-constant")
        af = p["attr"].split()
        a = af[0].split(",") if af else []
        for name, res in zip(("get", "set", "del"), a + ["?"] * 3):
            if res != "AE":
                fails.append(f"missing.attribute-{name}-not-rejected")
        extra = dict(x.split("=", 1) for x in af[1:] if "=" in x)
        mods = extra.get("mod", "").split(",")
        if len(mods) != len(SPECIAL_SETS) + len(SPECIAL_DELS):
            fails.append("missing.no-observation")
        else:
            for name, res in zip([f"set:{n}" for n in SPECIAL_SETS] + [f"del:{n}" for n in SPECIAL_DELS], mods):
                if res != "R":
                    fails.append(f"missing.modification-not-rejected.{name}")
        byp = extra.get("byp", "").split(",")
        if len(byp) != 3:
            fails.append("missing.no-observation")
        else:
            for name, res in zip(("object.__setattr__", "vars", "__dict__"), byp):
                if res != "R":
                    fails.append(f"missing.has-instance-storage.{name}")
        if extra.get("post") != "AE":
            fails.append("missing.attribute-get-not-rejected")
        if extra.get("intact") != "1":
            fails.append("missing.modified")
    elif top != "m":
        # the validator of a `Missing`-typed attribute agrees with identity too: no look-alike is taken for the constant
        if p["valM"] != "0" or (p["valSM"] != "0" and not top.startswith("S")):
            fails.append("missing.validator-accepts-lookalike")
        if p["is"] != "0":
            fails.append("missing.predicate.is_missing")
        if p["not"] != "1":
            fails.append("missing.predicate.not_missing")
        if p["when"] != "same":
            fails.append("missing.predicate.when_missing")
        if p["eqL"] != "0":
            fails.append("missing.equal-to-other")          # MISSING == x for x not MISSING
        if top != "Q" and p["eqR"] != "0":
            fails.append("missing.equal-to-other")
    return sorted(set(fails))


LOOKALIKES = {"N", "F", "I0", "S", "L0", "U0", "D0", "E0", "Z0", "Q", "P"}


def nontrivial(case: str, out: str) -> bool:
    try:
        op, tree = parse_case(case)
    except BadCase:
        return False
    return (holds_missing(tree) and op != "id") or render_tree(tree) in LOOKALIKES


def classify(case: str, out: str):
    try:
        op, tree = parse_case(case)
    except BadCase:
        yield "bad-case"
        return
    yield "op:" + op
    yield f"depth:{depth(tree)}"
    toks = render_tree(tree).split()
    yield f"missing-leaves:{min(sum(1 for t in toks if t in ('M', 'Mc')), 4)}"
    for t in sorted({t[0] for t in toks if t[0] in 'LUDEZAQP'}):
        yield "has:" + t
    if out.startswith("ERR:"):
        yield "obs:" + out


# ---------------------------------------------------------------------------------------------
# generation

LEAVES = ["M", "Mc", "N", "T", "F", "I0", "I3", "Sx", "S", "L0", "U0", "D0", "E0", "Z0", "Q", "P"]


def extra_obligations():
    """MissingType.__call__, the dunder methods of Missing, is_missing / not_missing / when_missing regenerated from /repo's
    missing.py as MiniPy terms and proved to be what the model takes them to be (singleton call, (Missing, ()) reduce,
    identity predicates, falsy, == by identity, attribute access refused) for every argument"""
    from harness import core, regen

    return regen.check("missing", core.REPO, core.LEAN)


def corpus():
    cs = [f"{op} M" for op in OPS]                              # copy / deepcopy / pickle made a second instance on the pinned tree
    cs += [f"{op} L2 I1 M" for op in ("copy", "deepcopy", "pickle0", "pickle2", "pickle5")]
    cs += ["deepcopy A3 M M M", "deepcopy A1 L1 M", "copy A3 L1 M U1 M M", "deepcopy A2 D1 Sk U1 M U2 M I1",
           "pickle4 D1 Sk U2 L1 M Mc", "pickle1 L1 A1 M", "pickle3 A3 M M M", "pickle6 M", "call N",
           "deepcopy L1 L1 L1 L1 M", "pickle5 U1 U1 D1 I1 L1 Mc"]
    cs += [f"id {x}" for x in ("N", "F", "I0", "S", "L0", "U0", "D0", "E0", "Z0", "Q", "T", "I3", "P")]
    cs += ["copy P", "deepcopy A1 P", "pickle2 L2 P M", "id A3 P M M"]
    cs += [f"{op} Q" for op in ("copy", "deepcopy", "pickle2")]
    return cs


def wraps(x: str):
    yield x
    yield f"L1 {x}"
    yield f"U1 {x}"
    yield f"D1 Sk {x}"
    yield f"A1 {x}"
    yield f"L2 M {x}"
    yield f"A3 {x} M M"
    yield f"A2 Mc U1 {x}"


def gen_tree(rng, d: int, missing_p: float = 0.45) -> str:
    if d == 0 or rng.random() < 0.25:
        if rng.random() < missing_p:
            return rng.choice(("M", "M", "Mc"))
        return rng.choice(LEAVES)
    kind = rng.choice("LLUUDDAAEZ")
    if kind in "LU":
        k = rng.randint(0, 3)
        return " ".join([f"{kind}{k}"] + [gen_tree(rng, d - 1, missing_p) for _ in range(k)])
    if kind == "D":
        k = rng.randint(0, 3)
        keys = rng.sample(["Sk", "Sj", "I1", "I2", "Sq"], k)
        out = [f"D{k}"]
        for key in keys:
            out += [key, gen_tree(rng, d - 1, missing_p)]
        return " ".join(out)
    if kind in "EZ":
        k = rng.randint(0, 3)
        return " ".join([f"{kind}{k}"] + rng.sample(["N", "I5", "I7", "Sx", "Sy", "T"], k))
    k = rng.randint(1, 3)
    kids = [gen_tree(rng, d - 1, missing_p)]
    if k >= 2:
        if rng.random() < 0.5:
            kids.append(rng.choice(("M", "Mc")))
        else:
            n = rng.randint(0, 2)
            kids.append(" ".join([f"U{n}"] + [gen_tree(rng, max(d - 2, 0), missing_p) for _ in range(n)]))
    if k == 3:
        kids.append(rng.choice(("M", "Mc", "I4", "I0")))
    return " ".join([f"A{k}"] + kids)


def generate(rng, tier):
    for leaf in LEAVES:
        for w1 in wraps(leaf):
            for op in OPS:
                yield f"{op} {w1}"
            if w1 != leaf:
                for w2 in list(wraps(w1))[1:6]:
                    for op in OPS[2:]:
                        yield f"{op} {w2}"
    for _ in range(2000 if tier == "quick" else 60000):
        yield f"{rng.choice(OPS)} {gen_tree(rng, rng.randint(1, 4))}"


def mutate(rng, case: str) -> str:
    try:
        op, tree = parse_case(case)
    except BadCase:
        return "copy M"
    r = rng.random()
    if r < 0.4:
        return f"{rng.choice(OPS)} {render_tree(tree)}"
    if r < 0.7:
        return f"{op} {gen_tree(rng, rng.randint(0, 3), 0.6)}"
    return f"{rng.choice(OPS)} {rng.choice(list(wraps(render_tree(tree)))[1:6])}"


def shrink(case: str):
    try:
        op, tree = parse_case(case)
    except BadCase:
        return
    h = tree[0]
    kids = []
    if h in ("L", "U", "A"):
        kids = list(tree[1])
    elif h == "D":
        kids = [v for _, v in tree[1]]
    for k in kids:
        yield f"{op} {render_tree(k)}"
    if h in ("L", "U") and tree[1]:
        for i in range(len(tree[1])):
            yield f"{op} {render_tree((h, tree[1][:i] + tree[1][i + 1:]))}"
    if h == "D" and tree[1]:
        for i in range(len(tree[1])):
            yield f"{op} {render_tree(('D', tree[1][:i] + tree[1][i + 1:]))}"
    if h == "A" and len(tree[1]) > 1:
        yield f"{op} {render_tree(('A', tree[1][:-1]))}"
    if h == "Mc":
        yield f"{op} M"
