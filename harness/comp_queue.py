"""C17 – AsyncQueue: real `haiway.utils.queue.AsyncQueue` vs `hwmodel queue`."""
from __future__ import annotations

import asyncio
import itertools

from harness import core, vloop

PID = "C17"
LEAN_COMPONENT = "queue"
PROPS_MODULE = "Haiway.Props.C17"
ANCHORS = ["src/haiway/utils/queue.py"]
ALPHABET = ["e1", "e2", "fin", "finerr", "cancelq", "recv", "cancelrecv", "run", "step"]
RULE = ("case = sequence over {enqueue one, enqueue two, finish, finish(error), cancel queue, start receive, "
        "cancel pending receive, let the loop run}, followed by a fixed drain phase (finish; receive n+3 times); "
        "quick: all sequences of length<=4 + random to length 40; thorough: all of length<=6 + random; "
        "non-trivial = a receive was pending (blocked consumer) at some enqueue/finish/cancel AND >=1 element delivered; "
        "distinct = by case text")
TRUSTED = ["asyncio Future/Task.cancel semantics as modelled in Haiway/Model/Queue.lean (wake, must-cancel)",
           "harness/comp_queue.py run_real + monitor"]
ASSUMPTIONS = ["single consumer task (the class documents this)", "the model is parametric in the element values; the harness enqueues arbitrary objects incl. exception instances and identifies them by identity"]


class Err(Exception):
    """exception classes are arbitrary: this one has a keyword-only constructor (the usual shape of a project's structured
    errors), so it cannot be rebuilt as `cls(*args)` – the queue has to hand on the object it was given"""

    def __init__(self, what="e", *, code: int = 0):
        super().__init__(what)
        self.code = code

    def __reduce__(self):
        raise TypeError("structured error: cannot be rebuilt from its args")


class FalsyErr(Err):
    """an exception instance whose truth value is False"""

    def __len__(self):
        return 0


class _Box:
    def __init__(self, n):
        self.n = n


def extra_obligations():
    """enqueue / finish / cancel / __anext__ regenerated from /repo's queue.py as MiniPy terms; each is proved to refine the
    corresponding step of the model `Haiway.Queue` (for every buffer, every element value, every finish reason)"""
    from harness import core, regen

    return regen.check("queue", core.REPO, core.LEAN)


def corpus():
    return [
        "recv run e1 cancelrecv run recv run",            # hand-over then cancel before wake-up (lost element on pinned tree)
        "recv run e2 cancelrecv run recv run recv run",
        "recv run e1 cancelrecv e1 run recv run recv run",
        "e1 e2 fin recv run recv run recv run recv run e1",
        "recv run finerr e1 recv run",
        "recv run cancelq recv run",
        "recv cancelrecv run e1 recv run",
        "e1 recv run recv run e1 run fin recv run",
        "recv run cancelrecv run e1 recv run",
        "recv run e1 fin cancelrecv run recv run recv run",
        "e1 recv step cancelrecv run recv run",            # a receive served from the buffer, cancelled one iteration later
        "e2 recv step cancelrecv step recv step recv run",
        "recv step e1 step cancelrecv run recv run",
    ]


def generate(rng, tier):
    n_ex = 4 if tier == "quick" else 6
    for L in range(1, n_ex + 1):
        for c in itertools.product(ALPHABET, repeat=L):
            yield " ".join(c)
    n = 3000 if tier == "quick" else 120000
    weights = [4, 2, 1, 1, 1, 5, 3, 4, 3]
    for _ in range(n):
        k = rng.randint(5, 40)
        yield " ".join(rng.choices(ALPHABET, weights=weights, k=k))


def run_real(case: str) -> str:
    from haiway import AsyncQueue

    loop = vloop.new_loop()
    try:
        q = AsyncQueue(loop=loop)
        got: list[str] = []
        state = {"task": None, "flag": False}

        import zlib

        rot = zlib.crc32(case.encode()) % 10
        elems: dict[int, int] = {}      # id(object) -> element number (objects with an identity of their own)
        shared: dict[object, list[int]] = {}   # value -> element numbers in enqueue order (None, 0, "", False, ())
        keep: list = []

        def element(n: int):
            """elements are arbitrary objects: plain objects, exception instances (the queue must deliver, not raise,
            them), and falsy / singleton values such as None, 0, "", False, () (must not be mistaken for 'nothing')"""
            kind = (n + rot) % 10   # rotated per case: every kind takes every position across the cases
            if kind in (4, 5, 6, 7, 8):
                x = [None, 0, "", False, ()][kind - 4]
                shared.setdefault((type(x), x), []).append(n)
                return x
            x = [_Box(n), Err(n), StopAsyncIteration(n), asyncio.CancelledError(n), None, None, None, None, None, _Box(n)][kind]
            keep.append(x)
            elems[id(x)] = n
            return x

        def identify(x) -> str:
            if id(x) in elems:
                return f"elem:{elems[id(x)]}"
            try:
                ids = shared.get((type(x), x))
            except TypeError:
                ids = None
            if ids:
                return f"elem:{ids.pop(0)}"   # FIFO among equal values (a correct queue keeps their order)
            return "elem:?"

        async def recv(cell):
            try:
                x = await q.__anext__()
                got.append(identify(x))
            except BaseException as exc:  # noqa: BLE001
                if id(exc) in elems:
                    got.append(f"raised-element:{elems[id(exc)]}")
                else:
                    _classify(exc, cell)

        def _classify(exc, cell):
            try:
                raise exc
            except StopAsyncIteration:
                got.append("stop")
            except Err as e:
                # the finish reason is the object that was given, not a reconstruction of it
                got.append("err" if e is state.get("given") else "err-copy")
            except asyncio.CancelledError:
                got.append("cancelled" if cell["flag"] else "qcancelled")
            except BaseException as exc2:  # noqa: BLE001
                got.append(f"other:{type(exc2).__name__}")

        def start():
            t = state["task"]
            if t is None or t.done():
                cell = {"flag": False}
                state["cell"] = cell
                state["task"] = loop.create_task(recv(cell))

        nxt = 0
        acc = ""
        for tok in case.split():
            if tok in ("e1", "e2"):
                n = 1 if tok == "e1" else 2
                vals = [element(k) for k in range(nxt, nxt + n)]
                nxt += n
                try:
                    q.enqueue(*vals)
                    acc += "1"
                except RuntimeError:
                    acc += "0"
            elif tok == "fin":
                q.finish()
            elif tok == "finerr":
                # the given exception is an arbitrary object: in half of the cases an instance that is *falsy* (a class
                # defining `__len__` – collection-like errors, exception groups of a project's own) – it is the finish reason all the same
                given = FalsyErr("e", code=7) if rot % 2 else Err("e", code=7)
                state.setdefault("given", given)     # the first finish decides the reason
                q.finish(given)
            elif tok == "cancelq":
                q.cancel()
            elif tok == "recv":
                start()
            elif tok == "cancelrecv":
                t = state["task"]
                if t is not None and not t.done():
                    state["cell"]["flag"] = True
                    t.cancel()
            elif tok == "run":
                loop.quiesce()
            elif tok == "step":
                # exactly one iteration of the event loop: a receive that was started takes its first step (and completes or
                # suspends), a consumer that was woken resumes – a cancellation can land between any two iterations
                loop.call_soon(loop.stop)
                loop.run_forever()
            else:
                return "bad-op"
        loop.quiesce()
        t = state["task"]
        blocked = t is not None and not t.done()
        pre = list(got)
        q.finish()
        loop.quiesce()
        for _ in range(nxt + 3):
            start()
            loop.quiesce()
        return f"{' '.join(pre)}|{'blocked' if blocked else 'free'}|{acc}|{' '.join(got[len(pre):])}"
    finally:
        vloop.close_loop(loop)


REASONS = {"fin": "stop", "finerr": "err", "cancelq": "qcancelled"}


def monitor(case: str, out: str) -> list[str]:
    """The property, stated on the implementation's own observations (independent of the Lean model)."""
    if out.startswith("HANG") or out.count("|") != 3:
        return ["queue.no-observation:" + out[:30]]
    pre, _blocked, acc, drain = out.split("|")
    toks = case.split()
    # which enqueues must be accepted, and the elements they carry
    finished = False
    reason = "stop"
    first = True
    nxt = 0
    accepted: list[int] = []
    fails: list[str] = []
    k = 0
    for tok in toks:
        if tok in ("e1", "e2"):
            n = 1 if tok == "e1" else 2
            ok = k < len(acc) and acc[k] == "1"
            k += 1
            if finished and ok:
                fails.append("queue.enqueue-accepted-after-finish")
            if not finished and not ok:
                fails.append("queue.enqueue-refused-before-finish")
            if ok:
                accepted += list(range(nxt, nxt + n))
            nxt += n
        elif tok in REASONS and first:
            finished, first, reason = True, False, REASONS[tok]
    obs = pre.split() + drain.split()
    if any(o == "elem:?" for o in obs):
        fails.append("queue.unexpected-element")
    elems = [int(o[5:]) for o in obs if o.startswith("elem:") and o != "elem:?"]
    if elems != accepted:
        if len(set(elems)) != len(elems):
            fails.append("queue.duplicate")
        elif [e for e in elems if e in accepted] == elems and sorted(elems) != elems:
            fails.append("queue.order")
        elif set(accepted) - set(elems):
            fails.append("queue.lost-element")
        else:
            fails.append("queue.unexpected-element")
    ends = [i for i, o in enumerate(obs) if o in ("stop", "err", "qcancelled")]
    if not ends:
        fails.append("queue.receive-hangs-after-finish")
    else:
        tail = obs[ends[0]:]
        if any(o.startswith("elem:") for o in tail):
            fails.append("queue.element-after-finish-reason")
        if any(o not in (reason, "cancelled") for o in tail):
            fails.append("queue.wrong-finish-reason")
        if len([o for o in drain.split()]) and drain.split()[-1] != reason:
            fails.append("queue.wrong-finish-reason")
    if any(o.startswith("other:") for o in obs):
        fails.append("queue.unexpected-exception")
    if any(o.startswith("raised-element:") for o in obs):
        fails.append("queue.element-raised-instead-of-delivered")
    return sorted(set(fails))


def nontrivial(case: str, out: str) -> bool:
    toks = case.split()
    pending = False
    hit = False
    for i, t in enumerate(toks):
        if t == "recv" and "run" in toks[i + 1:i + 2]:
            pending = True
        elif pending and t in ("e1", "e2", "fin", "finerr", "cancelq", "cancelrecv"):
            hit = True
    return hit and "elem:" in out


def classify(case: str, out: str):
    toks = case.split()
    yield f"len:{min(len(toks) // 5 * 5, 40)}"
    for t in set(toks):
        yield f"op:{t}"
    if "cancelled" in out.split("|")[0].split():
        yield "obs:consumer-cancelled"
    if "|blocked|" in out:
        yield "obs:blocked-at-end"


def mutate(rng, case: str) -> str:
    toks = case.split()
    for _ in range(rng.randint(1, 3)):
        r = rng.random()
        if r < 0.4 or not toks:
            toks.insert(rng.randint(0, len(toks)), rng.choice(ALPHABET))
        elif r < 0.7:
            toks[rng.randrange(len(toks))] = rng.choice(ALPHABET)
        else:
            del toks[rng.randrange(len(toks))]
    return " ".join(toks) or "run"


def shrink(case: str):
    return core.default_shrink(case)
