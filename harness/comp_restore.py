"""C02 – leaving a scope restores the surrounding context on every exit path: scope programs on the real haiway; for
every block the observed fault assignment is given to `hwmodel proc` (the cleanup-procedure IR), whose prediction (context
restored, which exception reaches the caller) must match; the monitor compares the context fingerprints taken right
before the block and right after leaving it (state lookups, scope label of a captured log line, task group) and checks
that the body's exception reaches the caller as the same object when no cleanup failed."""
from __future__ import annotations

import json

from harness import comp_disposables as cd
from harness import scopeprog as sp

PID = "C02"
LEAN_COMPONENT = "proc"
PROPS_MODULE = "Haiway.Props.C02"
ANCHORS = ["src/haiway/context/access.py", "src/haiway/context/state.py", "src/haiway/context/metrics.py",
           "src/haiway/context/tasks.py", "src/haiway/context/disposables.py"]
RULE = ("case = random multi-task scope program (scopeprog: nested async/sync scopes and ctx.updated blocks, disposables "
        "failing or suspending in __aenter__/__aexit__, bodies returning / raising Exception / BaseException / suspended and "
        "cancelled, spawned tasks failing, external cancellations at every pending gate) + the exhaustive single-block fault "
        "family; every block of every program is compared; non-trivial = a block left abnormally (exception or cancellation "
        "reaches the caller, or its enter fails); distinct = by case text")
TRUSTED = ["Python exception semantics of try/finally/except and `async with` as encoded in Haiway/Model/Proc.lean",
           "ContextVar token semantics", "harness/scopeprog.py fingerprints (state via ctx.state, scope label via a captured "
           "log line, task group via a peek at the private context variable when present)"]
ASSUMPTIONS = ["faults are read off the implementation's own log (replay); theorems cover every fault assignment",
               "metrics bookkeeping steps do not fail (their assertions are C09)"]

run_real = sp.run_real
shrink = sp.shrink
mutate = sp.mutate


def extra_obligations():
    """the enter/exit IR regenerated from /repo's current access.py, restoration obligations re-checked by Lean"""
    from harness import core, extract_ir

    r = extract_ir.check(core.REPO, core.LEAN)
    if r["status"] == "unrecognised":
        return [{"name": "Haiway.Generated.*", "status": "skipped",
                 "note": "extractor does not recognise the shape of ScopeContext enter/exit: " + r["detail"]}] + _contexts()
    return [{"name": f"Haiway.Generated.{n}", "status": "broken" if n in r["failed"] or (r["status"] == "broken" and r["failed"] == ["<elaboration>"]) else "ok",
             "detail": r["detail"], "note": "regenerated from access.py"} for n in extract_ir.OBLIGATIONS] + _contexts()


def _contexts():
    """what the IR's atoms assume about StateContext / MetricsContext / TaskGroupContext enter and exit (set with token,
    reset of that token), re-proved about the MiniPy terms regenerated from state.py / metrics.py / tasks.py"""
    from harness import core, regen

    return regen.check("contexts", core.REPO, core.LEAN)


# one prepared update / scope object used by two tasks at overlapping times (handed over through a closure): the second user is
# refused, or – where a second use is allowed – both leave the context as they found it, in whatever order they leave
SHARED_DIRECTED = [
    json.dumps({"prog": [["block", "async", 9, [[0, 9000]], [], [
        ["block", kind, 1, [[0, 5]], [], [["spawn", 1, how, [["probe", 1], ["reenter", 1, 2], ["probe", 2]]], ["await", 1]]],
        ["probe", 3], ["await", 3]]]], "sched": sched}, separators=(",", ":"))
    for kind in ("upd", "sync") for how in ("create", "spawn") for sched in ([0], [1, 0], [0, 0])
]


# the body ends with a StopIteration: it reaches the caller as that object like any other exception
STOPITER_DIRECTED = [
    json.dumps({"prog": [["block", "async", 9, [[0, 9000]], [], [["block", kind, 1, [[0, 5]], disps, [["probe", 1], ["raise", "stopiter"]]],
                                                                  ["probe", 2]]]], "sched": []}, separators=(",", ":"))
    for kind, disps in (("async", []), ("sync", []), ("upd", []), ("async", [[1, "ok", "ok", [[1, 7]]]]))
]


def corpus():
    return BADLOG_DIRECTED + SHARED_DIRECTED + STOPITER_DIRECTED + list(cd.single_block_family(1))


def generate(rng, tier):
    yield from cd.single_block_family(2 if tier == "quick" else 3)
    n = 2500 if tier == "quick" else 60000
    for _ in range(n):
        case = sp.gen_case(rng, depth=rng.choice([2, 3, 3]), p_disp=0.6, p_raise=0.12, p_fault=0.45, p_cancel=0.25)
        if rng.random() < 0.12:
            case = with_bad_loggers(rng, case)
        yield case


def with_bad_loggers(rng, case: str) -> str:
    """give one or two scope blocks (async / sync) a logger that raises on the scope's "...finished" line"""
    spec = json.loads(case)
    blocks, _ = sp.index_program(spec["prog"])
    scopes = sorted(b for b, st in blocks.items() if st[1] in ("async", "sync"))
    if not scopes:
        return case
    spec["badlog"] = sorted(rng.sample(scopes, min(len(scopes), rng.choice([1, 1, 2]))))
    return json.dumps(spec, separators=(",", ":"))


BADLOG_DIRECTED = [
    '{"prog":[["block","sync",1,[[0,5]],[],[["probe",1]]],["probe",2]],"sched":[],"badlog":[1]}',
    '{"prog":[["block","async",1,[[0,5]],[],[["probe",1]]],["probe",2]],"sched":[],"badlog":[1]}',
    '{"prog":[["block","async",2,[[0,9000]],[],[["try",[["block","sync",1,[[0,7]],[],[["raise","exc"]]]]],["probe",2]]]],"sched":[],"badlog":[1]}',
    '{"prog":[["block","async",2,[[0,9000]],[],[["try",[["block","async",1,[[0,7]],[[1,"ok","raise",[]]],[["probe",1]]]]],["probe",2]]]],"sched":[],"badlog":[1]}',
    '{"prog":[["block","async",2,[[0,9000]],[],[["try",[["block","async",1,[[0,7]],[],[["spawn",1,"spawn",[["await",1]]],["raise","exc"]]]]],["probe",2]]]],"sched":[],"badlog":[1,2]}'
]


def block_facts(case: str, out: str):
    prog = json.loads(case)["prog"]
    blocks, _ = sp.index_program(prog)
    disp_block = {d[0]: b for b, st in blocks.items() for d in st[4]}
    evs = sp.events(out)
    per: dict[int, dict] = {}
    cancels: dict[str, list[int]] = {}
    failures: list[int] = []
    disturb: list[int] = []  # any cancellation request or task failure anywhere (group aborts reach other tasks)
    disturb_by: list[tuple[int, str, str]] = []   # (index, the task it concerns / comes from, kind)
    for idx, e in enumerate(evs):
        if e[0] == "X":
            if e[1] == "cancel":
                cancels.setdefault(e[2], []).append(idx)
                disturb.append(idx)
                disturb_by.append((idx, e[2], "cancel"))
            continue
        k = e[1]
        if k == "cancelself":
            cancels.setdefault(e[0], []).append(idx)
            disturb.append(idx)
            disturb_by.append((idx, e[0], "cancel"))
        elif k == "end" and e[2] not in ("ok", "Cancelled"):
            failures.append(idx)
            disturb.append(idx)
            disturb_by.append((idx, e[0], "failure"))
        elif k == "raise" or (k == "bodyend" and e[3] != "ok"):
            disturb.append(idx)  # a failing body makes TaskGroup cancel the members
            disturb_by.append((idx, e[0], "raise"))
        b = None
        if k in ("pre", "post", "enter", "bodyend", "left", "logfail"):
            b = int(e[2])
        elif k in ("dened", "dexed", "dex"):
            b = disp_block[int(e[2])]
        if b is None:
            continue
        f = per.setdefault(b, {"b": b, "t": e[0], "kind": blocks[b][1], "dened": [], "dexed": [], "ndex": 0})
        if k == "pre":
            f["pre"], f["pre_idx"] = e[3], idx
        elif k == "post":
            f["post"] = e[3]
        elif k == "enter":
            f["enter"] = idx
        elif k == "bodyend":
            f["bodyend"] = e[3]
            f["bodyend_idx"] = idx
            f["pending"] = len(e) > 4 and e[4] == "1"
        elif k == "left":
            f["left"], f["same"], f["left_idx"] = e[3], e[4], idx
            f["own"] = e[7] if len(e) > 7 else "-"
        elif k == "logfail":
            f["logfail"] = True
        elif k == "dened":
            f["dened"].append(e[3])
        elif k == "dexed":
            f["dexed"].append(e[3])
        elif k == "dex":
            f["ndex"] += 1
    res = []
    for b in sorted(per):
        f = per[b]
        if "left" not in f or "pre" not in f or "post" not in f:
            continue
        t = f["t"]
        f["cancel_before_left"] = any(i < f["left_idx"] for i in cancels.get(t, []))
        f["cancel_inside"] = any(f["pre_idx"] < i < f["left_idx"] for i in cancels.get(t, []))
        f["failure_before_left"] = any(i < f["left_idx"] for i in failures)
        f["disturbed"] = any(i < f["left_idx"] for i in disturb)
        f["disturbed_during_exit"] = f.get("pending", False) or any(
            f.get("bodyend_idx", f["left_idx"]) < i < f["left_idx"] for i in disturb)
        # what can legitimately put a *new* cancellation into this task while (or right before) its exit runs: a request still
        # pending when the body ended, a request arriving during the exit, or anything another task did (a failing task / body
        # makes a task group cancel members or its parent, a loop turn later).  NOT: this task's own raising, and not a request to
        # this task that was already delivered before the body ended (delivered = consumed: the body could not have gone on otherwise)
        be = f.get("bodyend_idx", f["left_idx"])
        f["new_cancel_possible"] = f.get("pending", False) or any(
            i < f["left_idx"] and (who != t or (kind == "cancel" and i > be)) for i, who, kind in disturb_by)
        res.append(f)
    return res


def fault(tokens, user):
    bad = [x for x in tokens if x != "ok"]
    if not bad:
        return "-"
    return "c" if all(x == "Cancelled" for x in bad) else user


def spec_of(f) -> str:
    kind = {"async": "A", "sync": "S", "upd": "U"}[f["kind"]]
    ran = "enter" in f
    body = "-"
    if ran:
        body = {"ok": "-", "Cancelled": "c"}.get(f.get("bodyend", "ok"), "u0")
    mx = "u3" if f.get("logfail") else "-"      # the metrics exit raised (after its reset): a failing logger
    if kind != "A":
        return f"{kind} - - - {body} {mx}"
    de = fault(f["dened"], "u1")
    if not ran:  # what leaves Disposables.__aenter__ (incl. its rollback) is read off the caller's side
        de = "c" if f["left"] == "Cancelled" else "u1"
    dx = fault(f["dexed"], "u2")
    if ran and dx == "-" and f["dened"] and f["ndex"] == 0 and f["left"] == "Cancelled":
        dx = "c"  # cleanup await cancelled before any __aexit__ started (known finding of C08)
    gx = "?" if f["disturbed"] else "-"
    return f"{kind} {de} {dx} {gx} {body} {mx}"


def observed_exc(f) -> str:
    if f["left"] == "ok":
        return "-"
    if f["left"] == "Cancelled":
        return "c"
    if f["same"] == "1":
        return "u0"
    if f.get("own", "-").startswith("log"):
        return "u3"
    return "u2" if "enter" in f else "u1"


def model_input(case: str, out: str) -> str:
    return ";".join(spec_of(f) for f in block_facts(case, out))


def agree(case: str, m: str, out: str) -> bool:
    fs = block_facts(case, out)
    preds = [p for p in m.split(";") if p] if m else []
    if len(preds) != len(fs):
        return False
    for p, f in zip(preds, fs):
        parts = dict(x.split("=", 1) for x in p.split())
        if parts.get("restored") != "1":
            return False  # the model itself says "not restored": never expected
        if f["pre"] != f["post"]:
            return False
        if observed_exc(f) not in parts.get("exc", "").split("/"):
            return False
    return True


def reentry_failures(out: str) -> set[str]:
    """a second `with` on a scope / update object that has been left: refused or not, the surrounding context afterwards
    is the context before"""
    fails = set()
    pre: dict[tuple[str, str], str] = {}
    for e in sp.events(out):
        if len(e) >= 4 and e[1] == "repre":
            pre[(e[0], e[2])] = e[3]
        elif len(e) >= 4 and e[1] == "repost" and (e[0], e[2]) in pre:
            a, b = pre.pop((e[0], e[2])).split("/"), e[3].split("/")
            which = [n for n, x, y in zip(("state", "metrics-scope", "task-group"), a, b) if x != y]
            if which:
                fails.add("context.not-restored-after-second-use:" + "+".join(which))
    return fails


def monitor(case: str, out: str) -> list[str]:
    fails = reentry_failures(out)
    for f in block_facts(case, out):
        if f["pre"] != f["post"]:
            a, b = f["pre"].split("/"), f["post"].split("/")
            which = [n for n, x, y in zip(("state", "metrics-scope", "task-group"), a, b) if x != y]
            fails.add("context.not-restored:" + "+".join(which))
        if f.get("bodyend", "ok") != "ok" and f["left"] == "ok":
            # whatever else happened: a body that ended with an exception never turns into a normal return
            # (a disposable's `__aexit__` returning True has no say in a scope)
            fails.add("context.body-exception-swallowed")
        cleanup_ok = all(x == "ok" for x in f["dened"]) and all(x == "ok" for x in f["dexed"]) and not f.get("logfail")
        if cleanup_ok and "bodyend" in f and not f["disturbed"]:
            if f["left"] != f["bodyend"] or (f["left"] != "ok" and f["same"] != "1"):
                fails.add("context.body-exception-replaced")
        # the body left with an exception (its own, or a cancellation), no disposable cleanup failed and nothing
        # happened while the exit was running (no cancellation request pending or arriving, no task failing, no
        # body failing elsewhere): the caller must receive that very object - failures of spawned tasks that
        # happened *before* are not the scope's to report
        if cleanup_ok and f.get("bodyend", "ok") != "ok" and f["same"] != "1":
            # legitimate replacement: a (new) cancellation delivered while the exit runs - requested during the exit,
            # pending at its start, or sent by a task group aborting because some task/body failed earlier (its
            # done-callback runs a loop turn later, so it cannot be ordered exactly against this block's events)
            legit = f["left"] == "Cancelled" and f["new_cancel_possible"]
            if not legit:
                fails.add("context.body-exception-replaced")
    return sorted(fails)


def nontrivial(case: str, out: str) -> bool:
    return any(f["left"] != "ok" for f in block_facts(case, out))


def classify(case: str, out: str):
    for f in block_facts(case, out):
        yield "kind:" + f["kind"]
        yield "left:" + f["left"]
        s = spec_of(f).split()
        if s[0] == "A":
            yield f"faults:de={s[1]},dx={s[2]},gx={s[3]}"
        yield "body:" + s[4]
