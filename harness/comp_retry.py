"""C14 – retry: real `haiway.retry` (sync and async wrapper) vs `hwmodel retry`.

case   = `<variant> <limit|-> <catching> <delay> <outcome kind>*`   (see lean/Driver/Retry.lean)
output = `calls=<n> final=<kind>@<index of the call that produced that very object> gaps=<pause per gap> fn=<attempt:exc>`
         followed (implementation only, stripped by `canon`) by ` args=<bit per call>`.
"""
from __future__ import annotations

import asyncio
import itertools
import logging

from harness import core, vloop

PID = "C14"
LEAN_COMPONENT = "retry"
PROPS_MODULE = "Haiway.Props.C14"
ANCHORS = ["src/haiway/helpers/retries.py"]
RULE = ("case = (sync|async|async with suspending function) x limit x catching (class/tuple/set/default, incl. sets listing "
        "CancelledError/BaseException) x delay (None/int/float/bool/function a*attempt+b*exc_index+c) x sequence of outcome kinds "
        "{ok, caught, subclass of caught, uncaught, CancelledError, other BaseException (+ CancelledError subclass, external "
        "cancellation)}; later calls succeed. quick: ~3000 sampled (limits 1-4, length <= limit+2). thorough: every sequence "
        "of length <= limit+2 over the six kinds for limits 1-4; crossed with all 6x5x2 configurations for limits 1-3, with a "
        "rotating 4 of the 60 configurations per sequence for limit 4, + 120000 random. "
        "non-trivial = at least one retry was made (>= 2 invocations); distinct = by case text")
TRUSTED = ["harness/comp_retry.py run_real + monitor (virtual clock, exception identity by `is`)",
           "Python `match` class patterns / isinstance as mirrored by Haiway/Model/Retry.lean"]
ASSUMPTIONS = ["the delay function itself does not raise and returns a non-negative number",
               "the caller is not cancelled while the wrapper pauses between attempts",
               "pauses are observed as virtual time elapsed between the end of a failed call and the start of the next"]


class E1(Exception):
    pass


class E1s(E1):
    """an exception that cannot be rendered (`__str__` needs fields a malformed response lacks): whether and how the retry is
    logged must not decide whether it happens – the logging machinery swallows formatting errors, the retry loop must not format"""

    def __str__(self) -> str:
        raise KeyError("detail")


class E2(Exception):
    pass


class BE(BaseException):
    pass


class Cs(asyncio.CancelledError):
    pass


class CE(asyncio.CancelledError, E1):
    """a cancellation that is *also* an instance of a caught Exception class (multiple inheritance): never retried"""


CLASSES = {"CE": CE, "Ex": Exception, "Cn": asyncio.CancelledError, "Bx": BaseException, "E1": E1, "E1s": E1s, "E2": E2,
           "BE": BE, "Cs": Cs, "SI": StopIteration}
NAMES = {v: k for k, v in CLASSES.items()}
KIND_CLS = {"ce": CE, "e1": E1, "e1s": E1s, "e2": E2, "cn": asyncio.CancelledError, "cs": Cs, "be": BE, "xc": asyncio.CancelledError,
            "si": StopIteration}      # sync variants only: a coroutine cannot raise StopIteration
SIX = ["ok", "e1", "e1s", "e2", "cn", "be"]
ALL_KINDS = SIX + ["cs", "xc", "ce", "si", "ov"]   # "ov": the call SUCCEEDS and its value is an exception instance
# of a caught class (exceptions used as data: a success is returned, never retried); the model sees it as "ok"
CATCH_EX = ["c:E1", "t:E1,E2", "s:E1", "s:E1s,E2", "t:Ex,Cn,Bx", "d"]
DELAY_EX = ["n", "i2", "f3", "b1", "fn:2,1,0"]
CATCH_RND = CATCH_EX + ["c:Ex", "c:E1s", "t:E2", "s:E1,E2,BE", "t:E1s,Cs", "c:Cn", "s:Bx", "t:E1,E1s"]
DELAY_RND = DELAY_EX + ["i0", "i1", "i7", "f0", "f1", "f5", "b0", "fn:0,0,4", "fn:1,0,0", "fn:0,3,1", "fn:3,2,1"]

_quiet = False


def _silence():
    logging.raiseExceptions = False    # errors while formatting a record are swallowed silently (no traceback on stderr)
    global _quiet
    if not _quiet:
        logging.disable(logging.CRITICAL)  # retry logs every attempt through the root logger
        _quiet = True


def parse(case: str):
    toks = case.split()
    if len(toks) < 4:
        return None
    variant, lim, cat, dl = toks[:4]
    kinds = toks[4:]
    if variant not in ("s", "a", "A", "sp", "ap", "Ap", "aw") or any(k not in ALL_KINDS for k in kinds):
        return None
    if "si" in kinds and not variant.startswith("s"):
        return None
    bare = lim == "-"
    try:
        limit = 1 if bare else int(lim)
        if limit < 0:
            return None
        if bare or cat == "d":
            form, classes = "d", [Exception]
        else:
            form, body = cat.split(":")
            if form not in ("c", "t", "s"):
                return None
            classes = [CLASSES[n] for n in body.split(",")]
            if form == "c" and len(classes) != 1:
                return None
        if bare or dl == "n":
            delay = ("none",)
        elif dl in ("b0", "b1"):
            delay = ("bool", int(dl[1]))
        elif dl.startswith("fn:"):
            a, b, c = (int(x) for x in dl[3:].split(","))
            delay = ("fn", a, b, c)
        elif dl[0] in "if":
            delay = ("int" if dl[0] == "i" else "float", int(dl[1:]))
        else:
            return None
    except (ValueError, KeyError):
        return None
    return variant, bare, limit, form, classes, delay, kinds


def model_input(case: str, out: str) -> str:
    """the model has no notion of *what* a successful call returned: `ov` is a success"""
    toks = case.split()
    return " ".join(toks[:4] + ["ok" if t == "ov" else t for t in toks[4:]])


SENT_A = object()
SENT_K = object()


def is_multi(case: str) -> bool:
    return case.startswith(("M2 ", "R2 "))


def split_multi(case: str) -> list[str]:
    """`M2|R2 <limit> <catching> n <kinds of call 1> / <kinds of call 2>` -> the two single-call cases (variant A)"""
    head, _, rest = case.partition(" ")
    toks = rest.split()
    cfg, kinds = toks[:3], " ".join(toks[3:])
    return [" ".join(["A", *cfg, *part.split()]) for part in kinds.split("/")]


def run_multi(case: str) -> str:
    """two calls through ONE wrapper whose executions overlap: concurrently (M2: two tasks, the function suspends), or
    nested (R2: the first invocation of call 1 awaits the wrapper again – call 2 – before it ends).  Each call has its own
    outcome sequence and must behave as if it were alone."""
    from haiway import retry

    _silence()
    subs = [parse(c) for c in split_multi(case)]
    if len(subs) != 2 or any(x is None for x in subs) or subs[0][5] != ("none",):
        return "bad-case"
    _v, bare, limit, form, classes, _delay, _k = subs[0]
    kinds = [x[6] for x in subs]
    nested = case.startswith("R2 ")
    kwargs = {"limit": limit}
    if form == "c":
        kwargs["catching"] = classes[0]
    elif form == "t":
        kwargs["catching"] = tuple(classes)
    elif form == "s":
        kwargs["catching"] = set(classes)
    loop = vloop.new_loop()
    try:
        counts = [0, 0]
        raised: list[dict[int, BaseException]] = [{}, {}]

        async def fn(call: int):
            i = counts[call]
            counts[call] += 1
            kind = kinds[call][i] if i < len(kinds[call]) else "ok"
            if nested and call == 0 and i == 0:
                try:
                    results[1] = await one(1)
                except BaseException:  # noqa: BLE001
                    pass
            else:
                await asyncio.sleep(1)
            if kind == "ok":
                return ("val", i)
            if kind == "xc":
                kind = "cn"
            exc = KIND_CLS[kind](f"call {call}.{i}")
            raised[call][i] = exc
            raise exc

        try:
            wrapped = retry(**kwargs)(fn)
        except AssertionError:
            return "assert-limit"
        results: list = [None, None]

        async def one(call: int) -> str:
            try:
                res = await wrapped(call)
                return f"ok@{res[1]}" if isinstance(res, tuple) and len(res) == 2 and res[0] == "val" else "ok@?"
            except BaseException as exc:  # noqa: BLE001
                for i, e in raised[call].items():
                    if e is exc:
                        return f"{NAMES.get(type(exc), '?')}@{i}"
                return f"foreign:{type(exc).__name__}"

        async def main():
            if nested:
                results[0] = await one(0)
            else:
                r = await asyncio.gather(one(0), one(1))
                results[0], results[1] = r

        task = loop.create_task(main())
        loop.quiesce(advance=True)
        if not task.done():
            return "HANG"
        return " / ".join(f"calls={counts[c]} final={results[c]} gaps={','.join(['0'] * max(counts[c] - 1, 0))} fn=" for c in (0, 1))
    finally:
        vloop.close_loop(loop)


def run_real(case: str) -> str:
    from haiway import retry

    if is_multi(case):
        return run_multi(case)
    _silence()
    p = parse(case)
    if p is None:
        return "bad-case"
    variant, bare, limit, form, classes, delay, kinds = p
    partial_form = variant.endswith("p")
    wraps_sync = variant == "aw"
    variant = variant[0]
    raised: dict[int, BaseException] = {}
    starts: list[float] = []
    ends: list[float] = []
    argbits: list[str] = []
    fnlog: list[str] = []
    st = {"hung": False}
    clock = vloop.CLOCK
    clock.now = 1000.0  # integer-valued start (see comp_throttle.run_real)

    def idx_of(exc) -> int | None:
        for i, e in raised.items():
            if e is exc:
                return i
        return None

    returned: dict[int, BaseException] = {}

    def show_ok(res) -> str:
        if isinstance(res, tuple) and len(res) == 2 and res[0] == "val":
            return f"ok@{res[1]}"
        for i, v in returned.items():
            if v is res:
                return f"ok@{i}"
        return "ok@?"

    def make_delay(attempt, exc):
        i = idx_of(exc)
        fnlog.append(f"{attempt}:{'?' if i is None else i}")
        return float(delay[1] * attempt + delay[2] * (99 if i is None else i) + delay[3])

    kwargs = {}
    if not bare:
        kwargs["limit"] = limit
        if form == "c":
            kwargs["catching"] = classes[0]
        elif form == "t":
            kwargs["catching"] = tuple(classes)
        elif form == "s":
            kwargs["catching"] = set(classes)
        if delay[0] == "none":
            kwargs["delay"] = None
        elif delay[0] == "int":
            kwargs["delay"] = int(delay[1])
        elif delay[0] == "float":
            kwargs["delay"] = float(delay[1])
        elif delay[0] == "bool":
            kwargs["delay"] = bool(delay[1])
        else:
            kwargs["delay"] = make_delay

    def begin(args, kw) -> tuple[int, str]:
        i = len(starts)
        starts.append(clock.now)
        ok = len(args) == 2 and args[0] is SENT_A and args[1] == 7 and set(kw) == {"key"} and kw["key"] is SENT_K
        argbits.append("1" if ok else "0")
        return i, (kinds[i] if i < len(kinds) else "ok")

    def finish(i: int, kind: str):
        ends.append(clock.now)
        if kind == "ok":
            return ("val", i)
        if kind == "ov":
            returned[i] = E1(f"value of call {i}")
            return returned[i]
        exc = KIND_CLS[kind](f"call {i}")
        raised[i] = exc
        raise exc

    final = "none"
    loop = None
    vloop.SLEEPS.clear()
    try:
        if variant == "s":
            def fn(*args, **kw):
                i, kind = begin(args, kw)
                return finish(i, kind)

            if partial_form:
                import functools

                fn = functools.partial(fn)     # a callable without __name__ / __qualname__
            try:
                wrapped = retry(fn) if bare else retry(**kwargs)(fn)
            except AssertionError:
                return "assert-limit"
            try:
                res = wrapped(SENT_A, 7, key=SENT_K)
                final = show_ok(res)
            except BaseException as exc:  # noqa: BLE001
                i = idx_of(exc)
                final = f"foreign:{type(exc).__name__}" if i is None else f"{NAMES.get(type(exc), '?')}@{i}"
        else:
            loop = vloop.new_loop()

            async def fn(*args, **kw):
                i, kind = begin(args, kw)
                if variant == "A":
                    await asyncio.sleep(1)
                if kind == "xc":
                    st["hung"] = True
                    try:
                        await loop.create_future()
                    except asyncio.CancelledError as exc:
                        ends.append(clock.now)
                        raised[i] = exc
                        raise
                return finish(i, kind)

            if partial_form:
                import functools

                fn = functools.partial(fn)
            if wraps_sync:
                import functools

                def blocking(*a, **k):    # the synchronous original an adapter was written for
                    raise AssertionError("never called")

                fn = functools.wraps(blocking)(fn)     # an async adapter whose `__wrapped__` chain ends in a sync function
            try:
                wrapped = retry(fn) if bare else retry(**kwargs)(fn)
            except AssertionError:
                return "assert-limit"
            box: list[str] = []

            async def caller():
                try:
                    res = await wrapped(SENT_A, 7, key=SENT_K)
                    box.append(show_ok(res))
                except BaseException as exc:  # noqa: BLE001
                    i = idx_of(exc)
                    box.append(f"foreign:{type(exc).__name__}" if i is None else f"{NAMES.get(type(exc), '?')}@{i}")

            task = loop.create_task(caller())
            for _ in range(len(kinds) + 3):
                loop.quiesce(advance=True)
                if task.done():
                    break
                if st["hung"]:
                    st["hung"] = False
                    task.cancel()
                else:
                    break
            if not task.done() or not box:
                return "HANG"
            final = box[0]
    finally:
        if loop is not None:
            vloop.close_loop(loop)
    gaps = [starts[j + 1] - ends[j] for j in range(len(starts) - 1)] if len(ends) >= len(starts) - 1 else ["?"]
    g = ",".join(str(int(x)) if isinstance(x, float) and x == int(x) else str(x) for x in gaps)
    return f"calls={len(starts)} final={final} gaps={g} fn={','.join(fnlog)} args={''.join(argbits)}"


def canon(case: str, out: str) -> str:
    return " / ".join(part.split(" args=")[0].strip() for part in out.split(" / "))


# ----------------------------------------------------------------------------------------------
# the property, stated on the implementation's own observation

def _retryable(kind: str, classes) -> bool:
    if kind == "ok":
        return False
    cls = KIND_CLS[kind]
    if issubclass(cls, asyncio.CancelledError) or not issubclass(cls, Exception):
        return False  # cancellation and non-Exception errors are never retried
    return any(issubclass(cls, c) for c in classes)


def monitor(case: str, out: str) -> list[str]:
    if is_multi(case):
        parts = out.split(" / ")
        subs = split_multi(case)
        if len(parts) != len(subs):
            return ["retry.no-observation:" + out[:20]]
        fails = set()
        for sub, part in zip(subs, parts):
            fails |= {f.replace("retry.", "retry.overlapping-calls.") for f in monitor(sub, part)}
        return sorted(fails)
    p = parse(case)
    if p is None:
        return []
    variant, bare, limit, form, classes, delay, kinds = p
    kinds = ["ok" if k == "ov" else k for k in kinds]     # a success whose value happens to be an exception instance
    variant = variant[0]
    if limit == 0:
        return []  # outside the property (limits >= 1); the assertion is compared with the model only
    if not out.startswith("calls="):
        return ["retry.no-observation:" + out[:20]]
    f = dict(t.split("=", 1) for t in out.split(" "))
    calls = int(f["calls"])
    final = f["final"]
    kind_at = lambda i: kinds[i] if i < len(kinds) else "ok"  # noqa: E731
    # expected stopping index: first success / non-retryable failure / limit
    n = 0
    while n < limit and _retryable(kind_at(n), classes):
        n += 1
    if final.startswith("foreign:"):
        if delay[0] == "bool":
            return []  # a bool delay is outside the property's configurations (None / int / float / function)
        last = kind_at(calls - 1) if calls >= 1 else "ok"
        if last != "ok" and final == f"foreign:{KIND_CLS[last].__name__}":
            return ["retry.result.different-exception-object"]  # right class, but not the object the call raised
        return ["retry.result.foreign-exception"]
    fails: list[str] = []
    if calls != n + 1:
        if calls < n + 1:
            fails.append("retry.calls.too-few")
        elif n >= limit:
            fails.append("retry.calls.limit-exceeded")
        elif kind_at(n) in ("cn", "cs", "xc", "be", "ce"):
            fails.append("retry.calls.retried-cancellation-or-base-exception")
        elif kind_at(n) == "ok":
            fails.append("retry.calls.called-again-after-success")
        else:
            fails.append("retry.calls.retried-uncaught")
        return fails
    if "0" in f.get("args", ""):
        fails.append("retry.args-not-passed-through")
    # the caller gets the last call's own outcome
    last = kind_at(calls - 1)
    want = f"ok@{calls - 1}" if last == "ok" else f"{NAMES[KIND_CLS[last]]}@{calls - 1}"
    if final != want:
        fails.append("retry.result.not-the-last-outcome")
    # pauses
    gaps = [g for g in f["gaps"].split(",") if g]
    fn = [x for x in f["fn"].split(",") if x]
    exp_gaps, exp_fn = [], []
    for j in range(calls - 1):
        if delay[0] == "none":
            exp_gaps.append(0)
        elif delay[0] in ("int", "float", "bool"):
            exp_gaps.append(delay[1])
        else:
            exp_gaps.append(delay[1] * (j + 1) + delay[2] * j + delay[3])
            exp_fn.append(f"{j + 1}:{j}")
    if delay[0] == "fn" and fn != exp_fn:
        if len(fn) != len(exp_fn):
            fails.append("retry.delay-fn.call-count")
        elif [x.split(":")[0] for x in fn] != [x.split(":")[0] for x in exp_fn]:
            fails.append("retry.delay-fn.wrong-attempt-number")
        else:
            fails.append("retry.delay-fn.wrong-exception")
    elif gaps != [str(g) for g in exp_gaps]:
        fails.append("retry.pause.wrong-duration")
    return fails


def nontrivial(case: str, out: str) -> bool:
    if not out.startswith("calls="):
        return False
    return int(out.split(" ")[0][6:]) >= 2


def classify(case: str, out: str):
    p = parse(case)
    if p is None:
        return
    variant, bare, limit, form, classes, delay, kinds = p
    yield f"variant:{variant}"
    yield f"limit:{'bare' if bare else limit}"
    yield f"catching:{form}"
    yield f"delay:{delay[0]}"
    yield f"len:{len(kinds)}"
    if out.startswith("calls="):
        f = out.split(" ")
        yield f"calls:{f[0][6:]}"
        yield f"final:{f[1][6:].split('@')[0]}"


# ----------------------------------------------------------------------------------------------
# cases


def extra_obligations():
    """both retry wrappers (`_wrap_sync.wrapped`, `_wrap_async.wrapped`) regenerated from /repo's retries.py as MiniPy terms:
    Lean re-checks that one iteration of the loop body does what `Retry.go`'s step does (one call; value returned / the same
    exception object re-raised / attempt + 1 with exactly the prescribed pause events), and the committed induction
    `Bridge.Retry.refines_of_step` lifts it to: the wrapper = `Retry.run` for every limit, catching, delay shape and outcome
    sequence"""
    from harness import core, regen

    return regen.check("retry", core.REPO, core.LEAN)


def corpus():
    return [
        # int delay: TypeError on the pinned tree ('int' object is not callable)
        "s 1 c:E1 i2 e1",
        "a 1 c:E1 i2 e1",
        # StopIteration is an Exception like any other (sync wrappers)
        "s 2 c:E1 n e1 si", "s 2 c:SI n si si si", "sp 1 d i1 si ok", "s 3 t:E1,SI f1 e1 si e2",
        # exceptions used as data: a call that RETURNS an instance of a caught class succeeded – returned as it is, once
        "s 2 c:E1 n ov", "a 3 d i1 e1 ov e1", "A 2 t:E1,E2 fn:2,1,0 ov ok", "sp 1 c:E1 n e1 ov",
        # an async adapter over a sync original (`functools.wraps(blocking)`)
        "aw 2 c:E1 n e1 e1 ok", "aw 1 d i1 e2 ok", "aw 3 t:E1,E2 n e1 e2 be",
        "s 2 d i3 e1 e2 ok",
        "A 3 t:E1,E2 i1 e1 e2 e1s e1",
        "s 1 d i0 e1",
        # bool delay under the repaired match: an int
        "s 2 c:E1 b1 e1 e1",
        "a 2 c:E1 b0 e1 e1",
        # attempt accounting: limit exhausted, exactly limit+1 calls, the last object comes back
        "s 1 c:E1 n e1 e1 e1",
        "s 4 c:E1 n e1 e1 e1 e1 e1 e1",
        "a 4 d f2 e1 e2 e1s e1 e2 ok",
        "s 3 c:E1 n e1 e1 e1 ok",
        "s 3 c:E1 n e1 e1 ok",
        # subclass caught, superclass not
        "s 2 c:E1 n e1s e1s e1s",
        "s 2 s:E1s,E2 n e1s e1 ok",
        "a 2 t:E1,E2 f1 e2 e1s ok",
        # uncaught stops at once
        "s 3 c:E1 f2 e2 ok",
        "a 3 s:E1 f2 e1 e2 ok",
        # a cancellation class that also inherits from a caught Exception class: never retried
        "s 3 c:E1 n ce ok", "a 3 t:E1,E2 f1 e1 ce ok", "A 2 d n ce e1 ok", "s 2 c:CE n ce ok",
        # the wrapped callable has no __name__ (functools.partial): retried all the same, the real outcome comes back
        "sp 2 c:E1 n e1 e1 ok", "ap 2 d i1 e1 e2 ok", "Ap 1 c:E1 n e1 e1", "sp 1 c:E1 n e2",
        # two calls through one wrapper whose executions overlap (two tasks / recursion): each has limit+1 attempts of its own
        "M2 2 c:E1 n e1 e1 ok / e1 ok", "M2 1 d n e1 e1 / e1 ok", "R2 1 c:E1 n e1 ok / e1 e1 e1", "R2 2 d n ok / e1 e1 ok",
        "M2 3 t:E1,E2 n e1 e2 e1 ok / e2 e2 e2 e2 e2",
        # cancellation / BaseException never retried, even when listed
        "s 3 t:Ex,Cn,Bx n cn ok",
        "a 3 t:Ex,Cn,Bx n e1 cn ok",
        "a 3 s:E1,E2,BE i1 e1 be ok",
        "s 3 s:Bx n be ok",
        "a 3 c:Cn n cn ok",
        "a 3 t:E1s,Cs n cs ok",
        "a 2 t:Ex,Cn,Bx f2 e1 xc ok",
        "A 2 d n xc ok",
        # delay function: attempt numbered from 1, exception of the failed call
        "s 3 d fn:1,0,0 e1 e2 e1s e1",
        "a 3 d fn:0,3,1 e1 e2 e1s ok",
        "A 4 c:Ex fn:3,2,1 e1 e2 e1s e1 e2",
        "s 2 c:E1 fn:2,1,0 e1 e1 ok",
        # float delay
        "s 2 c:E1 f3 e1 e1 e1",
        "A 2 c:E1 f3 e1 e1 ok",
        # defaults, bare decorator, first call succeeds
        "s - d n e2 e2 ok",
        "a - d n e1 ok",
        "s - d n ok",
        "a 1 d n",
        "s 0 d n ok",
        "a 0 c:E1 i1 e1",
    ]


def _configs():
    return [(c, d, v) for c in CATCH_EX for d in DELAY_EX for v in ("s", "a")]


def _random_case(rng) -> str:
    variant = rng.choice(["s", "s", "a", "a", "A"])
    limit = rng.randint(1, 4)
    if rng.random() < 0.03:
        return f"{variant} - d n " + " ".join(rng.choices(SIX, k=rng.randint(0, 3)))
    cat = rng.choice(CATCH_RND)
    dl = rng.choice(DELAY_RND)
    L = rng.randint(0, limit + 2)
    pool = SIX + (["cs"] if rng.random() < 0.2 else []) + (["xc"] if variant != "s" and rng.random() < 0.2 else [])
    w = [1, 4, 3, 3, 1, 1] + [1] * (len(pool) - 6)
    kinds = rng.choices(pool, weights=w, k=L)
    return " ".join([variant, str(limit), cat, dl, *kinds])


def generate(rng, tier):
    if tier == "quick":
        # every sequence for limit 1 with one rotating configuration, then sampled cases
        cfgs = _configs()
        k = rng.randrange(len(cfgs))
        for L in range(0, 4):
            for seq in itertools.product(SIX, repeat=L):
                c, d, v = cfgs[k % len(cfgs)]
                k += 7
                yield " ".join([v, "1", c, d, *seq])
        for _ in range(2750):
            yield _random_case(rng)
        yield from _extra_cases(rng, 400)
        return
    cfgs = _configs()
    k = rng.randrange(len(cfgs))
    for limit in (1, 2, 3, 4):
        per_seq = {1: len(cfgs), 2: len(cfgs), 3: len(cfgs), 4: 4}[limit]
        for L in range(0, limit + 3):
            for seq in itertools.product(SIX, repeat=L):
                for j in range(per_seq):
                    c, d, v = cfgs[(k + j * 7) % len(cfgs)] if per_seq < len(cfgs) else cfgs[j]
                    yield " ".join([v, str(limit), c, d, *seq])
                k += 11
    for _ in range(120000):
        yield _random_case(rng)
    yield from _extra_cases(rng, 20000)


def _extra_cases(rng, n: int):
    """callables without __name__, the cancellation-and-Exception class, overlapping calls through one wrapper"""
    kinds = SIX + ["ce", "ce"]
    for _ in range(n):
        limit = rng.randint(1, 3)
        cat = rng.choice(CATCH_RND + ["c:CE", "t:E1,CE"])
        r = rng.random()
        if r < 0.35:
            seq = [rng.choice(kinds) for _ in range(rng.randint(0, limit + 2))]
            v = rng.choice(["sp", "ap", "Ap", "s", "a", "aw", "aw"])
            if v.startswith("s") and rng.random() < 0.5:
                # a retried reader built on `next(...)`: the final outcome is a StopIteration (sync wrappers only)
                seq.insert(rng.randint(0, len(seq)), "si")
                cat = rng.choice([cat, "c:SI", "t:E1,SI", "d"])
            if rng.random() < 0.3 and seq:
                seq[rng.randrange(len(seq))] = "ov"
            yield " ".join([v, str(limit), cat, rng.choice(DELAY_RND), *seq])
        else:
            a = [rng.choice(["e1", "e1", "e1s", "e2", "ok"]) for _ in range(rng.randint(0, limit + 2))]
            b = [rng.choice(["e1", "e1", "e1s", "e2", "ok"]) for _ in range(rng.randint(0, limit + 2))]
            yield " ".join([rng.choice(["M2", "R2"]), str(limit), cat, "n", *a, "/", *b])


def mutate(rng, case: str) -> str:
    toks = case.split()
    if len(toks) < 4:
        return _random_case(rng)
    r = rng.random()
    if r < 0.2:
        toks[0] = rng.choice(["s", "a", "A"])
    elif r < 0.35:
        toks[1] = str(rng.randint(1, 4))
    elif r < 0.5:
        toks[2] = rng.choice(CATCH_RND)
    elif r < 0.7:
        toks[3] = rng.choice(DELAY_RND)
    elif r < 0.85 or len(toks) == 4:
        toks.insert(rng.randint(4, len(toks)), rng.choice(SIX))
    else:
        toks[rng.randrange(4, len(toks))] = rng.choice(SIX)
    if toks[0] == "s":
        toks = toks[:4] + ["cn" if t == "xc" else t for t in toks[4:]]
    return " ".join(toks)


def shrink(case: str):
    toks = case.split()
    if len(toks) < 4:
        return
    head, kinds = toks[:4], toks[4:]
    for i in range(len(kinds) - 1, -1, -1):
        yield " ".join(head + kinds[:i] + kinds[i + 1:])
    if head[1] not in ("-", "1", "0"):
        yield " ".join([head[0], str(int(head[1]) - 1), *head[2:], *kinds])
    if head[0] != "s" and "xc" not in kinds:
        yield " ".join(["s", *head[1:], *kinds])
    if head[2] not in ("d", "c:E1"):
        yield " ".join([head[0], head[1], "c:E1", head[3], *kinds])
    for i, kd in enumerate(kinds):
        if kd not in ("ok", "e1"):
            yield " ".join(head + kinds[:i] + ["e1"] + kinds[i + 1:])
