"""C06 – structured concurrency: tasks spawned into an async scope never outlive it; leaving terminates; members are
cancelled when the body fails; outside any scope a spawn is detached.  Real `ctx.scope` / `ctx.spawn` under the virtual
loop vs `hwmodel groups` (replay of the observed event log on the LTS `Haiway.Groups`)."""
from __future__ import annotations

import json

from harness import groups_common as gc
from harness.groups_common import (ANCHORS, ASSUMPTIONS, LEAN_COMPONENT, TRUSTED, agree, model_input, mutate,  # noqa: F401
                                   run_real, shrink)

PID = "C06"
PROPS_MODULE = "Haiway.Props.C06"
RULE = ("case = scope program (1-5 tasks: async/sync scopes and ctx.updated nested to depth 4, ctx.spawn / plain create_task "
        "children that spawn further, gates, user raises incl. while being cancelled, try/catch-all, ctx.cancel, "
        "check_cancellation; a third of the random programs with disposables whose enter / exit scripts return, raise or wait on a gate) + explicit schedule of gate releases and Task.cancel() calls; directed programs "
        "with every schedule of length <= 3 (quick) / <= 5 (thorough), random programs with random schedules, and for every "
        "10th random program one cancellation injected at every schedule step on each of the 3 highest live tasks; "
        "non-trivial = at least one member of an async scope's group is still pending when that scope's body ends; "
        "distinct = by case text")



def extra_obligations():
    """`TaskGroupContext.run` (= ctx.spawn) regenerated from /repo's tasks.py as a MiniPy term and proved to do what the
    `Groups` model takes a spawn to be: inside a scope the task is created in the scope's group, exactly once, from one
    call of the callable; a refusal of the group or an exception of the callable reaches the caller as that object with
    nothing started anywhere; only without a group in the context is the task created detached on the loop"""
    from harness import core, regen

    return regen.check("spawn", core.REPO, core.LEAN)


def corpus():
    out = []
    for prog in gc.DIRECTED:
        for sched in ([], [0], [1], [1, 1], [2], [gc.LAST], [0, gc.LAST], [gc.LAST - 1]):
            out.append(json.dumps({"prog": prog, "sched": sched}, separators=(",", ":")))
    return out


def generate(rng, tier):
    yield from gc.directed(3 if tier == "quick" else 5)
    n = 7000 if tier == "quick" else 130000
    for i in range(n):
        c = gc.gen(rng, depth=rng.choice([2, 3, 3, 4]), p_raise=rng.choice([0.05, 0.1]), p_cancel=rng.choice([0.15, 0.3]),
                   p_disp=rng.choice([0.0, 0.0, 0.4]))
        yield c
        if i % 10 == 0:
            yield from gc.sweep(c)


def monitor(case: str, out: str) -> list[str]:
    return gc.monitor_c06(case, out)


def nontrivial(case: str, out: str) -> bool:
    if not gc.ok_observation(out) or gc.foreign_defect(out):
        return False
    v = gc.View(case, out)
    return any(e[0] not in ("X", "Z") and e[1] == "bodyend" and v.is_async(int(e[2])) and v.pending_members(int(e[2]), i)
               for i, e in enumerate(v.ev))


def classify(case: str, out: str):
    yield from gc.classify_common(case, out)
