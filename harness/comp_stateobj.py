"""C04 – State instances are immutable values with copy-on-update semantics:
families of real `haiway.State` classes and scripts of operations vs `hwmodel stateobj`."""
from __future__ import annotations

import copy as _copy

from harness import core  # noqa: F401
from harness.state_common import (
    BASE_NAMES, BASE_SPECS, C_GEN, C_INNER, C_INT, C_STR, Ctx, Oracle, canon_sets, exc_name, field, parse_case, parse_seq, show,
    universe,
)
from harness.state_gen import JUNK, Gen, break_node, cls, depth_of, get_at, normalise, paths, set_at

PID = "C04"
LEAN_COMPONENT = "stateobj"
PROPS_MODULE = "Haiway.Props.C04"
ANCHORS = ["src/haiway/state/structure.py", "src/haiway/state/validation.py", "src/haiway/types/missing.py"]
RULE = ("case = a family of real State classes (a generated class G over the C05 annotation vocabulary incl. generic, nested, "
        "recursive, Missing-typed and defaulted attributes; two specialisations when G is generic; a derived class; an unrelated "
        "twin with the same attributes) and a script of 8-30 operations on instance variables: construction (valid and "
        "invalid), updated() with random subsets of valid / invalid / unknown / MISSING replacements, copy, deepcopy, == in both "
        "operand orders within and across classes / specialisations / base-derived pairs, attribute assignment and deletion, "
        "mutation of the original argument lists/sets/dicts after construction, mutation attempts on the containers the instance "
        "exposes, as_dict before and after; non-trivial = some instance has a container attribute and the script has >=1 "
        "successful and >=1 rejected operation; distinct = by case text")
TRUSTED = ["Python's == on the value vocabulary as modelled by `pyEq` (numbers by value, set/frozenset and dict/mappingproxy "
           "interchangeable, reflected-operand dispatch for subclasses)",
           "harness/state_common.py, harness/state_gen.py, harness/comp_stateobj.py (script runner, serialisation, monitor)"]
ASSUMPTIONS = ["no NaN among attribute values (== is an equivalence on the values used)",
               "mutation attempts target containers reached through Sequence/Set/Mapping/tuple annotations; positions under "
               "`Any` / nominal classes keep the caller's object (excluded from the immutability claim, see C04.frozen)",
               "objects of user classes compare by value (the harness' test classes define __eq__)"]


def setup():
    universe()


# ---------------------------------------------------------------------------------------------------
# independent reference for ==, on serialised (deep) values

def _num(v):
    if isinstance(v, str):
        if v[0] == "b":
            return 2 * int(v[1])
        if v[0] == "i":
            return 2 * int(v[1:])
        if v[0] == "f":
            return int(v[1:])
        return None
    if v[0] == "E" and v[3][0] == "i":
        return 2 * int(v[3][1:])
    return None


def _str(v):
    if isinstance(v, str):
        return v[2:-1] if v[0] == "s" else None
    if v[0] == "E" and v[3][0] == "s":
        return v[3][2:-1]
    return None


def ser_eq(a, b) -> bool:  # noqa: C901, PLR0911, PLR0912
    """Python's `a == b` for two serialised values (the spec of "all attribute values are equal")"""
    na, nb = _num(a), _num(b)
    if na is not None or nb is not None:
        return na is not None and nb is not None and na == nb
    sa, sb = _str(a), _str(b)
    if sa is not None or sb is not None:
        return sa is not None and sb is not None and sa == sb
    if isinstance(a, str) or isinstance(b, str):
        return a == b
    ka, kb = a[0], b[0]
    if ka in "LT":
        return ka == kb and len(a) == len(b) and all(ser_eq(x, y) for x, y in zip(a[1:], b[1:]))
    if ka in "SF":
        return kb in "SF" and len(a) == len(b) and all(any(ser_eq(x, y) for y in b[1:]) for x in a[1:])
    if ka in "DP":
        return kb in "DP" and len(a) == len(b) and all(
            any(ser_eq(p[0], q[0]) and ser_eq(p[1], q[1]) for q in b[1:]) for p in a[1:])
    if ka == "I":
        return kb == "I" and inst_eq(a[1], dict((n, v) for n, v in a[2:]), b[1], dict((n, v) for n, v in b[2:]))
    return a == b


def inst_eq(ca, fa: dict, cb, fb: dict) -> bool:
    """the property: equal exactly when the classes are the same and all attribute values are equal"""
    return ca == cb and list(fa) == list(fb) and all(ser_eq(fa[k], fb[k]) for k in fa)


# ---------------------------------------------------------------------------------------------------
# expected effect of the operations (reference used by the generator to keep scripts meaningful and by
# the monitor to state the property) – works on serialised values only

class Ref:
    def __init__(self, top: list) -> None:
        self.top = top
        self.classes = {c[1]: c[1:] for c in field(top, "classes")}
        self.vars: dict[str, tuple[str, dict]] = {}

    def oracle(self, cid: str) -> tuple[Oracle, dict, list]:
        spec = self.classes[cid]
        return Oracle(self.top, int(cid)), {n: t for n, t in field(spec, "tp")}, field(spec, "attrs")

    def construct(self, cid: str, kwargs: dict, base: dict | None):
        """expected result of `cls(**kwargs)` (base=None) or of `updated(**kwargs)` on stored fields `base`:
        -> (ok?, fields) ; for updated only the named attributes are (re)converted"""
        orc, env, attrs = self.oracle(cid)
        out = {}
        ok = True
        for name, ty, dflt in attrs:
            named = name in kwargs
            if base is not None and not named:
                out[name] = base.get(name, "M")      # (an attribute can only be absent if deletion went through)
                continue
            v = kwargs.get(name, "M")
            if v == "M":
                v = dflt if dflt != "-" else "M"
            orc.blame = None
            good, conv = orc.walk(ty, v, env)
            if not good:
                ok = False
            else:
                out[name] = deep(canon_sets_deep(conv))
        return ok, out


def canon_sets_deep(v):
    """like canon_sets but keeps the fields of nested instances (identity-free form)"""
    if isinstance(v, str):
        return v
    if v[0] in "SF":
        return [v[0], *sorted((canon_sets_deep(x) for x in v[1:]), key=lambda x: show(deep(x)))]
    if v[0] == "I":
        return [v[0], v[1], v[2], *[[n, canon_sets_deep(x)] for n, x in v[3:]]]
    if v[0] in "DP":
        return [v[0], *[[canon_sets_deep(a), canon_sets_deep(b)] for a, b in v[1:]]]
    if v[0] in "EOC":
        return v
    return [v[0], *[canon_sets_deep(x) for x in v[1:]]]


def deep(v):
    """case-text value -> identity-free form: `(I cls id fields…)` becomes `(I cls fields…)`"""
    if isinstance(v, str):
        return v
    if v[0] == "I":
        return ["I", v[1], *[[n, deep(x)] for n, x in v[3:]]]
    if v[0] in "DP":
        return [v[0], *[[deep(a), deep(b)] for a, b in v[1:]]]
    if v[0] in "EOC":
        return v
    return [v[0], *[deep(x) for x in v[1:]]]


# ---------------------------------------------------------------------------------------------------
# generator

def frozen_targets(stored, arg=None):
    """paths (tuple index / mapping pair index + 1 for the value) to nodes of the expected stored value that are
    immutable containers with only immutable containers above them; with `arg`: nodes where the *argument* has a
    mutable container (list/set/dict) at the same place"""
    out = []

    def go(s, a, path):
        if isinstance(s, str) or s[0] not in "TFP":
            return
        if a is None or (isinstance(a, list) and a[0] in "LSD"):
            out.append(path)
        if s[0] == "T" and (a is None or (isinstance(a, list) and a[0] in "LT" and len(a) == len(s))):
            for i in range(1, len(s)):
                go(s[i], None if a is None else a[i], (*path, i - 1))
        elif s[0] == "P" and (a is None or (isinstance(a, list) and a[0] in "DP" and len(a) == len(s))):
            for i in range(1, len(s)):
                go(s[i][1], None if a is None else a[i][1], (*path, i - 1, 1))
        elif s[0] == "F" and a is None:
            for i in range(1, len(s)):
                go(s[i], None, (*path, i - 1))

    go(stored, arg, ())
    return out


def gen_case(rng) -> str:  # noqa: C901, PLR0912, PLR0915
    g = Gen(rng)
    g.make_aliases(rng.choice([0, 0, 1, 2]))
    params: list[str] = []
    if rng.random() < 0.3:
        params = ["T"]
        if rng.random() < 0.4:
            g.bounds["T"] = rng.choice([C_INT, C_INNER, C_STR])
    attrs = []
    for name in ["a", "b", "c"][: rng.choice([1, 2, 2, 3])]:
        t = g.ty(rng.choice([0, 1, 1, 2, 2, 3]), params=params, top=True)
        dflt = "-"
        if rng.random() < 0.3:
            v = g.val(t, {})
            dflt = normalise(v) if v is not None else "-"
        attrs.append([name, t, dflt])
    G = str(C_GEN)
    classes = [["class", G, ["params", *params], ["tp"], ["attrs", *attrs], "-"]]
    sub = []
    envs = {G: {}}
    if params:
        a1, a2 = rng.sample([C_INT, C_STR, C_INNER], 2)
        for cid, a in ((C_GEN + 1, a1), (C_GEN + 2, a2)):
            classes.append(["class", str(cid), ["params"], ["tp", ["T", cls(a)]], ["attrs", *attrs], ["spec", G]])
            sub.append((cid, C_GEN))
            envs[str(cid)] = {"T": cls(a)}
    D = str(C_GEN + 3)
    extra = [["d", cls(C_INT), "i0"]] if rng.random() < 0.5 else []
    classes.append(["class", D, ["params"], ["tp"], ["attrs", *attrs, *extra], ["base", G]])
    sub.append((C_GEN + 3, C_GEN))
    envs[D] = {}
    H = str(C_GEN + 4)
    classes.append(["class", H, ["params", *params], ["tp"], ["attrs", *attrs], "-"])
    envs[H] = {}

    u = universe()
    hdr = " ".join(show(x) for x in (
        ["sub", *[[str(a), str(b)] for a, b in [*u.base_sub, *sub]]], ["names", *BASE_NAMES],
        ["bounds", *[[n, str(c)] for n, c in g.bounds.items()]],
        ["aliases", *[[a[0], list(a[1]), a[2]] for a in reversed(g.aliases)]], ["specs", *BASE_SPECS]))
    top = parse_seq(f"{hdr} {show(['classes', *classes])}")
    ref = Ref(top)

    ops: list = []
    live: dict[str, tuple[str, dict, dict | None]] = {}    # var -> (cid, expected fields, original kwargs)
    nvar = 0

    def fresh() -> str:
        nonlocal nvar
        nvar += 1
        return f"x{nvar - 1}"

    def conforming_kwargs(cid: str) -> dict:
        kw = {}
        for name, ty, dflt in field(ref.classes[cid], "attrs"):
            if dflt != "-" and rng.random() < 0.5:
                continue
            v = g.val(ty, envs[cid])
            if v is not None:
                kw[name] = normalise(v)
        return kw

    def do_init(cid: str, kw: dict) -> str | None:
        r = fresh()
        ops.append(["init", r, cid, *[[n, v] for n, v in kw.items()]])
        ok, fields = ref.construct(cid, kw, None)
        if ok:
            live[r] = (cid, fields, kw)
            return r
        return None

    cids = list(envs)
    kw0 = conforming_kwargs(G)
    x0 = do_init(G, kw0)
    for _ in range(rng.randint(7, 28)):
        k = rng.choices(["init", "same", "upd", "copy", "deepcopy", "eq", "set", "del", "asdict", "mutarg", "mutexp", "badinit"],
                        [2, 3, 5, 2, 2, 7, 2, 1, 2, 3, 3, 1])[0]
        names = list(live)
        if k == "init":
            cid = rng.choice(cids)
            do_init(cid, conforming_kwargs(cid))
        elif k == "same":       # the same arguments again, on the same or on a related class
            src = live[rng.choice(names)] if names and rng.random() < 0.6 else (G, {}, kw0)
            if src[2] is not None:
                do_init(rng.choice(cids) if rng.random() < 0.6 else src[0], dict(src[2]))
        elif k == "badinit":
            cid = rng.choice(cids)
            kw = conforming_kwargs(cid)
            if kw:
                n = rng.choice(list(kw))
                p = rng.choice(list(paths(kw[n])))
                kw[n] = normalise(set_at(kw[n], p, break_node(rng, get_at(kw[n], p))))
            do_init(cid, kw)
        elif not names:
            continue
        elif k == "upd":
            s = rng.choice(names)
            cid, fields, _ = live[s]
            kw = {}
            for name, ty, dflt in field(ref.classes[cid], "attrs"):
                x = rng.random()
                if x < 0.35:
                    v = g.val(ty, envs[cid])
                    if v is not None:
                        kw[name] = normalise(v)
                elif x < 0.47:
                    v = g.val(ty, envs[cid])
                    v = v if v is not None else "i1"
                    p = rng.choice(list(paths(v)))
                    kw[name] = normalise(set_at(v, p, break_node(rng, get_at(v, p))))
                elif x < 0.52:
                    kw[name] = "M"
            if rng.random() < 0.2:
                kw["zz"] = rng.choice(JUNK[:8])
            r = fresh()
            ops.append(["upd", r, s, *[[n, v] for n, v in kw.items()]])
            ok, out = ref.construct(cid, kw, fields)
            if ok:
                live[r] = (cid, out, None)
        elif k in ("copy", "deepcopy"):
            s = rng.choice(names)
            r = fresh()
            ops.append([k, r, s])
            live[r] = (live[s][0], live[s][1], None)
            ops.append(["eq", s, r] if rng.random() < 0.5 else ["eq", r, s])
        elif k == "eq":
            s, t = rng.choice(names), rng.choice(names)
            ops.append(["eq", s, t])
            if rng.random() < 0.6:
                ops.append(["eq", t, s])
        elif k == "set":
            s = rng.choice(names)
            name = rng.choice([*live[s][1], "zz"])
            ops.append(["asdict", s])
            ops.append(["set", s, name, rng.choice(JUNK[:12])])
            ops.append(["asdict", s])
        elif k == "del":
            s = rng.choice(names)
            ops.append(["del", s, rng.choice([*live[s][1], "zz"])])
            ops.append(["asdict", s])
        elif k == "asdict":
            ops.append(["asdict", rng.choice(names)])
        elif k == "mutarg":
            cands = [(s, n) for s in names if live[s][2] for n in live[s][2] if n in live[s][1]]
            rng.shuffle(cands)
            for s, n in cands:
                ts = frozen_targets(live[s][1][n], deep(live[s][2][n]))
                if ts:
                    ops.append(["mutarg", s, n, *[str(i) for i in rng.choice(ts)]])
                    ops.append(["asdict", s])
                    break
        elif k == "mutexp":
            cands = [(s, n) for s in names for n in live[s][1]]
            rng.shuffle(cands)
            for s, n in cands:
                ts = frozen_targets(live[s][1][n])
                if ts:
                    ops.append(["mutexp", s, n, *[str(i) for i in rng.choice(ts)]])
                    ops.append(["asdict", s])
                    break
    if x0 is not None:
        ops.append(["asdict", x0])
    return f"{hdr} {show(['classes', *classes])} {show(['ops', *ops])}"


def generate(rng, tier):
    n = 2500 if tier == "quick" else 16 * 4000
    for _ in range(n):
        yield gen_case(rng)


def hand(classes: list[str], ops: list[str], aliases=(), bounds=(), sub=()) -> str:
    u = universe()
    hdr = " ".join(show(x) for x in (
        ["sub", *[[str(a), str(b)] for a, b in [*u.base_sub, *sub]]], ["names", *BASE_NAMES],
        ["bounds", *[list(b) for b in bounds]], ["aliases", *[parse_seq(a)[0] for a in aliases]], ["specs", *BASE_SPECS]))
    return f"{hdr} (classes {' '.join(classes)}) (ops {' '.join(ops)})"



def extra_obligations():
    """small methods of `State` / `StateAttribute` regenerated from /repo's structure.py as MiniPy terms: `__setattr__` and
    `__delattr__` refuse with AttributeError whatever the arguments, `__copy__` / `__deepcopy__` return the instance itself,
    `StateAttribute.validated` applies the validator exactly once - to the default iff the argument *is* MISSING"""
    from harness import core, regen

    return [e for e in regen.check("stateobj", core.REPO, core.LEAN)]


def corpus():
    I, S = "(cls 3)", "(cls 5)"
    plain = lambda cid, attrs, rel="-": f"(class {cid} (params) (tp) (attrs {attrs}) {rel})"  # noqa: E731
    m = f"(a (map {S} (seq {I})) -) (b (seq {I}) (L i1 i2))"
    fam = [plain(100, m), plain(103, m + f" (d {I} i0)", "(base 100)"), plain(104, m)]
    sub = [(103, 100)]
    gen = ["(class 100 (params T) (tp) (attrs (a (tvar T) -) (b (seq (tvar T)) (L))) -)",
           "(class 101 (params) (tp (T (cls 3))) (attrs (a (tvar T) -) (b (seq (tvar T)) (L))) (spec 100))",
           "(class 102 (params) (tp (T (cls 5))) (attrs (a (tvar T) -) (b (seq (tvar T)) (L))) (spec 100))"]
    gsub = [(101, 100), (102, 100)]
    return [
        # deepcopy / copy of Mapping attributes and of attributes holding MISSING (pinned tree: deepcopy fails)
        hand(fam, ['(init x0 100 (a (D (s"k" (L i1)))))', "(deepcopy x1 x0)", "(eq x0 x1)", "(eq x1 x0)", "(copy x2 x0)", "(eq x2 x0)"], sub=sub),
        hand([plain(100, f"(a (union {I} missing) -) (b {S} s\"\")")],
             ["(init x0 100)", "(deepcopy x1 x0)", "(eq x0 x1)", "(copy x2 x0)", "(eq x0 x2)", "(asdict x1)", '(upd x3 x0 (b s"z"))', "(asdict x3)"]),
        hand([plain(100, "(a (opt (cls 48)) N) (b (seq (cls 40)) (L))")],
             ["(init x0 100 (a (I 48 1 (val i1) (next (I 48 2 (val i2) (next N))))) (b (L (I 40 3 (n i1)))))", "(deepcopy x1 x0)",
              "(eq x0 x1)", "(eq x1 x0)"]),
        # caller-side mutation of the argument containers is not reflected
        hand(fam, ['(init x0 100 (a (D (s"k" (L i1 i2)))) (b (L i3)))', "(asdict x0)", "(mutarg x0 a)", "(asdict x0)", "(mutarg x0 a 0 1)",
                   "(asdict x0)", "(mutarg x0 b)", "(asdict x0)", "(mutexp x0 a)", "(mutexp x0 a 0 1)", "(mutexp x0 b)", "(asdict x0)"], sub=sub),
        hand([plain(100, f"(a (set {I}) -) (b (tupf (seq {S}) (map {I} {I})) -)")],
             ['(init x0 100 (a (S i1 i2)) (b (L (L s"a") (D (i1 i2)))))', "(mutarg x0 a)", "(mutarg x0 b 0)", "(mutarg x0 b 1)", "(asdict x0)",
              "(mutexp x0 a)", "(mutexp x0 b)", "(mutexp x0 b 0)", "(mutexp x0 b 1)", "(asdict x0)"]),
        # ... also when the argument is a read-only view (mapping proxy) over a dict the caller keeps changing
        hand([plain(100, f"(a (map {S} {I}) -) (b (seq (map {S} {I})) (L))")],
             ['(init x0 100 (a (P (s"k" i1))) (b (L (P (s"q" i2)))))', "(asdict x0)", "(mutarg x0 a)", "(asdict x0)", "(mutarg x0 b 0)", "(asdict x0)",
              '(upd x1 x0 (a (P (s"z" i3))))', "(mutarg x0 a)", "(asdict x1)", "(eq x0 x1)"]),
        # assignment / deletion
        hand(fam, ['(init x0 100 (a (D)))', "(asdict x0)", "(set x0 b (T i9))", "(set x0 zz i1)", "(del x0 a)", "(del x0 zz)", "(asdict x0)"], sub=sub),
        # updated: exactly the named attributes, unknown names ignored, invalid rejected, original untouched
        hand(fam, ['(init x0 100 (a (D (s"k" (L i1)))))', "(upd x1 x0 (b (L i7)))", "(asdict x0)", "(asdict x1)", '(upd x2 x0 (b (L s"x")))',
                   "(upd x3 x0 (zz i1))", "(eq x3 x0)", "(upd x4 x0 (b M))", "(eq x4 x0)", '(upd x5 x1 (a (D (s"q" (T)))) (zz N))', "(asdict x5)",
                   "(asdict x1)", "(asdict x0)"], sub=sub),
        # equality: same class and equal values only – never across base/derived, twin, specialisations; both orders
        hand(fam, ['(init x0 100 (a (D (s"k" (L i1)))))', '(init x1 100 (a (P (s"k" (T b1)))))', '(init x2 103 (a (D (s"k" (L i1)))))',
                   '(init x3 104 (a (D (s"k" (L i1)))))', "(eq x0 x1)", "(eq x1 x0)", "(eq x0 x2)", "(eq x2 x0)", "(eq x0 x3)", "(eq x3 x0)",
                   "(eq x2 x3)", '(init x4 100 (a (D (s"k" (L i2)))))', "(eq x0 x4)", "(eq x4 x0)", "(eq x0 x0)"], sub=sub),
        hand(gen, ["(init x0 100 (a i1))", "(init x1 101 (a i1))", "(init x2 102 (a s\"a\"))", "(init x3 101 (a b1))", "(eq x0 x1)", "(eq x1 x0)",
                   "(eq x1 x2)", "(eq x1 x3)", "(eq x3 x1)", '(init x4 101 (a s"a"))', '(init x5 100 (a s"a"))', "(eq x5 x2)", "(eq x2 x5)",
                   "(upd x6 x1 (a i5))", "(upd x7 x1 (a s\"no\"))", "(eq x6 x1)"], sub=gsub),
        # `Self` in an inherited attribute means the class being constructed: a subclass that merely inherits a recursive
        # attribute does not take an instance of its base for it (an instance of the subclass is fine for the base)
        hand([plain(100, f"(v {I} i0) (nxt (opt self) N)"), plain(103, f"(v {I} i0) (nxt (opt self) N) (d {I} i0)", "(base 100)")],
             ["(init x0 100 (v i1))", "(init x1 103 (v i2))", "(init x2 103 (nxt (I 100 7 (v i1) (nxt N))))", "(init x3 103 (nxt (I 103 8 (v i1) (nxt N) (d i0))))",
              "(init x4 100 (nxt (I 103 9 (v i1) (nxt N) (d i0))))", "(init x5 100 (nxt (I 100 10 (v i3) (nxt N))))", "(upd x6 x1 (nxt (I 100 11 (v i1) (nxt N))))",
              "(upd x7 x1 (nxt (I 103 12 (v i1) (nxt N) (d i0))))", "(asdict x3)", "(asdict x4)"], sub=sub),
        # un-validated updated / isinstance-based __eq__ mutants
        hand(fam, ['(init x0 100 (a (D)))', '(upd x1 x0 (a (L i1)))', '(upd x2 x0 (b s"ab"))', "(upd x3 x0 (b (L i1 i2)))", "(eq x3 x0)", "(eq x0 x3)"], sub=sub),
    ]


# ---------------------------------------------------------------------------------------------------
# real code

def _navigate_orig(v, steps):
    for st in steps:
        if isinstance(v, (list, tuple)):
            v = v[st]
        elif hasattr(v, "items"):
            v = list(v.items())[st]
        else:
            return None
    return v


def _navigate_exposed(ctx: Ctx, v, steps):
    for st in steps:
        if isinstance(v, tuple):
            v = v[st]
        elif isinstance(v, (set, frozenset)):
            v = sorted(v, key=ctx.ser_deep)[st]
        elif hasattr(v, "items"):
            v = list(v.items())[st]
        elif isinstance(v, list):
            v = v[st]
        else:
            return None
    return v


def _try_mutate(v) -> bool:
    """try every in-place mutation the container type offers; True when one went through"""
    attempts = []
    if isinstance(v, (list, tuple)):
        attempts = [lambda: v.append(99), lambda: v.__setitem__(0, 99), lambda: v.extend([1]), lambda: v.clear(),
                    lambda: v.__delitem__(0), lambda: v.insert(0, 1), lambda: v.sort()]
    elif isinstance(v, (set, frozenset)):
        attempts = [lambda: v.add(99), lambda: v.clear(), lambda: v.discard(1), lambda: v.update([5])]
    elif hasattr(v, "items"):
        attempts = [lambda: v.__setitem__("zz", 99), lambda: v.clear(), lambda: v.update({"q": 1}), lambda: v.pop("k", None),
                    lambda: v.__delitem__(next(iter(v))), lambda: v.setdefault("n", 1)]
    before = repr(v)
    done = False
    for a in attempts:
        try:
            a()
            done = done or repr(v) != before
        except (AttributeError, TypeError, KeyError, IndexError, StopIteration):
            pass
    return done


def run_real(case: str) -> str:  # noqa: C901, PLR0912, PLR0915
    top = parse_seq(case)
    ctx = Ctx(top)
    try:
        ctx.make_family(field(top, "classes"))
    except Exception as exc:  # noqa: BLE001
        return f"classerr {type(exc).__name__}"
    vars_: dict[str, object] = {}
    orig: dict[str, dict] = {}
    outs = []
    for op in field(top, "ops"):
        k = op[0]
        try:
            if k == "init":
                try:
                    kwargs = {n: ctx.val(v) for n, v in op[3:]}
                except Exception as exc:  # noqa: BLE001
                    outs.append(f"input-build-failed {type(exc).__name__}")
                    continue
                try:
                    inst = ctx.cls[int(op[2])](**kwargs)
                except Exception as exc:  # noqa: BLE001
                    outs.append(f"err {exc_name(exc)}")
                    continue
                vars_[op[1]] = inst
                orig[op[1]] = kwargs
                outs.append("ok" + ctx.ser_deep_fields(inst))
            elif k == "upd":
                if op[2] not in vars_:
                    outs.append("undef")
                    continue
                kwargs = {n: ctx.val(v) for n, v in op[3:]}
                try:
                    inst = vars_[op[2]].updated(**kwargs)
                except Exception as exc:  # noqa: BLE001
                    outs.append(f"err {exc_name(exc)}")
                    continue
                vars_[op[1]] = inst
                outs.append("ok" + ctx.ser_deep_fields(inst))
            elif k in ("copy", "deepcopy"):
                if op[2] not in vars_:
                    outs.append("undef")
                    continue
                try:
                    inst = (_copy.copy if k == "copy" else _copy.deepcopy)(vars_[op[2]])
                except Exception as exc:  # noqa: BLE001
                    outs.append(f"err {exc_name(exc)}")
                    continue
                vars_[op[1]] = inst
                outs.append("ok" + ctx.ser_deep_fields(inst))
            elif k == "eq":
                if op[1] not in vars_ or op[2] not in vars_:
                    outs.append("undef")
                    continue
                r = vars_[op[1]] == vars_[op[2]]
                outs.append("b1" if r is True else "b0" if r is False else f"nobool:{r!r}")
            elif k == "set":
                if op[1] not in vars_:
                    outs.append("undef")
                    continue
                try:
                    setattr(vars_[op[1]], op[2], ctx.val(op[3]))
                    outs.append("mutated")
                except Exception:  # noqa: BLE001
                    outs.append("rejected")
            elif k == "del":
                if op[1] not in vars_:
                    outs.append("undef")
                    continue
                try:
                    delattr(vars_[op[1]], op[2])
                    outs.append("mutated")
                except Exception:  # noqa: BLE001
                    outs.append("rejected")
            elif k == "asdict":
                if op[1] not in vars_:
                    outs.append("undef")
                    continue
                d = vars_[op[1]].as_dict()
                outs.append("ok" + "".join(f" ({n} {ctx.ser_deep(v)})" for n, v in d.items()))
            elif k == "mutarg":
                if op[1] in orig and op[2] in orig[op[1]]:
                    try:      # an earlier mutation may have removed the place this one aims at
                        tgt = _navigate_orig(orig[op[1]][op[2]], [int(x) for x in op[3:]])
                    except (IndexError, KeyError, TypeError):
                        tgt = None
                    if id(tgt) in getattr(ctx, "proxy_backing", {}):
                        tgt = ctx.proxy_backing[id(tgt)]       # the dict behind a mapping proxy the caller handed over
                    if isinstance(tgt, (list, set, dict)):
                        _try_mutate(tgt)
                outs.append("-")
            elif k == "mutexp":
                if op[1] not in vars_:
                    outs.append("undef")
                    continue
                tgt = _navigate_exposed(ctx, getattr(vars_[op[1]], op[2]), [int(x) for x in op[3:]])
                outs.append("bad-path" if tgt is None else "mutable" if _try_mutate(tgt) else "rejected")
            else:
                outs.append("bad-op")
        except Exception as exc:  # noqa: BLE001
            outs.append(f"harness-error {type(exc).__name__}")
    return " | ".join(outs)


def canon(case: str, out: str) -> str:
    return out.strip()


# ---------------------------------------------------------------------------------------------------
# the property, on the implementation's observations

def _fields(text: str) -> dict | None:
    if not text.startswith("ok"):
        return None
    return {f[0]: f[1] for f in parse_seq(text[2:])}


def monitor(case: str, out: str) -> list[str]:  # noqa: C901, PLR0912, PLR0915
    if out.startswith("classerr") or out.startswith("HANG"):
        return ["state.no-observation"]
    top = parse_case(case)
    ops = field(top, "ops")
    outs = [o.strip() for o in out.split("|")]
    if len(outs) != len(ops):
        return ["state.no-observation"]
    ref = Ref(top)
    vals: dict[str, tuple[str, dict]] = {}      # var -> (class id, observed fields at creation)
    fails: list[str] = []
    eqs: dict[tuple[str, str], bool] = {}

    def same(fa: dict, fb: dict) -> bool:
        return list(fa) == list(fb) and all(show(fa[k]) == show(fb[k]) for k in fa)

    for op, o in zip(ops, outs):
        k = op[0]
        if o.startswith(("harness-error", "input-build-failed", "bad-", "nobool")):
            fails.append("state.no-observation")
            continue
        if k == "init":
            kw = {n: v for n, v in op[3:]}
            ok, exp = ref.construct(op[2], kw, None)
            got = _fields(o)
            if ok and got is None:
                fails.append("state.init.rejected-valid")
            elif not ok and got is not None:
                fails.append("state.init.accepted-invalid")
            elif ok and not same(got, exp):
                fails.append("state.init.stored-unfaithful")
            if got is not None:
                vals[op[1]] = (op[2], got)
        elif k == "upd":
            if op[2] not in vals:
                if o != "undef":
                    fails.append("state.no-observation")
                continue
            cid, base = vals[op[2]]
            kw = {n: v for n, v in op[3:]}
            ok, exp = ref.construct(cid, kw, base)
            got = _fields(o)
            if ok and got is None:
                fails.append("state.updated.rejected-valid")
            elif not ok and got is not None:
                fails.append("state.updated.accepted-invalid")
            elif ok:
                known = {a[0] for a in field(ref.classes[cid], "attrs")}
                for name in exp:
                    if name not in got or show(got[name]) != show(exp[name]):
                        fails.append("state.updated.named-not-replaced" if name in kw and name in known
                                     else "state.updated.unnamed-changed")
                if list(got) != list(exp):
                    fails.append("state.updated.attributes-differ")
            if got is not None:
                vals[op[1]] = (cid, got)
        elif k in ("copy", "deepcopy"):
            if op[2] not in vals:
                continue
            cid, base = vals[op[2]]
            got = _fields(o)
            if got is None:
                fails.append(f"state.{k}.failed")
            else:
                if not same(got, base):
                    fails.append(f"state.{k}.differs")
                vals[op[1]] = (cid, got)
        elif k == "eq":
            if op[1] not in vals or op[2] not in vals:
                continue
            (ca, fa), (cb, fb) = vals[op[1]], vals[op[2]]
            want = inst_eq(ca, fa, cb, fb)
            got = o == "b1"
            eqs[(op[1], op[2])] = got
            if got and not want:
                fails.append("state.eq.true-across-classes" if ca != cb else "state.eq.true-on-different-values")
            elif want and not got:
                fails.append("state.eq.false-on-equal")
        elif k in ("set", "del"):
            if op[1] in vals and o != "rejected":
                fails.append("state.setattr-accepted" if k == "set" else "state.delattr-accepted")
        elif k == "asdict":
            if op[1] not in vals:
                continue
            got = _fields(o)
            base = {n: v for n, v in vals[op[1]][1].items() if v != "M"}
            if got is None or not same(got, base):
                fails.append("state.value-changed")
        elif k == "mutexp":
            if op[1] in vals and o != "rejected":
                fails.append("state.exposed-container-mutable")
    for (s, t), r in eqs.items():       # == is an equivalence on what was observed
        if (t, s) in eqs and eqs[(t, s)] != r:
            fails.append("state.eq.asymmetric")
        if s == t and not r:
            fails.append("state.eq.irreflexive")
        if r:
            for (t2, w), r2 in eqs.items():
                if t2 == t and r2 and (s, w) in eqs and not eqs[(s, w)]:
                    fails.append("state.eq.intransitive")
    return sorted(set(fails))


def nontrivial(case: str, out: str) -> bool:
    top = parse_case(case)
    has_container = any(depth_of(a[1]) >= 1 for c in field(top, "classes") for a in field(c[1:], "attrs"))
    outs = [o.strip() for o in out.split("|")]
    return has_container and any(o.startswith("ok") or o == "b1" for o in outs) and any(
        o.startswith("err") or o == "rejected" for o in outs)


def classify(case: str, out: str):
    top = parse_case(case)
    ops = field(top, "ops")
    outs = [o.strip() for o in out.split("|")]
    yield f"ops:{min(len(ops) // 10 * 10, 40)}+"
    seen = set()
    for op, o in zip(ops, outs):
        seen.add(f"op:{op[0]}")
        if op[0] in ("init", "upd"):
            seen.add(f"{op[0]}:{'ok' if o.startswith('ok') else 'rejected'}")
        if op[0] == "eq" and o in ("b0", "b1"):
            seen.add(f"eq:{o}")
    yield from seen
    cl = field(top, "classes")
    if field(cl[0][1:], "params"):
        yield "class:generic"
    if any("M" == a[2] or a[1] == "missing" or "missing" in show(a[1]) for a in field(cl[0][1:], "attrs")):
        yield "class:missing-typed"
    if any(a[2] != "-" for a in field(cl[0][1:], "attrs")):
        yield "class:defaulted"


def mutate(rng, case: str) -> str:
    top = parse_seq(case)
    out = []
    for e in top:
        if isinstance(e, list) and e and e[0] == "ops" and len(e) > 1:
            e = list(e)
            i = rng.randrange(1, len(e))
            r = rng.random()
            if r < 0.4:
                e.insert(i, e[rng.randrange(1, len(e))])
            elif r < 0.7 and len(e) > 2:
                del e[i]
            else:
                e.append(["asdict", "x0"])
        out.append(e)
    return " ".join(show(x) for x in out)


def shrink(case: str):
    top = parse_seq(case)
    oi = next(i for i, e in enumerate(top) if isinstance(e, list) and e[0] == "ops")
    ops = top[oi][1:]
    for j in range(len(ops)):
        yield " ".join(show(x) for x in [*top[:oi], ["ops", *ops[:j], *ops[j + 1:]], *top[oi + 1:]])
    for j, op in enumerate(ops):
        if op[0] in ("init", "upd"):
            head = 3
            for q in range(head, len(op)):
                op2 = [*op[:q], *op[q + 1:]]
                yield " ".join(show(x) for x in [*top[:oi], ["ops", *ops[:j], op2, *ops[j + 1:]], *top[oi + 1:]])
