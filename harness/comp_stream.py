"""C11 – context streams: real `ctx.stream` vs `hwmodel stream` (Haiway/Model/Stream.lean).

Case (one line):  <gens>|<steps>
 gens  ::= gen (";" gen)*      gen ::= instr ("," instr)*        generator index = position; name `g<index>`
 instr ::= y<i>   observe the context, yield i            r<k>  ctx.record(M(k))
           n<k>   observe the context, yield a falsy value: None / 0 / "" / () / False for k = 0..4 (item id 900+k)
           R<k> / X   (leading positions) the source is a plain factory function that records M(k) / raises Boom when
                  it is CALLED, before returning its async generator; elsewhere the same as r<k> / f
           o<v>   with ctx.scope("b<v>", A(v)):           O<v>  async with ctx.scope("B<v>", A(v)):
           u<v>   with ctx.updated(A(v)):                 c     close the innermost open block (rest closed at the end)
           s<g>   async for x in ctx.stream(gen_g): yield x      (only g > own index; otherwise a no-op)
           f / F  raise Boom / BaseBoom                   q     await sleep(0)
           S      ctx.spawn(feeder): a task of the source that waits until the body lets it go (before the body closes a block
                  of its own, and at its normal end); a no-op for the model.  Directed cases only (one stream at a time: with
                  interleaved streams `ctx.spawn` in a body picks up whichever stream's group is current - known-finding territory)
 steps ::= step (" " step)*    step ::= <task>:<op>       executed in this order, one at a time, loop run to quiescence
 op    ::= a<v> | w<v> | u<v>   enter `async with ctx.scope("s<step>", A(v))` / `with ctx.scope` / `with ctx.updated`
                                (v = 0: no state supplied)
           x                    leave the innermost block of that task
           m<s>g<g>             handle s = ctx.stream(gen_g)          n<s>  one __anext__
           c<s>                 await s.aclose()                      z<s>  drop the last reference (+ gc, finalisers run)
           p                    probe the context                     t<j>  start task j (copy of the current context)
           k                    the task is cancelled once and catches the CancelledError (cancelling() stays > 0)
Observation: one token per step: ok | bad | dead | <FP> | i<i>@<FP of the body at the yield> | stop | err:<Class>,
 followed by `+done:<label>:<own records>:<records merged over nested scopes>` for every completion callback fired
 in that step.  FP = <A value | dflt | MC>/<scope label | ->/<task-group owner | ->.
"""
from __future__ import annotations

import asyncio
import gc
import logging

from harness import core, vloop

PID = "C11"
LEAN_COMPONENT = "stream"
PROPS_MODULE = "Haiway.Props.C11"
ANCHORS = ["src/haiway/context/access.py (ctx.stream, ScopeContext)", "src/haiway/context/metrics.py",
           "src/haiway/context/state.py", "src/haiway/context/tasks.py"]
RULE = ("case = 1-3 generator bodies (items incl. the falsy values None/0/''/()/False, sources that are plain factory "
        "functions recording or raising when called, records, nested sync/async scopes and ctx.updated blocks around yields, "
        "nested ctx.stream, ending normally / Boom / BaseBoom) + an interleaved label sequence over 1-3 tasks "
        "(enter/leave async scope, sync scope, ctx.updated; create stream; single __anext__ calls; aclose; abandon; "
        "probes between items and after; start task; a task catching a cancellation request before/while consuming); scenario templates (creation place x consumption place x "
        "full/break+close/break+abandon/never started) + random well-formed sequences; "
        "non-trivial = some stream with >=2 items is consumed (>=2 __anext__) where the consumer's visible state differs "
        "from the state at creation (other scope, no scope, other task) AND the consumer probes between two items; "
        "distinct = by case text")
TRUSTED = ["contextvars semantics (ContextVar.set/reset tokens, one Context per task, async-generator frames run in the "
           "resumer's Context, asyncgen finaliser closes in a new task) as modelled in Haiway/Model/Stream.lean",
           "harness/comp_stream.py run_real + environment-stack monitor"]
ASSUMPTIONS = ["a generator body that iterates a nested ctx.stream does so with a plain `async for` (it does not close the "
               "inner stream itself), as the repository's own tests do",
               "one consumer task per stream (all __anext__/aclose calls of a stream come from the task that made the first one)",
               "generator bodies do not catch exceptions and do not await anything but sleep(0)",
               "task-group identity is read from TaskGroupContext._context when that private name exists "
               "(otherwise the group component of the fingerprint is masked on both sides)",
               "repaired metrics registration (a completed scope adopts no nested scope) and try/finally scope exit"]

_T = None


def types():
    global _T
    if _T is None:
        from haiway import State

        class A(State):
            v: int = 0

        class M(State):
            ks: tuple[int, ...] = ()

        _T = (A, M)
    return _T


FALSY = [None, 0, "", (), False]


class Boom(Exception):
    pass


class BaseBoom(BaseException):
    pass


def out_name(e) -> str:
    if isinstance(e, asyncio.CancelledError):
        return "Cancelled"
    if isinstance(e, BaseExceptionGroup):
        return f"Group{len(e.exceptions)}"
    return type(e).__name__


def num(s: str) -> int:
    return int(s) if s.isdigit() else 0


def parse(case: str):
    gens_s, steps_s = case.split("|")
    gens = [[i for i in g.split(",") if i] for g in gens_s.split(";")]
    steps = []
    for tok in steps_s.split():
        t, op = tok.split(":")
        if not op or op[0] not in "awuxmnczptk" or (op[0] == "m" and len(op[1:].split("g")) != 2):
            raise ValueError(tok)
        steps.append((num(t), op))
    return gens, steps


# ------------------------------------------------------------------------------------------------
# real code

class _Capture(logging.Handler):
    def __init__(self):
        super().__init__(level=logging.DEBUG)
        self.last = None

    def emit(self, record):
        try:
            self.last = record.getMessage()
        except Exception:  # noqa: BLE001
            self.last = None


class Run:
    def __init__(self):
        from haiway import MissingContext, MissingState, ctx

        self.ctx, self.MissingContext, self.MissingState = ctx, MissingContext, MissingState
        self.A, self.M = types()
        self.loop = vloop.new_loop()
        self.cap = _Capture()
        self.root = logging.getLogger()
        self.old_level = self.root.level
        self.root.setLevel(logging.INFO)
        self.root.addHandler(self.cap)
        self.events: list[str] = []
        self.group_owner: dict[int, str] = {}
        self.keep: list = []
        self.streams: dict[int, object] = {}
        self.consumer: dict[int, int] = {}
        self.known: set[int] = set()
        self.finished: set[int] = set()
        self.falsy_fp = "-"
        self.tasks: dict[int, asyncio.Task] = {}
        try:
            from haiway.context.tasks import TaskGroupContext

            self._gvar = TaskGroupContext._context  # peek only; a rename degrades the fingerprint, never alarms
        except Exception:  # noqa: BLE001
            self._gvar = None

    def close(self):
        self.streams.clear()
        self.root.removeHandler(self.cap)
        self.root.setLevel(self.old_level)
        vloop.close_loop(self.loop)

    def fingerprint(self) -> str:
        try:
            o = self.ctx.state(self.A)
            st = str(o.v) if o.v != 0 else "dflt"
        except self.MissingState:
            st = "MS"
        except self.MissingContext:
            st = "MC"
        except BaseException as e:  # noqa: BLE001
            st = "X" + type(e).__name__
        self.cap.last = None
        label = "-"
        try:
            self.ctx.log_info("fp")
            msg = self.cap.last
            if msg and msg.startswith("["):
                parts = msg.split("] [")
                if len(parts) >= 3:
                    label = parts[1]
        except BaseException:  # noqa: BLE001
            label = "Xlog"
        grp = "?"
        if self._gvar is not None:
            try:
                grp = self.group_owner.get(id(self._gvar.get()), "u")
            except LookupError:
                grp = "-"
        return f"{st}/{label}/{grp}"

    def note_group(self, owner):
        if self._gvar is not None:
            try:
                g = self._gvar.get()
                if id(g) not in self.group_owner:
                    self.group_owner[id(g)] = owner
                    self.keep.append(g)
            except LookupError:
                pass

    def completion(self):
        M = self.M

        def cat(cur, new):
            return M(ks=cur.ks + new.ks) if isinstance(cur, M) else new

        def done(metrics):
            try:
                m = metrics.read(M)
                ks = ".".join(str(k) for k in m.ks) if m is not None else ""
            except BaseException as e:  # noqa: BLE001
                ks = "X" + type(e).__name__
            try:
                mm = [x for x in metrics.metrics(merge=cat) if isinstance(x, M)]
                mk = ".".join(str(k) for k in mm[0].ks) if mm else ""
            except BaseException as e:  # noqa: BLE001
                mk = "X" + type(e).__name__
            self.events.append(f"done:{metrics.label}:{ks}:{mk}")

        return done

    def make_gen(self, g, gens):
        run = self
        ctx, A, M = self.ctx, self.A, self.M
        instrs = list(gens[g])
        call_time = []
        while instrs and instrs[0][0] in "RX":
            call_time.append(instrs.pop(0))

        def factory(sid):
            """a plain function returning the async generator: what it does, it does when it is called"""
            for ins in call_time:
                if ins[0] == "R":
                    ctx.record(M(ks=(num(ins[1:]),)), merge=lambda l, r: M(ks=l.ks + r.ks))
                else:
                    raise Boom("factory")
            return body(sid)

        async def body(sid):
            run.note_group(f"g{g}.{sid}")
            stack = []
            feeders = []

            def release_feeders():
                while feeders:
                    f_ = feeders.pop()
                    if not f_.done():
                        f_.set_result(None)

            try:
                for ins in instrs:
                    k, arg = ins[0], num(ins[1:])
                    if k == "y":
                        yield f"i{arg}@{run.fingerprint()}"
                    elif k == "n":
                        run.falsy_fp = run.fingerprint()
                        yield FALSY[arg % len(FALSY)]
                    elif k in "rR":
                        ctx.record(M(ks=(arg,)), merge=lambda l, r: M(ks=l.ks + r.ks))
                    elif k == "o":
                        cm = ctx.scope(f"b{arg}", *([A(v=arg)] if arg else []), completion=run.completion())
                        cm.__enter__()
                        stack.append(("s", cm))
                    elif k == "O":
                        cm = ctx.scope(f"B{arg}", *([A(v=arg)] if arg else []), completion=run.completion())
                        await cm.__aenter__()
                        run.note_group(f"B{arg}")
                        stack.append(("a", cm))
                    elif k == "u":
                        cm = ctx.updated(*([A(v=arg)] if arg else []))
                        cm.__enter__()
                        stack.append(("s", cm))
                    elif k == "c":
                        release_feeders()
                        if stack:
                            kind, cm = stack.pop()
                            if kind == "a":
                                await cm.__aexit__(None, None, None)
                            else:
                                cm.__exit__(None, None, None)
                    elif k == "s":
                        if arg > g and arg < len(gens):
                            async for item in ctx.stream(run.make_gen(arg, gens), f"{sid}.{arg}"):
                                yield item
                    elif k in "fX":
                        raise Boom("body")
                    elif k == "F":
                        raise BaseBoom("body")
                    elif k == "q":
                        await asyncio.sleep(0)
                    elif k == "S":
                        # a feeder task of the source, spawned into whatever task group is current for the body; it waits until
                        # the body lets it go (before closing a block of its own / at its normal end) - when the stream is closed
                        # or fails while the feeder still waits, leaving the scope has to cancel it, not wait for it
                        gate = asyncio.get_running_loop().create_future()
                        feeders.append(gate)

                        async def feeder(gate=gate):
                            await gate

                        ctx.spawn(feeder)
                release_feeders()
                while stack:  # blocks still open at the end of the body are closed there
                    kind, cm = stack.pop()
                    if kind == "a":
                        await cm.__aexit__(None, None, None)
                    else:
                        cm.__exit__(None, None, None)
            except BaseException as e:
                # what Python's `with` statements do: innermost first, with the exception in flight
                while stack:
                    kind, cm = stack.pop()
                    try:
                        if kind == "a":
                            await cm.__aexit__(type(e), e, e.__traceback__)
                        else:
                            cm.__exit__(type(e), e, e.__traceback__)
                    except BaseException as e2:  # noqa: BLE001
                        e = e2
                raise e

        factory.__name__ = body.__name__ = f"g{g}"
        return factory if call_time else body

    async def interp(self, tid, inbox, results):
        frames = []
        while True:
            fut = self.loop.create_future()
            inbox[tid] = fut
            op, gens, idx = await fut
            if op is None:
                return
            try:
                res = await self.do(tid, op, gens, idx, frames, inbox, results)
            except BaseException as e:  # noqa: BLE001
                res = "err:" + out_name(e)
            results.append(res)

    async def do(self, tid, op, gens, idx, frames, inbox, results):
        ctx, A = self.ctx, self.A
        k, arg = op[0], op[1:]
        if k in "aw":
            v = num(arg)
            cm = ctx.scope(f"s{idx}", *([A(v=v)] if v else []), completion=self.completion())
            if k == "a":
                await cm.__aenter__()
                self.note_group(f"s{idx}")
                frames.append(("a", cm))
            else:
                cm.__enter__()
                frames.append(("s", cm))
            return "ok"
        if k == "u":
            v = num(arg)
            cm = ctx.updated(*([A(v=v)] if v else []))
            cm.__enter__()
            frames.append(("s", cm))
            return "ok"
        if k == "x":
            if not frames:
                return "bad"
            kind, cm = frames.pop()
            if kind == "a":
                await cm.__aexit__(None, None, None)
            else:
                cm.__exit__(None, None, None)
            return "ok"
        if k == "m":
            parts = arg.split("g")
            if len(parts) != 2:
                return "bad"
            s, g = num(parts[0]), num(parts[1])
            if s in self.known or g >= len(gens):
                return "bad"
            self.known.add(s)
            self.streams[s] = ctx.stream(self.make_gen(g, gens), str(s))
            return "ok"
        if k in "ncz":
            s = num(arg)
            if s not in self.streams:
                return "bad"
            it = self.streams[s]
            if k == "z":
                del it
                self.streams.pop(s)
                return "ok"
            running = s in self.consumer and s not in self.finished
            if running and self.consumer[s] != tid:
                return "bad"
            if k == "n":
                self.consumer.setdefault(s, tid)
                try:
                    item = await it.__anext__()
                    if isinstance(item, str) and item.startswith("i"):
                        return item
                    for idx, v in enumerate(FALSY):   # by identity / type: None, 0, "", (), False are five items
                        if item is v or (type(item) is type(v) and item == v):
                            return f"i{900 + idx}@{self.falsy_fp}"
                    return f"i?{type(item).__name__}@-"
                except StopAsyncIteration:
                    self.finished.add(s)
                    return "stop"
                except BaseException:
                    self.finished.add(s)
                    raise
            self.finished.add(s)
            await it.aclose()
            return "ok"
        if k == "p":
            return self.fingerprint()
        if k == "k":
            asyncio.current_task().cancel()
            try:
                await asyncio.sleep(0)
            except asyncio.CancelledError:
                pass    # handled: the task goes on (e.g. into its cleanup path); the request is not uncancelled
            return "ok"
        if k == "t":
            j = num(arg)
            if j in self.tasks:
                return "bad"
            self.tasks[j] = self.loop.create_task(self.interp(j, inbox, results))
            return "ok"
        return "bad"

    def run(self, case):
        gens, steps = parse(case)
        loop = self.loop
        loop.set_exception_handler(lambda _l, _c: None)
        inbox: dict[int, asyncio.Future] = {}
        out = []
        results: list[str] = []
        self.tasks[0] = loop.create_task(self.interp(0, inbox, results))
        loop.quiesce()
        for idx, (t, op) in enumerate(steps):
            fut = inbox.get(t)
            if t not in self.tasks or fut is None or fut.done() or self.tasks[t].done():
                out.append("dead")
                continue
            n0, e0 = len(results), len(self.events)
            fut.set_result((op, gens, idx))
            loop.quiesce()
            if op[0] in "cz":
                gc.collect()
                loop.quiesce()
            res = results[n0] if len(results) > n0 else "blocked"
            out.append(res + "".join("+" + e for e in self.events[e0:]))
        for t, fut in list(inbox.items()):
            if not fut.done():
                fut.set_result((None, None, None))
        loop.quiesce()
        return " ".join(out)


def run_real(case: str) -> str:
    try:
        parse(case)
    except Exception:  # noqa: BLE001
        return "bad-case"
    r = Run()
    try:
        return r.run(case)
    finally:
        r.close()


# ------------------------------------------------------------------------------------------------
# generation

def gen_body(rng, self_idx, n_gens, size):
    out, depth = [], 0
    for _ in range(size):
        r = rng.random()
        if r < 0.06:
            out.append(f"n{rng.randint(0, 4)}")
        elif r < 0.34:
            out.append(f"y{rng.randint(1, 9)}")
        elif r < 0.46:
            out.append(f"r{rng.randint(1, 9)}")
        elif r < 0.62 and depth < 3:
            out.append(rng.choice(["o", "o", "O", "u"]) + str(rng.randint(4, 9)))
            depth += 1
        elif r < 0.74 and depth > 0:
            out.append("c")
            depth -= 1
        elif r < 0.84 and self_idx + 1 < n_gens:
            out.append(f"s{rng.randint(self_idx + 1, n_gens - 1)}")
        elif r < 0.88:
            out.append("q")
        elif r < 0.93:
            out.append(rng.choice(["f", "f", "F"]))
        else:
            out.append(f"y{rng.randint(1, 9)}")
    return out


def gen_gens(rng):
    n = rng.choice([1, 1, 2, 2, 3])
    gens = []
    for g in range(n):
        body = gen_body(rng, g, n, rng.randint(1, 7))
        if rng.random() < 0.7 and sum(1 for i in body if i[0] in "yn") < 2:
            body = [rng.choice([f"y{rng.randint(1, 9)}", f"y{rng.randint(1, 9)}", f"n{rng.randint(0, 4)}"])] \
                + body + [f"y{rng.randint(1, 9)}"]
        if rng.random() < 0.12:   # a factory source: does something when it is called
            body = [rng.choice([f"R{rng.randint(1, 9)}", f"R{rng.randint(1, 9)}", "X"])] + body
        gens.append(body)
    return gens


class _Sim:
    """keeps random label sequences well-formed (no `bad`/`dead` steps except on purpose)"""

    def __init__(self, rng, n_gens):
        self.rng, self.n_gens = rng, n_gens
        self.depth = {0: 0}
        self.status: dict[int, str] = {}     # handle -> new | run | done | gone
        self.consumer: dict[int, int] = {}
        self.steps: list[str] = []
        self.nv = 0

    def val(self):
        self.nv += 1
        return self.nv if self.rng.random() < 0.85 else 0

    def emit(self, t, op):
        self.steps.append(f"{t}:{op}")

    def enter(self, t, kind=None):
        kind = kind or self.rng.choice(["a", "a", "w", "u"])
        self.emit(t, f"{kind}{self.val()}")
        self.depth[t] += 1

    def leave(self, t):
        if self.depth[t] > 0:
            self.emit(t, "x")
            self.depth[t] -= 1

    def mk(self, t, g=None):
        s = len(self.status)
        self.status[s] = "new"
        self.emit(t, f"m{s}g{self.rng.randrange(self.n_gens) if g is None else g}")
        return s

    def nxt(self, t, s):
        if self.status[s] == "new":
            self.status[s] = "run"
            self.consumer[s] = t
        self.emit(t, f"n{s}")

    def spawn(self, t):
        j = len(self.depth)
        self.depth[j] = 0
        self.emit(t, f"t{j}")
        return j

    def random_step(self):
        rng = self.rng
        t = rng.choice(list(self.depth))
        r = rng.random()
        live = [s for s, st in self.status.items() if st in ("new", "run") and self.consumer.get(s, t) == t]
        if r < 0.12 and self.depth[t] < 4:
            self.enter(t)
        elif r < 0.22:
            self.leave(t)
        elif r < 0.32 and len(self.status) < 3:
            self.mk(t)
        elif r < 0.62 and live:
            self.nxt(t, rng.choice(live))
        elif r < 0.67 and live:
            s = rng.choice(live)
            self.emit(t, f"c{s}")
            self.status[s] = "done"
        elif r < 0.71 and live:
            s = rng.choice(live)
            self.emit(t, f"z{s}")
            self.status[s] = "gone"
        elif r < 0.75 and len(self.depth) < 3:
            self.spawn(t)
        elif r < 0.765:
            self.emit(t, "k")
        elif r < 0.78:
            # deliberately ill-formed: unknown handle / foreign consumer / dead task / unbalanced leave
            self.emit(rng.choice([t, 7]), rng.choice(["n9", "c9", "z9", "x", f"t{t}", "m0g0", "n0", "c0"]))
            self.resync()
        else:
            self.emit(t, "p")

    def resync(self):
        """after an ill-formed step the bookkeeping may be off: recompute it from the step list"""
        depth = {0: 0}
        status, consumer = {}, {}
        for tok in self.steps:
            t, op = tok.split(":")
            t = int(t)
            if t not in depth:
                continue
            k, arg = op[0], op[1:]
            if k in "awu":
                depth[t] += 1
            elif k == "x":
                depth[t] = max(0, depth[t] - 1)
            elif k == "t":
                depth.setdefault(num(arg), 0)
            elif k == "m":
                s, g = (num(x) for x in arg.split("g"))
                if s not in status and g < self.n_gens:
                    status[s] = "new"
            elif k in "ncz":
                s = num(arg)
                if s not in status or status[s] == "gone":
                    continue
                if k == "z":
                    status[s] = "gone"
                elif status[s] == "run" and consumer[s] != t:
                    continue
                elif k == "n" and status[s] == "new":
                    status[s], consumer[s] = "run", t
                elif k == "c":
                    status[s] = "done"
        # handles are allocated densely by `mk`
        for s in range(max(status, default=-1) + 1):
            status.setdefault(s, "gone")
        self.depth, self.status, self.consumer = depth, status, consumer

    def finish(self):
        rng = self.rng
        for s, st in list(self.status.items()):
            if st == "run" and rng.random() < 0.6:
                t = self.consumer[s]
                for _ in range(rng.randint(1, 4)):
                    self.emit(t, f"n{s}")
                    if rng.random() < 0.3:
                        self.emit(t, "p")
        for t in sorted(self.depth, reverse=True):
            while self.depth[t] > 0:
                self.leave(t)
                if rng.random() < 0.4:
                    self.emit(t, "p")
            self.emit(t, "p")


def fmt_case(gens, steps) -> str:
    return ";".join(",".join(g) for g in gens) + "|" + " ".join(steps)


def gen_random(rng) -> str:
    gens = gen_gens(rng)
    sim = _Sim(rng, len(gens))
    for _ in range(rng.randint(6, 30)):
        sim.random_step()
    sim.finish()
    return fmt_case(gens, sim.steps)


PLACES = ["same", "other-scope", "no-scope", "other-task", "nested-deeper", "sibling-after-exit"]
MODES = ["full", "break-close", "break-abandon", "never-started-close", "never-started-abandon", "full-then-more"]


def gen_scenario(rng, place=None, mode=None) -> str:
    """creation place x consumption place x consumption mode, with probes between items and after"""
    gens = gen_gens(rng)
    place = place or rng.choice(PLACES)
    mode = mode or rng.choice(MODES)
    sim = _Sim(rng, len(gens))
    t = 0
    creator_scoped = rng.random() < 0.85
    if creator_scoped:
        sim.enter(0, "a")
        if rng.random() < 0.3:
            sim.enter(0, rng.choice(["w", "u"]))
    s = sim.mk(0, 0)
    if place == "same":
        pass
    elif place == "other-scope":
        while sim.depth[0]:
            sim.leave(0)
        sim.enter(0, "a")
    elif place == "no-scope":
        while sim.depth[0]:
            sim.leave(0)
    elif place == "other-task":
        if rng.random() < 0.5:
            while sim.depth[0]:
                sim.leave(0)
        t = sim.spawn(0)
        if rng.random() < 0.7:
            sim.enter(t, "a")
    elif place == "nested-deeper":
        sim.enter(0, rng.choice(["a", "w", "u"]))
    elif place == "sibling-after-exit":
        sim.leave(0)
        sim.enter(0, rng.choice(["a", "w"]))
    sim.emit(t, "p")
    if rng.random() < 0.12:
        sim.emit(t, "k")     # the consumer handled a cancellation before it starts draining
    n_items = rng.randint(1, 3)
    if mode in ("full", "full-then-more"):
        for _ in range(rng.randint(3, 8)):
            sim.nxt(t, s)
            if rng.random() < 0.7:
                sim.emit(t, "p")
            if rng.random() < 0.15:
                sim.enter(t)
            elif rng.random() < 0.1:
                sim.leave(t)
        if mode == "full-then-more":
            sim.emit(t, f"c{s}")
            sim.nxt(t, s)
    elif mode.startswith("break"):
        for _ in range(n_items):
            sim.nxt(t, s)
            sim.emit(t, "p")
            if rng.random() < 0.15:
                sim.enter(t)
        sim.emit(t, ("c" if mode == "break-close" else "z") + str(s))
        sim.status[s] = "done"
    else:
        sim.emit(t, ("c" if mode.endswith("close") else "z") + str(s))
        sim.status[s] = "done"
    sim.emit(t, "p")
    if rng.random() < 0.3:
        sim.enter(t, "a")
        sim.emit(t, "p")
    sim.finish()
    return fmt_case(gens, sim.steps)


def generate(rng, tier):
    n_s, n_r = (900, 1500) if tier == "quick" else (20000, 40000)
    for place in PLACES:
        for mode in MODES:
            for _ in range(2 if tier == "quick" else 8):
                yield gen_scenario(rng, place, mode)
    for _ in range(n_s):
        yield gen_scenario(rng)
    for _ in range(n_r):
        yield gen_random(rng)


# ------------------------------------------------------------------------------------------------
# the property, stated on the implementation's observation (environment stacks; no context variables, no tokens)

KNOWN_SIGNATURES = {
    "stream.body-context.state",
    "stream.consumer-context.between-items",
    "stream.abandoned.consumer-context",
    "stream.consumer-context.after-end",
    "stream.consumer-metrics.misnested",
    "stream.abandoned.scope-never-completes",
    "stream.unstarted.scope-never-completes",
    "stream.closed.nested-stream-never-completes",
}

_MODEL_CACHE: dict[str, str] = {}


def agree(case: str, model_out: str, real_out: str) -> bool:
    if len(_MODEL_CACHE) > 200000:
        _MODEL_CACHE.clear()
    _MODEL_CACHE[case] = model_out
    return canon(case, model_out, real_out) == canon(case, real_out, real_out)


def canon(case: str, out: str, real_out: str | None = None) -> str:
    """when the private task-group variable could not be read the group component is masked on both sides"""
    if "/?" not in (real_out if real_out is not None else out):
        return out
    import re

    return re.sub(r"(/[^/ +@]*)/[^ +@]*", r"\1/?", out)


def model_of(case: str) -> str | None:
    m = _MODEL_CACHE.get(case)
    if m is None:
        try:
            m = core.run_model(LEAN_COMPONENT, [case])[0]
        except Exception:  # noqa: BLE001
            return None
        _MODEL_CACHE[case] = m
    return m


def fmt_state(st) -> str:
    return "MC" if st is None else ("dflt" if st == 0 else str(st))


def new_state(cur, v):
    return v if v else (cur if cur is not None else 0)


class _Body:
    """a generator body as the property sees it: a flat list of spec events, independent of any context.
    ("open", label, v) ("close", label) ("yield", i) ("rec", k) ("sub", g) ("raise", name)"""

    @staticmethod
    def events(gens, g):
        ev, stack = [], []
        for ins in gens[g]:
            k, arg = ins[0], num(ins[1:])
            if k == "y":
                ev.append(("yield", arg))
            elif k == "n":
                ev.append(("yield", 900 + arg % len(FALSY)))
            elif k in "rR":
                ev.append(("rec", arg))
            elif k in "oOu":
                stack.append(k)
                ev.append(("open", k, arg))
            elif k == "c":
                if stack:
                    ev.append(("close", stack.pop()))
            elif k == "s":
                if g < arg < len(gens):
                    ev.append(("sub", arg))
            elif k in "fX":
                ev.append(("raise", "Boom"))
            elif k == "F":
                ev.append(("raise", "BaseBoom"))
        while stack:
            ev.append(("close", stack.pop()))
        return ev


class _SNode:
    __slots__ = ("label", "parent", "children", "finished", "completed", "own", "callback", "stream")

    def __init__(self, label, parent, callback, stream=None):
        self.label, self.parent, self.callback, self.stream = label, parent, callback, stream
        self.children, self.finished, self.completed, self.own = [], False, False, []
        while parent is not None and parent.completed:
            parent = parent.parent        # a completed scope adopts nothing: its nearest open ancestor does
        self.parent = parent
        if parent is not None:
            parent.children.append(self)

    def merged(self):
        out = list(self.own)
        for c in self.children:
            out += c.merged()
        return out


class _SStream:
    """spec-side execution of one stream: a stack of generator activations over `_Body.events`"""

    def __init__(self, gens, g, creation, node):
        self.gens, self.g, self.creation, self.node = gens, g, creation, node
        self.status = "new"
        self.consumer = None
        self.acts = []            # activations: dict(ev, pc, node, states(list), scopes(list of nodes))
        self.delivered = 0
        self.ended_by = None      # exhausted | closed | closed-unstarted | abandoned | abandoned-unstarted
        self.open_at_close = False
        self.start_stack = None

    def start(self):
        st = self.creation if self.creation is not None else 0
        self.acts = [{"ev": _Body.events(self.gens, self.g), "pc": 0, "node": self.node, "states": [st],
                      "scopes": [self.node], "g": self.g}]

    def finish_act(self, act, finished):
        for n in reversed(act["scopes"]):
            finished.append(n)

    def advance(self, finished, touched):
        """run to the next yield / end: returns ("item", i, expected_state) | ("stop",) | ("err", name)"""
        while self.acts:
            act = self.acts[-1]
            if act["pc"] >= len(act["ev"]):
                self.finish_act(act, finished)
                self.acts.pop()
                continue
            e = act["ev"][act["pc"]]
            act["pc"] += 1
            if e[0] == "yield":
                return ("item", e[1], act["states"][-1])
            if e[0] == "rec":
                next(n for n in reversed(act["scopes"]) if n is not None).own.append(e[1])
                touched.append("rec")
            elif e[0] == "open":
                k, v = e[1], e[2]
                act["states"].append(new_state(act["states"][-1], v))
                if k in "oO":
                    parent = next(n for n in reversed(act["scopes"]) if n is not None)
                    n = _SNode(("b" if k == "o" else "B") + str(v), parent, True)
                    act["scopes"].append(n)
                    touched.append("scope")
                else:
                    act["scopes"].append(None)
            elif e[0] == "close":
                act["states"].pop()
                n = act["scopes"].pop()
                if n is not None:
                    finished.append(n)
            elif e[0] == "sub":
                parent = next(n for n in reversed(act["scopes"]) if n is not None)
                n = _SNode(f"g{e[1]}", parent, False, stream=self)
                touched.append("scope")
                self.acts.append({"ev": _Body.events(self.gens, e[1]), "pc": 0, "node": n,
                                  "states": [act["states"][-1]], "scopes": [n], "g": e[1]})
            elif e[0] == "raise":
                while self.acts:
                    a = self.acts.pop()
                    for n in reversed(a["scopes"]):
                        if n is not None:
                            finished.append(n)
                return ("err", e[1])
        return ("stop",)

    def has_open_inside(self):
        """is the body suspended inside a nested stream ("nested") / only inside blocks of its own ("block")?"""
        if len(self.acts) > 1:
            return "nested"
        return "block" if any(len(a["scopes"]) > 1 for a in self.acts) else ""

    def end_all(self, finished):
        while self.acts:
            a = self.acts.pop()
            for n in reversed(a["scopes"]):
                if n is not None:
                    finished.append(n)


def split_tok(tok: str):
    parts = tok.split("+")
    return parts[0], [p for p in parts[1:]]


def fp_eq(obs: str, exp: str) -> bool:
    o, e = obs.split("/"), exp.split("/")
    if len(o) != 3:
        return False
    if o[2] == "?":
        return o[:2] == e[:2]
    return o == e


def monitor(case: str, out: str) -> list[str]:
    try:
        gens, steps = parse(case)
    except Exception:  # noqa: BLE001
        return []
    toks = out.split()
    if out.startswith("HANG") or len(toks) != len(steps):
        return ["stream.no-observation:" + out[:24]]
    model = model_of(case)
    mtoks = model.split() if model is not None and len(model.split()) == len(toks) else None
    if mtoks is not None:
        ctoks = canon(case, model, out).split()
        rtoks = canon(case, out, out).split()
    fails: set[str] = set()

    def flag(sig: str, idx: int | None = None, part: str = "base"):
        """a deviation counts under its (possibly known) signature only if the observation is the one the model of
        the code predicts at that position; anything else is a different behaviour: `.unmodelled`"""
        if mtoks is not None and idx is not None:
            mb, me = split_tok(ctoks[idx])
            rb, re_ = split_tok(rtoks[idx])
            if (part == "base" and mb != rb) or (part == "events" and sorted(me) != sorted(re_)):
                sig += ".unmodelled"
        fails.add(sig)

    root = (None, "-", "-")
    tasks = {0: {"base": root, "stack": [], "blocks": [], "reasons": set(), "lifo": []}}
    nodes: dict[str, _SNode] = {}
    streams: dict[int, _SStream] = {}
    observed_items: dict[int, list[int]] = {}
    polluted_structure = False
    exp_events_all: list[list[tuple]] = []
    obs_events_all: list[list[tuple]] = []

    def top(t):
        tk = tasks[t]
        return tk["stack"][-1] if tk["stack"] else tk["base"]

    def dirty(t, besides=None):
        return any(r for r in tasks[t]["reasons"] if besides is None or r[1] != besides)

    def scope_node(label):
        return nodes.get(label) if label != "-" else None

    def complete(finished):
        """mark finished, then the completions that follow (fixpoint), returning the callbacks due"""
        for n in finished:
            n.finished = True
        due = []
        changed = True
        while changed:
            changed = False
            for n in list(all_nodes):
                if n.finished and not n.completed and all(c.completed for c in n.children):
                    n.completed = True
                    changed = True
                    if n.callback:
                        due.append((n.label, ".".join(map(str, n.own)), ".".join(map(str, n.merged()))))
        return due

    all_nodes: list[_SNode] = []

    def mknode(label, parent, callback, stream=None):
        n = _SNode(label, parent, callback, stream)
        all_nodes.append(n)
        return n

    # `_SStream` creates nodes itself: register them lazily
    def sync_nodes():
        seen = set(map(id, all_nodes))
        frontier = list(all_nodes)
        while frontier:
            n = frontier.pop()
            for c in n.children:
                if id(c) not in seen:
                    seen.add(id(c))
                    all_nodes.append(c)
                    frontier.append(c)

    for idx, ((t, op), tok) in enumerate(zip(steps, toks)):
        base, evs = split_tok(tok)
        obs_ev = []
        for e in evs:
            p = e.split(":")
            obs_ev.append(tuple(p[1:4]) if len(p) == 4 and p[0] == "done" else ("?", e, ""))
        finished: list[_SNode] = []
        k, arg = op[0], op[1:]
        if t not in tasks:
            exp_events_all.append([])
            obs_events_all.append(obs_ev)
            continue
        tk = tasks[t]
        cur = top(t)
        if k in "awu":
            v = num(arg)
            if base != "ok":
                flag("stream.consumer-op.failed", idx)
            st = new_state(cur[0], v)
            if k == "u":
                tk["stack"].append((st, cur[1], cur[2]))
                tk["blocks"].append(("u", idx))
                tk["lifo"].append(("B", idx))
            else:
                label = f"s{idx}"
                nodes[label] = mknode(label, scope_node(cur[1]), True)
                tk["stack"].append((st, label, label if k == "a" else cur[2]))
                tk["blocks"].append((k, idx))
                tk["lifo"].append(("B", idx))
                if dirty(t):
                    polluted_structure = True
        elif k == "x":
            if tk["stack"]:
                if base != "ok":
                    flag("stream.consumer-op.failed", idx)
                kind, bidx = tk["blocks"].pop()
                tk["stack"].pop()
                tk["lifo"].remove(("B", bidx))
                if kind != "u":
                    finished.append(nodes[f"s{bidx}"])
        elif k == "t":
            j = num(arg)
            if j not in tasks:
                tasks[j] = {"base": cur, "stack": [], "blocks": [], "lifo": [],
                            "reasons": {("inherited-" + r[0].replace("inherited-", ""), -1) for r in tk["reasons"]}}
        elif k == "m":
            s, g = (num(x) for x in arg.split("g"))
            if s not in streams and g < len(gens):
                if base != "ok":
                    flag("stream.create.failed", idx)
                n = mknode(f"g{g}", scope_node(cur[1]), False)
                streams[s] = _SStream(gens, g, cur[0], n)
                n.stream = streams[s]
                observed_items[s] = []
                if dirty(t):
                    polluted_structure = True
        elif k in "ncz" and num(arg) in streams and streams[num(arg)].status != "gone":
            s = num(arg)
            ss = streams[s]
            if k == "z":
                if ss.status == "run":
                    tasks[ss.consumer]["reasons"].discard(("run", s))
                    tasks[ss.consumer]["reasons"].add(("abandoned", s))
                    ss.ended_by = "abandoned"
                    ss.end_all(finished)
                elif ss.status == "new":
                    ss.ended_by = "abandoned-unstarted"
                    finished.append(ss.node)
                ss.status = "gone"
            elif ss.status == "run" and ss.consumer != t:
                pass  # refused by the harness (`bad`): the stream has one consumer
            elif k == "n":
                if ss.status == "done":
                    if base != "stop":
                        flag("stream.terminal.not-final", idx)
                else:
                    if ss.status == "new":
                        ss.status, ss.consumer = "run", t
                        ss.start_stack = tuple(tk["lifo"]) + (("S", s),)
                        tk["lifo"].append(("S", s))
                        ss.start()
                        displaced = dirty(t)
                        tk["reasons"].add(("run", s))
                    else:
                        displaced = dirty(t, besides=s) or tuple(tk["lifo"]) != ss.start_stack
                    touched: list[str] = []
                    r = ss.advance(finished, touched)
                    if displaced and touched:
                        polluted_structure = True
                    if r[0] == "item":
                        exp_state = fmt_state(r[2])
                        if base.startswith("i") and "@" in base:
                            item, fp = base[1:].split("@", 1)
                            observed_items[s].append(num(item))
                            if num(item) != r[1]:
                                flag("stream.items.wrong-item", idx)
                            if fp.split("/")[0] != exp_state:
                                flag("stream.body-context.state", idx)
                        else:
                            flag("stream.items.lost" if base == "stop" else "stream.terminal.wrong", idx)
                            ss.end_all(finished)
                            ss.status = "done"
                            tk["reasons"].discard(("run", s))
                            tk["lifo"].remove(("S", s))
                    else:
                        exp = "stop" if r[0] == "stop" else "err:" + r[1]
                        if base != exp:
                            flag("stream.items.unexpected-item" if base.startswith("i") else "stream.terminal.wrong", idx)
                        ss.status, ss.ended_by = "done", "exhausted"
                        finished.append(ss.node) if not ss.node.finished and ss.node not in finished else None
                        tk["reasons"].discard(("run", s))
                        if tuple(tk["lifo"]) != ss.start_stack:
                            tk["reasons"].add(("afterend", s))
                        tk["lifo"].remove(("S", s))
            elif k == "c":
                if base != "ok":
                    flag("stream.close.failed", idx)
                if ss.status == "new":
                    ss.status, ss.ended_by = "done", "closed-unstarted"
                    finished.append(ss.node)
                elif ss.status == "run":
                    ss.open_at_close = ss.has_open_inside()
                    ss.end_all(finished)
                    ss.status, ss.ended_by = "done", "closed"
                    tk["reasons"].discard(("run", s))
                    if tuple(tk["lifo"]) != ss.start_stack:
                        tk["reasons"].add(("afterend", s))
                    tk["lifo"].remove(("S", s))
        elif k == "p":
            exp = f"{fmt_state(cur[0])}/{cur[1]}/{cur[2]}"
            if not fp_eq(base, exp):
                kinds = {r[0].replace("inherited-", "") for r in tk["reasons"]}
                if "run" in kinds:
                    flag("stream.consumer-context.between-items", idx)
                elif "abandoned" in kinds:
                    flag("stream.abandoned.consumer-context", idx)
                elif "afterend" in kinds:
                    flag("stream.consumer-context.after-end", idx)
                else:
                    flag("stream.consumer-context.unexplained", idx)
        sync_nodes()
        exp_events_all.append(complete([n for n in finished if n is not None]))
        obs_events_all.append(obs_ev)

    # items: what each consumer received must be a prefix of the generator's items (exact when exhausted)
    for s, got in observed_items.items():
        ss = streams[s]
        full = _SStream(gens, ss.g, 0, _SNode("x", None, False))
        full.start()
        want = []
        while True:
            r = full.advance([], [])
            if r[0] != "item":
                break
            want.append(r[1])
        if got != want[:len(got)]:
            if len(got) > len(want) or any(g not in want for g in got):
                fails.add("stream.items.unexpected-item")
            elif sorted(got) != got and sorted(want) == want:
                fails.add("stream.items.reordered")
            else:
                fails.add("stream.items.lost-or-duplicated")
        elif ss.ended_by == "exhausted" and got != want:
            fails.add("stream.items.lost")

    # completion callbacks: each scope completes exactly when it is left and everything nested in it has completed
    # (a stream's scope: when the stream is exhausted, closed or – through the loop's finaliser – dropped)
    if any(sorted(e) != sorted(o) for e, o in zip(exp_events_all, obs_events_all)):
        first = next(i for i, (e, o) in enumerate(zip(exp_events_all, obs_events_all)) if sorted(e) != sorted(o))
        if polluted_structure:
            flag("stream.consumer-metrics.misnested", first, "events")
        else:
            exp_labels = [x[0] for e in exp_events_all for x in e]
            obs_labels = [x[0] for o in obs_events_all for x in o]
            missing = list(exp_labels)
            for lb in obs_labels:
                if lb in missing:
                    missing.remove(lb)
            causes = set()
            if missing and sorted(set(obs_labels) - set(exp_labels)) == []:
                for ss in streams.values():
                    if ss.ended_by == "abandoned":
                        causes.add("stream.abandoned.scope-never-completes")
                    elif ss.ended_by in ("closed-unstarted", "abandoned-unstarted"):
                        causes.add("stream.unstarted.scope-never-completes")
                    elif ss.ended_by == "closed" and ss.open_at_close == "nested":
                        causes.add("stream.closed.nested-stream-never-completes")
                    # (closed while suspended inside a block of its own is repaired: no longer a cause – if it ever
                    #  fails to complete again it is reported as `stream.scope-not-completed`)
            if causes:
                for c in causes:
                    flag(c, first, "events")
            elif missing:
                flag("stream.scope-not-completed", first, "events")
            else:
                flag("stream.completion.unexplained", first, "events")
    return sorted(fails)


# ------------------------------------------------------------------------------------------------
# evidence helpers, corpus, neighbours, shrinking

def _spec_walk(case: str):
    """(creation state, consumer state at first __anext__, number of items, probes between items) per stream"""
    gens, steps = parse(case)
    tasks = {0: {"base": None, "stack": []}}
    info = {}
    for t, op in steps:
        if t not in tasks:
            continue
        tk = tasks[t]
        cur = tk["stack"][-1] if tk["stack"] else tk["base"]
        k, arg = op[0], op[1:]
        if k in "awu":
            tk["stack"].append(new_state(cur, num(arg)))
        elif k == "x":
            if tk["stack"]:
                tk["stack"].pop()
        elif k == "t":
            tasks.setdefault(num(arg), {"base": cur, "stack": []})
        elif k == "m":
            s, g = (num(x) for x in arg.split("g"))
            if s not in info and g < len(gens):
                info[s] = {"created": cur, "first": "unset", "nexts": 0, "consumer": None, "between": 0, "open": True,
                           "creator": t}
        elif k == "n" and num(arg) in info and info[num(arg)]["open"]:
            i = info[num(arg)]
            if i["consumer"] is None:
                i["consumer"], i["first"] = t, cur
            if i["consumer"] == t:
                i["nexts"] += 1
        elif k in "cz" and num(arg) in info:
            info[num(arg)]["open"] = False
        elif k == "p":
            for i in info.values():
                if i["open"] and i["consumer"] == t and i["nexts"] >= 1:
                    i["between"] += 1
    return info


def nontrivial(case: str, out: str) -> bool:
    try:
        info = _spec_walk(case)
    except Exception:  # noqa: BLE001
        return False
    items = sum(1 for tok in out.split() if tok.startswith("i") and "@" in tok)
    return items >= 2 and any(i["nexts"] >= 2 and i["between"] >= 1 and i["first"] != "unset" and i["first"] != i["created"]
                              for i in info.values())


def classify(case: str, out: str):
    gens, steps = parse(case)
    yield f"gens:{len(gens)}"
    yield f"steps:{min(len(steps) // 5 * 5, 40)}"
    yield f"tasks:{len({t for t, _ in steps})}"
    for k in {i[0] for g in gens for i in g}:
        yield f"body:{k}"
    for k in {op[0] for _, op in steps}:
        yield f"op:{k}"
    for i in _spec_walk(case).values():
        if i["consumer"] is None:
            yield "consume:never-started"
        elif i["consumer"] != i["creator"]:
            yield "consume:other-task"
        elif i["first"] is None:
            yield "consume:no-scope"
        elif i["first"] == i["created"]:
            yield "consume:same-state"
        else:
            yield "consume:other-state"
    for tok in out.split():
        b = tok.split("+")[0]
        if b.startswith("err:"):
            yield "obs:" + b
        elif b in ("stop", "bad", "dead"):
            yield "obs:" + b
    for s in monitor(case, out):
        yield "dev:" + s


def corpus():
    return [
        # the three registered witnesses of the known finding
        "y1,y2|0:a1 0:m0g0 0:x 0:a2 0:p 0:n0 0:p 0:n0 0:p 0:n0 0:p 0:x 0:p",      # body reads the consumer's state
        "y1,y2|0:a1 0:m0g0 0:p 0:n0 0:p 0:n0 0:n0 0:p 0:x 0:p",                    # consumer inside the stream's scope
        "y1,y2|0:a1 0:m0g0 0:n0 0:z0 0:p 0:x 0:p",                                  # abandoned: consumer left inside
        # further manifestations
        "y1,y2|0:a1 0:m0g0 0:n0 0:a2 0:n0 0:n0 0:p 0:x 0:p 0:x 0:p",               # stream ends in another nesting
        "r5,y1,r6,y2|0:a1 0:m0g0 0:n0 0:a2 0:n0 0:n0 0:x 0:x",                      # record lands in the consumer's scope
        "S,y1,y2|0:a1 0:m0g0 0:n0 0:p 0:c0 0:p 0:x 0:p",                            # closed while a feeder task of the source waits
        "S,y1,f|0:a1 0:m0g0 0:n0 0:n0 0:p 0:x 0:p",                                  # the source fails while its feeder waits
        "S,y1,y2|0:a1 0:m0g0 0:n0 0:n0 0:n0 0:p 0:x 0:p",                            # exhausted: the feeder was let go
        "y1,S,y2,S,y3|0:a1 0:m0g0 0:n0 0:n0 0:c0 0:p 0:x 0:p",
        "O5,S,y1,c,y2|0:a1 0:m0g0 0:n0 0:c0 0:p 0:x 0:p",                            # the feeder belongs to a scope of the body's own
        "O5,S,y1,c,y2|0:a1 0:m0g0 0:n0 0:n0 0:n0 0:p 0:x 0:p",
        "S,y1,F|0:a1 0:m0g0 0:n0 0:n0 0:p 0:x 0:p",
        "S,y1,y2|0:m0g0 0:n0 0:c0 0:p",                                              # no scope around the consumer
        "S,y1,y2|0:a1 0:t1 1:m0g0 1:n0 1:c0 1:p 0:x 0:p",                            # consumed and closed by a child task
        "y1,y2|0:a1 0:m0g0 0:c0 0:p 0:x 0:p",                                        # never started, closed
        "y1,y2|0:a1 0:m0g0 0:z0 0:p 0:x 0:p",                                        # never started, dropped
        "y1,s1,y4;y2,y3|0:a1 0:m0g0 0:n0 0:n0 0:p 0:c0 0:p 0:x 0:p",                # closed inside a nested stream
        # fixed: closed while the body is suspended inside a block of its own (the wrapper closes the source generator)
        "o5,y1,y2,c|0:a1 0:m0g0 0:n0 0:p 0:c0 0:p 0:x 0:p",
        "O5,u6,y1,r3,y2|0:a1 0:m0g0 0:n0 0:c0 0:p 0:x 0:p",
        # what must hold
        "y1,y2,y3|0:a1 0:m0g0 0:k 0:n0 0:n0 0:n0 0:n0 0:x",                         # consumer caught a cancellation before
        "y1,y2|0:a1 0:m0g0 0:n0 0:k 0:p 0:n0 0:n0 0:x 0:p",                         # ... or between items
        "y1,n0,y2,n1,n2,n3,n4,y3|0:a1 0:m0g0 0:n0 0:n0 0:n0 0:n0 0:n0 0:n0 0:n0 0:n0 0:n0 0:x",   # falsy items are items
        "n0,f|0:m0g0 0:n0 0:n0 0:n0",                                                # None, then the exception
        "R5,y1,r6,y2|0:a1 0:m0g0 0:x 0:a2 0:n0 0:n0 0:n0 0:x",                      # factory records at call time: stream's scope
        "X,y1|0:a1 0:m0g0 0:n0 0:n0 0:x",                                            # factory raises at call time: scope still ends
        "y1,s1,y3;R4,n0,y2|0:a1 0:m0g0 0:n0 0:n0 0:n0 0:n0 0:n0 0:x",              # nested factory source
        "y1,y2,y3|0:a1 0:m0g0 0:n0 0:n0 0:n0 0:n0 0:n0 0:x",                        # items, end, stop again
        "y1,f,y2|0:a1 0:m0g0 0:n0 0:n0 0:n0 0:x",                                    # exception ends the stream
        "y1,F|0:m0g0 0:n0 0:n0 0:n0",                                                # BaseException
        "y1,s1,y4;y2,f|0:a1 0:m0g0 0:n0 0:n0 0:n0 0:n0 0:x",                        # failing nested stream
        "y1,s1,y4;y2,y3|0:a1 0:m0g0 0:n0 0:n0 0:n0 0:n0 0:n0 0:p 0:x",              # nested stream, full
        "o5,y1,r7,c,y2,O6,y3,c|0:a1 0:m0g0 0:n0 0:p 0:n0 0:p 0:n0 0:p 0:n0 0:p 0:x",  # body scopes, completion order
        "r1,y1,r2,y2|0:a1 0:m0g0 0:n0 0:n0 0:n0 0:x",                                # records reach the creator's scope
        "y1,y2|0:a1 0:m0g0 0:n0 0:c0 0:p 0:x 0:p",                                   # early break + aclose
        "y1,y2|0:a1 0:m0g0 0:t1 0:x 1:a2 1:n0 1:p 1:n0 1:n0 1:p 1:x 0:p",          # consumed by another task
        "y1,y2|0:m0g0 0:n0 0:p 0:n0 0:n0 0:p",                                       # no scope anywhere
        "y1,y2;y3|0:a1 0:m0g0 0:m1g1 0:n0 0:n1 0:n0 0:n1 0:n0 0:p 0:x",            # two streams interleaved
        "y1,y2|0:a1 0:m0g0 0:n0 0:x 0:n0 0:n0 0:p 0:a2 0:p 0:x 0:p",               # creator scope left mid-stream
    ]


def mutate(rng, case: str) -> str:
    gens, steps = parse(case)
    gens = [list(g) for g in gens]
    toks = [f"{t}:{op}" for t, op in steps]
    r = rng.random()
    if r < 0.25:
        return gen_scenario(rng)
    if r < 0.4:
        return gen_random(rng)
    if r < 0.6 and toks:
        toks.insert(rng.randint(0, len(toks)), rng.choice(["0:p", "0:n0", "0:x", "0:a7", "0:c0", "0:z0", "1:p", "0:t1", "1:n0"]))
    elif r < 0.75 and len(toks) > 1:
        del toks[rng.randrange(len(toks))]
    elif r < 0.9:
        g = rng.randrange(len(gens))
        gens[g].insert(rng.randint(0, len(gens[g])), rng.choice(["y3", "r4", "o6", "c", "f", "q", "u8"]))
    elif len(toks) > 1:
        i = rng.randrange(len(toks) - 1)
        toks[i], toks[i + 1] = toks[i + 1], toks[i]
    return fmt_case(gens, toks)


def shrink(case: str):
    gens, steps = parse(case)
    toks = [f"{t}:{op}" for t, op in steps]
    for i in range(len(toks)):
        yield fmt_case(gens, toks[:i] + toks[i + 1:])
    for g in range(len(gens)):
        for i in range(len(gens[g])):
            yield fmt_case([b[:i] + b[i + 1:] if j == g else b for j, b in enumerate(gens)], toks)
    if len(gens) > 1 and not any(i.startswith("s") for b in gens for i in b) \
            and not any(op.endswith(f"g{len(gens) - 1}") for _, op in steps):
        yield fmt_case(gens[:-1], toks)
