"""C03 – tasks inherit a context snapshot and never observe each other's scopes: 2-4 concurrently running tasks,
interleaved at every label, real ctx.spawn / create_task vs `hwmodel tasks`."""
from __future__ import annotations

from harness import scopestate_common as sc
from harness.scopestate_common import (ANCHORS, ASSUMPTIONS, LEAN_COMPONENT, TRUSTED, classify, monitor,  # noqa: F401
                                       run_real, shrink)

PID = "C03"
PROPS_MODULE = "Haiway.Props.C03"
RULE = ("case = well-formed interleaved label sequence of 2-4 tasks (started by ctx.spawn or loop.create_task at arbitrary "
        "points, each entering its own nesting of scopes/updates, the schedule = the interleaving, one label per turn); "
        "non-trivial = >=2 tasks with overlapping lifetimes each entering a block that supplies the same type (different "
        "values) while the other is alive; distinct = by case text")

C = "ctor=1100001 "


def model_input(case: str, out: str) -> str:
    return sc.strip_holds(case)      # where a scope object was constructed is invisible to the model (and must be to the code)



def extra_obligations():
    """`TaskGroupContext.run` (= ctx.spawn) regenerated from /repo's tasks.py as a MiniPy term: Lean re-checks that the new task
    is created with a fresh snapshot of the spawner's context, `copy_context()` called exactly once at the spawn and handed over
    as `context=` - what the `Tasks` model takes task creation to be"""
    from harness import core, regen

    return regen.check("spawn", core.REPO, core.LEAN)


def corpus():
    return [
        # shared long-lived state instances on top of many short-lived root scopes
        sc.churn_case(40), sc.churn_case(80, "SUA"), sc.churn_case(120, "US"),
        sc.churn_watch_case(40), sc.churn_watch_case(90, "SUA", 3), sc.churn_watch_case(60, "AU", 2),
        C + "E0.1.A.0:1 Ws0 Ws0 E1.2.U.0:2 E0.3.U.0:3 E2.4.S.0:4 P0.0.0 P1.0.0 P2.0.0 L1.2 P1.0.0 L0.3 P0.0.0 P2.0.0 L2.4 P2.0.0 F1 F2 L0.1",
        # child started earlier does not see the parent's later scope; child outliving the parent's scope keeps its snapshot
        C + "E0.1.S.0:1 Wc0 E0.2.U.0:2 P1.0.0 L0.2 L0.1 P1.0.0 P0.0.0 E1.3.U.1:5 P1.1.0 P0.1.0 L1.3 F1",
        # detached spawn outside any scope
        C + "Ws0 P1.0.0 E1.1.S.0:1 P1.0.0 P0.0.0 L1.1 F1",
        # grandchild inherits through the child
        C + "E0.1.A.2:1 Ws0 E1.2.A.2:2 Ws1 P2.2.0 L1.2 P2.2.0 P1.2.0 F2 F1 L0.1".replace("L1.2 P2.2.0 P1.2.0 F2", "P2.2.0 F2 L1.2 P1.2.0"),
    ]


def generate(rng, tier):
    n = 2000 if tier == "quick" else 50000
    for _ in range(n):
        yield sc.gen_case(rng, rng.randint(2, 4), rng.randint(1, 4), rng.randint(3, 10), rng.randint(15, 50))


def mutate(rng, case):
    return sc.gen_case(rng, rng.randint(2, 4), rng.randint(1, 4), rng.randint(3, 10), rng.randint(10, 40))


def nontrivial(case: str, out: str) -> bool:
    labels = case.split()[1:]
    alive = {0}
    n = 1
    open_tys: dict[int, list[set]] = {}
    for l in labels:
        t = sc.task_of(l)
        if l[0] == "W":
            alive.add(n)
            n += 1
        elif l[0] == "F":
            alive.discard(t)
        elif l[0] == "E":
            tys = {i[0] for p in l.split(".")[3].split("/") for i in sc.parse_insts(p)}
            open_tys.setdefault(t, []).append(tys)
            for u, st in open_tys.items():
                if u != t and u in alive and any(tys & s for s in st):
                    return True
        elif l[0] == "L":
            open_tys[t].pop()
    return False
