"""C15 – throttle: real `haiway.throttle` vs `hwmodel throttle`, exact virtual time.

case   = `<limit|-> <period> <gap>:<duration>:<outcome>*`            (see lean/Driver/Throttle.lean)
output = `<start>/<caller outcome>/<finish>` per call + ` order=<call indices in start order>`
         followed (implementation only, stripped by `canon`) by ` args=<bit per call>`.
"""
from __future__ import annotations

import asyncio
import itertools
from datetime import timedelta

from harness import core, vloop

PID = "C15"
LEAN_COMPONENT = "throttle"
PROPS_MODULE = "Haiway.Props.C15"
ANCHORS = ["src/haiway/helpers/throttling.py"]
RULE = ("case = limit x period (float / int / timedelta) x arrival pattern (gap to the previous arrival, function duration, "
        "function outcome value/Exception/BaseException per call), callers at one instant created in index order. "
        "quick: 4000 patterns of <= 12 calls (bursts, steady streams, gaps at period-1/period/period+1, mixtures), limits 1-4, "
        "periods 1-10. thorough: every gap vector over 0..period+1 for <= 6 calls, periods 2 and 3, limits 1-4 (durations, "
        "outcomes and period form rotating) + 200000 random patterns. "
        "monitor: sliding half-open windows over the observed starts, start order = arrival order, start on arrival when "
        "nothing forces a wait and otherwise at the first instant nothing forces a wait, every call ran once and its caller "
        "got the function's own value / exception object. "
        "non-trivial = at least one call was started later than it arrived (the throttle actually delayed something); "
        "distinct = by case text")
TRUSTED = ["asyncio.Lock FIFO hand-over and asyncio.sleep/call_later as exercised through harness/vloop.py",
           "harness/comp_throttle.py run_real + monitor"]
ASSUMPTIONS = ["arrival order = task creation order for callers arriving at the same virtual instant",
               "callers are not cancelled while waiting for their turn", "time in integer ticks (exact in floating point)"]


class Boom(Exception):
    pass


class BaseBoom(BaseException):
    pass


def setup():
    from harness.helpers_mpclock import use_real_clock_in_multiprocessing

    use_real_clock_in_multiprocessing()


def parse(case: str):
    toks = case.split()
    if len(toks) < 2:
        return None
    lim, per = toks[0], toks[1]
    bare = lim == "-"
    try:
        limit = 1 if bare else int(lim)
        if limit < 0:
            return None
        if bare:
            form, period = "f", 1
        else:
            form, period = per[0], int(per[1:])
            if form not in "fit" or period < 0:
                return None
        calls = []
        for tok in toks[2:]:
            g, d, o = tok.split(":")
            if o not in ("v", "e", "b") or int(g) < 0 or int(d) < 0:
                return None
            calls.append((int(g), int(d), o))
    except (ValueError, IndexError):
        return None
    return bare, limit, form, period, calls


SENT_K = object()


def run_real(case: str) -> str:
    from haiway import throttle

    p = parse(case)
    if p is None:
        return "bad-case"
    bare, limit, form, period, calls = p
    clock = vloop.CLOCK
    # integer-valued clock at the start of every case: `subprocess` waits in the check process go
    # through the patched `time.sleep` and can leave a load-dependent fraction on the clock, which
    # would turn exact tick arithmetic into rounding noise
    clock.now = 1000.0
    loop = vloop.new_loop()
    try:
        t0 = clock.now
        n = len(calls)
        starts: dict[int, float] = {}
        order: list[int] = []
        raised: dict[int, BaseException] = {}
        argbits = ["-"] * n
        done: dict[int, tuple[str, float]] = {}

        async def fn(i, *, key=None):
            order.append(i)
            starts.setdefault(i, clock.now - t0)
            argbits[i] = "1" if key is SENT_K else "0"
            _g, dur, out = calls[i]
            if dur:
                await asyncio.sleep(dur)
            if out == "v":
                return ("val", i)
            exc = (Boom if out == "e" else BaseBoom)(i)
            raised[i] = exc
            raise exc

        if bare:
            wrapped = throttle(fn)
        else:
            per = float(period) if form == "f" else period if form == "i" else timedelta(seconds=period)
            wrapped = throttle(limit=limit, period=per)(fn)

        async def caller(i):
            try:
                res = await wrapped(i, key=SENT_K)
                o = f"v{res[1]}" if isinstance(res, tuple) and len(res) == 2 and res[0] == "val" else "v?"
            except BaseException as exc:  # noqa: BLE001
                k = next((j for j, e in raised.items() if e is exc), None)
                o = f"x{k}" if k is not None else f"foreign:{type(exc).__name__}"
            done[i] = (o, clock.now - t0)

        t = 0
        tasks = []
        for i, (g, _d, _o) in enumerate(calls):
            t += g
            loop.advance_to(t0 + t)
            tasks.append(loop.create_task(caller(i)))
        loop.quiesce(advance=True)

        def num(x):
            return str(int(x)) if x == int(x) else str(x)

        shown = []
        for i in range(n):
            s = num(starts[i]) if i in starts else "-"
            o, f = done.get(i, ("pending", None))
            if i not in starts and o == "foreign:IndexError":
                shown.append("IndexError")
            else:
                shown.append(f"{s}/{o}/{'-' if f is None else num(f)}")
        return " ".join(shown) + " order=" + ",".join(map(str, order)) + " args=" + "".join(argbits)
    finally:
        vloop.close_loop(loop)


def canon(case: str, out: str) -> str:
    return out.split(" args=")[0]


# ----------------------------------------------------------------------------------------------
# the property, stated directly on the observed start instants / outcomes

def monitor(case: str, out: str) -> list[str]:
    p = parse(case)
    if p is None:
        return []
    bare, limit, form, period, calls = p
    if limit < 1 or period < 1:
        return []  # outside the property (limit >= 1, period > 0)
    if out.startswith("HANG") or " order=" not in out:
        return ["throttle.no-observation:" + out[:20]]
    head, tail = out.split(" order=")
    order_s, _, args = tail.partition(" args=")
    obs = head.split()
    n = len(calls)
    if len(obs) != n:
        return ["throttle.no-observation:shape"]
    arrivals, t = [], 0
    for g, _d, _o in calls:
        t += g
        arrivals.append(t)
    fails: list[str] = []
    starts: list[float | None] = []
    for i, tok in enumerate(obs):
        parts = tok.split("/")
        if len(parts) != 3:
            fails.append("throttle.call-failed-in-wrapper")
            starts.append(None)
            continue
        s, o, _f = parts
        starts.append(None if s == "-" else float(s))
        if s == "-":
            fails.append("throttle.call-never-started")
        want = f"v{i}" if calls[i][2] == "v" else f"x{i}"
        if o == "pending":
            if s != "-":
                fails.append("throttle.call-never-finished")
        elif o != want:
            fails.append("throttle.wrong-outcome")
    order = [int(x) for x in order_s.split(",") if x]
    if len(order) != len(set(order)):
        fails.append("throttle.function-invoked-twice")
    if "0" in args:
        fails.append("throttle.args-not-passed-through")
    started = sorted(s for s in starts if s is not None)
    # every half-open window [t, t+period): it suffices to slide the left end over the starts
    for k, left in enumerate(started):
        inside = sum(1 for s in started[k:] if s < left + period)
        if inside > limit:
            fails.append("throttle.window-exceeded")
            break
    # arrival order
    if order != sorted(order) or any(a is not None and b is not None and a > b for a, b in zip(starts, starts[1:])):
        fails.append("throttle.order")
    # no needless delay: on arrival, and (the same sentence read at every later instant) while waiting
    for i, (a, s) in enumerate(zip(arrivals, starts)):
        if s is None:
            continue
        if s < a:
            fails.append("throttle.started-before-arrival")
        earlier = starts[:i]
        if any(e is None for e in earlier):
            continue

        def free(t, earlier=earlier):  # no earlier call still waiting, fewer than `limit` began in (t - period, t]
            return all(e <= t for e in earlier) and sum(1 for e in earlier if e > t - period) < limit

        if free(a):
            if s != a:
                fails.append("throttle.needless-delay")
                break
            continue
        cands = sorted({e for e in earlier if e >= a} | {e + period for e in earlier if e + period >= a})
        first_free = next(t for t in cands if free(t))
        if s > first_free:
            fails.append("throttle.delayed-beyond-need")
            break
    return sorted(set(fails))


def _delays(case: str, out: str):
    p = parse(case)
    if p is None or " order=" not in out:
        return []
    t, res = 0, []
    for (g, _d, _o), tok in zip(p[4], out.split(" order=")[0].split()):
        t += g
        s = tok.split("/")[0]
        if s not in ("-", "IndexError"):
            res.append(float(s) - t)
    return res


def nontrivial(case: str, out: str) -> bool:
    return any(d > 0 for d in _delays(case, out))


def classify(case: str, out: str):
    p = parse(case)
    if p is None:
        return
    bare, limit, form, period, calls = p
    yield f"limit:{'bare' if bare else limit}"
    yield f"period-form:{form}"
    yield f"period:{period}"
    yield f"calls:{len(calls)}"
    gaps = [g for g, _, _ in calls[1:]]
    if gaps and all(g == 0 for g in gaps):
        yield "pattern:burst"
    elif gaps and len(set(gaps)) == 1:
        yield "pattern:steady"
    if any(g in (period - 1, period, period + 1) for g in gaps):
        yield "pattern:gap-at-period-boundary"
    if any(d > 0 for _, d, _ in calls):
        yield "fn:takes-time"
    if any(o != "v" for _, _, o in calls):
        yield "fn:raises"
    d = _delays(case, out)
    yield f"delayed:{min(sum(1 for x in d if x > 0), 6)}"


# ----------------------------------------------------------------------------------------------
# cases

def corpus():
    return [
        # pinned tree: nothing is ever delayed (minimal failing case first)
        "1 f5 0:0:v 0:0:v",
        "1 f10 0:0:v 0:0:v 0:0:v",
        "2 f10 0:0:v 1:0:v 1:0:v 1:0:v",
        "1 t5 0:0:v 1:0:v",
        # boundary: an entry exactly one period old is dropped (<=); a burst at the boundary is spread out
        "1 f10 0:0:v 10:0:v 0:0:v 0:0:v",
        "1 f10 0:0:v 9:0:v 1:0:v",
        "1 f10 0:0:v 11:0:v 0:0:v",
        "2 f5 0:0:v 0:0:v 5:0:v 0:0:v 0:0:v",
        "2 f5 0:0:v 0:0:v 4:0:v 1:0:v 0:0:v 0:0:v",
        "3 i4 0:0:v 0:0:v 0:0:v 4:0:v 0:0:v 0:0:v 0:0:v 1:0:v",
        # limit off by one
        "2 f10 0:0:v 0:0:v 0:0:v",
        "3 f10 0:0:v 0:0:v 0:0:v 0:0:v",
        "4 t7 0:0:v 0:0:v 0:0:v 0:0:v 0:0:v 0:0:v 0:0:v 0:0:v 0:0:v",
        # stale head after a wait: the sleeper's entry must count (deque holds limit+1 entries for a moment)
        "1 f3 0:0:v 0:0:v 0:0:v 3:0:v 0:0:v",
        "2 f3 0:0:v 0:0:v 1:0:v 0:0:v 2:0:v 1:0:v 0:0:v",
        # steady streams faster / slower than the rate
        "2 f6 0:0:v 2:0:v 2:0:v 2:0:v 2:0:v 2:0:v 2:0:v 2:0:v",
        "2 f6 0:0:v 3:0:v 3:0:v 3:0:v 3:0:v 3:0:v",
        "1 f2 0:0:v 3:0:v 3:0:v 3:0:v",
        # long-running / failing functions do not change the schedule; outcomes are the function's own
        "1 f4 0:9:e 0:0:b 0:5:v 0:0:e",
        "2 t3 0:7:v 0:0:e 0:7:b 1:0:v 0:2:e 5:0:v",
        "3 f5 0:1:e 0:1:e 0:1:e 0:1:e 6:0:v",
        # waiting queue longer than one period's worth, later idle gap, burst again
        "1 f2 0:0:v 0:0:v 0:0:v 0:0:v 0:0:v 0:0:v 20:0:v 0:0:v",
        "2 i3 1:0:v 0:0:v 0:0:v 0:0:v 0:0:v 9:0:v 0:0:v 0:0:v",
        # defaults
        "- d 0:0:v 0:0:v 1:0:v",
        "- d 2:0:e",
        "1 f1 0:0:v",
        "4 f1",
        # limit 0 is not rejected: IndexError in the wrapper (outside the property, model comparison only)
        "0 f5 1:0:v 1:0:v",
    ]


DURS = [0, 0, 0, 1, 2]
OUTS = ["v", "v", "v", "e", "b"]


def _call(rng, gap: int, period: int) -> str:
    d = rng.choice(DURS + [period, 3 * period])
    return f"{gap}:{d}:{rng.choice(OUTS)}"


def _random_case(rng) -> str:
    limit = rng.randint(1, 4)
    period = rng.choice([1, 2, 3, 3, 4, 5, 5, 7, 10])
    form = rng.choice("ffit")
    n = rng.randint(1, 12)
    style = rng.random()
    gaps: list[int] = [rng.choice([0, 0, 1, 2, period])]
    boundary = [period - 1, period, period + 1]
    while len(gaps) < n:
        if style < 0.2:      # bursts separated by boundary gaps
            k = rng.randint(1, limit + 2)
            gaps += [rng.choice(boundary + [0, 2 * period])] + [0] * (k - 1)
        elif style < 0.4:    # steady stream
            g = rng.choice([1, max(1, period // limit), max(1, period // limit) + 1, period - 1, period, period + 1, 2])
            gaps += [g] * rng.randint(2, 6)
            style = rng.random()
        elif style < 0.6:    # boundary gaps +-1 tick
            gaps.append(rng.choice(boundary + [0, 0]))
        else:                # mixture
            gaps.append(rng.choice([0, 0, 0, 1, 1, 2, 3, period - 1, period, period + 1, 2 * period, rng.randint(0, 2 * period)]))
    gaps = [max(0, g) for g in gaps[:n]]
    return " ".join([str(limit), f"{form}{period}", *(_call(rng, g, period) for g in gaps)])


def generate(rng, tier):
    if tier == "quick":
        for _ in range(4000):
            yield _random_case(rng)
        return
    k = 0
    for period in (2, 3):
        for limit in (1, 2, 3, 4):
            for n in range(1, 7):
                for first in (0, 1):
                    for rest in itertools.product(range(0, period + 2), repeat=n - 1):
                        form = "fit"[k % 3]
                        k += 1
                        toks = [f"{g}:{DURS[(k + j) % 5] if k % 4 == 0 else 0}:{OUTS[(k + 2 * j) % 5] if k % 3 == 0 else 'v'}"
                                for j, g in enumerate((first, *rest))]
                        yield " ".join([str(limit), f"{form}{period}", *toks])
    for _ in range(200000):
        yield _random_case(rng)


def mutate(rng, case: str) -> str:
    toks = case.split()
    if len(toks) < 2 or toks[0] == "-":
        return _random_case(rng)
    try:
        period = int(toks[1][1:])
    except ValueError:
        return _random_case(rng)
    r = rng.random()
    if r < 0.15:
        toks[0] = str(rng.randint(1, 4))
    elif r < 0.3:
        toks[1] = rng.choice("fit") + str(rng.choice([1, 2, 3, 5, 10]))
    elif r < 0.6 and len(toks) < 14:
        toks.insert(rng.randint(2, len(toks)), _call(rng, rng.choice([0, 0, 1, period - 1, period, period + 1]), period))
    elif len(toks) > 2:
        i = rng.randrange(2, len(toks))
        g, d, o = toks[i].split(":")
        toks[i] = f"{max(0, int(g) + rng.choice([-1, 1, -int(g), period]))}:{d}:{o}"
    return " ".join(toks)


def shrink(case: str):
    toks = case.split()
    if len(toks) < 2:
        return
    head, calls = toks[:2], [t.split(":") for t in toks[2:]]

    def join(cs):
        return " ".join(head + [":".join(c) for c in cs])

    for i in range(len(calls) - 1, -1, -1):     # drop a call, keeping later arrivals where they were
        rest = [list(c) for c in calls[:i] + calls[i + 1:]]
        if i < len(calls) - 1:
            rest[i][0] = str(int(rest[i][0]) + int(calls[i][0]))
        yield join(rest)
    for i in range(len(calls) - 1, -1, -1):     # drop a call, shifting the rest
        yield join(calls[:i] + calls[i + 1:])
    for i, c in enumerate(calls):
        if c[1] != "0":
            yield join(calls[:i] + [[c[0], "0", c[2]]] + calls[i + 1:])
        if c[2] != "v":
            yield join(calls[:i] + [[c[0], c[1], "v"]] + calls[i + 1:])
        if int(c[0]) > 0:
            yield join(calls[:i] + [["0", c[1], c[2]]] + calls[i + 1:])
            yield join(calls[:i] + [[str(int(c[0]) - 1), c[1], c[2]]] + calls[i + 1:])
    if head[0] not in ("-", "0", "1"):
        yield " ".join([str(int(head[0]) - 1), head[1], *toks[2:]])
    if head[0] != "-" and head[1][0] != "f":
        yield " ".join([head[0], "f" + head[1][1:], *toks[2:]])

