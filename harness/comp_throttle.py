"""C15 – throttle: real `haiway.throttle` vs `hwmodel throttle`, exact virtual time.

case   = `<limit|-> <period> <event>*`                                (see lean/Driver/Throttle.lean)
         all instants in ticks of 0.25 s; period f<q> = float q*0.25 | i<n> = int seconds | t<n> = timedelta(seconds=n)
         | t<d>,<s>,<ms> = timedelta(days=d, seconds=s, milliseconds=ms)
         call event   `<gap>:<duration>:<outcome>[:a|b|1|2|3]`  caller created after everything due at its arrival instant
                      happened (a, default), before the timers due then fire (b), or k single loop iterations after them
         cancel event `<gap>:x<i>[:a|b]`  cancel the caller of call i after (a) / before (b) what is due at that instant
output = `<start>/<caller outcome>/<finish>` per call + ` order=<call indices in start order>`
         followed (implementation only, stripped by `canon`) by ` args=<bit per call>`.
"""
from __future__ import annotations

import asyncio
import itertools
from datetime import timedelta

from harness import core, vloop

PID = "C15"
LEAN_COMPONENT = "throttle"
PROPS_MODULE = "Haiway.Props.C15"
ANCHORS = ["src/haiway/helpers/throttling.py"]
RULE = ("case = limit x period (float incl. fractions / int / timedelta incl. sub-second parts and whole days) x timeline of "
        "events: calls (gap to the previous event, function duration, function outcome value/Exception/BaseException, and "
        "where inside its instant the caller is created: before the timers due then, 1-3 loop iterations after they fired, "
        "or after everything settled - all tie orders against a sleeper waking / releasing the lock at that instant) and "
        "cancellations of a caller (while queued on the lock, while sleeping for its turn, while the function runs; before "
        "or after the timers of the instant); callers at one instant created in index order; exact quarter-second ticks. "
        "quick: 4000 timelines of <= 12 calls (bursts incl. >= 2 queued waiters, steady streams, gaps at "
        "period-1/period/period+1 ticks, arrivals exactly at the instant a waiting call's delay ends, cancellations aimed at "
        "waiting calls, mixtures), limits 1-4. thorough: every gap vector over 0..period+1 for <= 6 calls, periods 2 and 3 "
        "ticks, limits 1-4, four tie orders; every single cancellation (call, offset 0..period+1, tie order) on the vectors "
        "of <= 4 calls; + 200000 random timelines. "
        "monitor (over the calls that started): sliding half-open windows over the observed starts, start order = arrival "
        "order, start on arrival when nothing forces a wait and otherwise at the first instant nothing forces a wait, every "
        "call without a cancellation request ran once and its caller got the function's own value / exception object; a "
        "cancelled caller gets CancelledError or (if it was already through) the function's outcome. "
        "non-trivial = at least one call was started later than it arrived (the throttle actually delayed something); "
        "distinct = by case text")
TRUSTED = ["asyncio.Lock FIFO hand-over and asyncio.sleep/call_later as exercised through harness/vloop.py",
           "harness/comp_throttle.py run_real + monitor"]
ASSUMPTIONS = ["arrival order = task creation order for callers arriving at the same virtual instant",
               "time in quarter-second ticks (multiples of 0.25 s, exact in floating point)"]


class Boom(Exception):
    pass


class BaseBoom(BaseException):
    pass


TICK = 0.25  # seconds per tick
CALL_MODES = ("a", "b", "1", "2", "3")


def parse_period(tok: str):
    """-> (form, python-constructor args, period in ticks)"""
    form, body = tok[0], tok[1:]
    if form == "f":
        q = int(body)
        return ("f", q, q)
    if form == "F":
        # fine time unit: the float period `q * 2**-22` s (a fraction of a microsecond per tick) and every instant of the case in
        # ticks of 2**-22 s - a period is a float number of seconds, not a whole number of microseconds
        q = int(body)
        return ("F", q, q)
    if form == "i":
        n = int(body)
        return ("i", n, 4 * n)
    if form == "t":
        parts = [int(x) for x in body.split(",")]
        if len(parts) == 1:
            parts = [0, parts[0], 0]
        d, sec, ms = parts
        if ms % 250 or min(parts) < 0:
            raise ValueError(tok)
        return ("t", (d, sec, ms), (d * 86400 + sec) * 4 + ms // 250)
    raise ValueError(tok)


class Call:
    __slots__ = ("t", "dur", "out", "mode", "cancel")

    def __init__(self, t, dur, out, mode):
        self.t, self.dur, self.out, self.mode, self.cancel = t, dur, out, mode, None  # cancel = (time, before) of the first request


def parse_events(toks):
    """-> (calls, events); events = ("call", index) | ("cancel", index, time, before) in timeline order"""
    t = 0
    calls: list[Call] = []
    events = []
    for tok in toks:
        parts = tok.split(":")
        if len(parts) < 2:
            raise ValueError(tok)
        g = int(parts[0])
        if g < 0:
            raise ValueError(tok)
        if parts[1].startswith("x"):
            i = int(parts[1][1:])
            mode = parts[2] if len(parts) == 3 else "a"
            if len(parts) > 3 or mode not in ("a", "b") or not 0 <= i < len(calls) or (mode == "b" and g == 0):
                raise ValueError(tok)
            t += g
            if calls[i].cancel is None:
                calls[i].cancel = (t, mode == "b")
            events.append(("cancel", i, t, mode == "b"))
        else:
            if len(parts) == 3:
                parts.append("a")
            if len(parts) != 4:
                raise ValueError(tok)
            d, o, mode = int(parts[1]), parts[2], parts[3]
            if o not in ("v", "e", "b") or mode not in CALL_MODES or d < 0:
                raise ValueError(tok)
            t += g
            calls.append(Call(t, d, o, mode))
            events.append(("call", len(calls) - 1))
    return calls, events


def parse(case: str):
    toks = case.split()
    if len(toks) < 2:
        return None
    lim, per = toks[0], toks[1]
    bare = lim == "-"
    try:
        limit = 1 if bare else int(lim)
        if limit < 0:
            return None
        form, pargs, period = ("i", 1, 4) if bare else parse_period(per)
        calls, events = parse_events(toks[2:])
    except (ValueError, IndexError):
        return None
    return bare, limit, (form, pargs), period, calls, events


def advance_before(loop, t: float) -> None:
    """Move the virtual clock to `t`, firing every timer due strictly before `t` but none of those due
    at `t` itself: what the harness does next happens *before* the sleepers of that instant wake."""
    clock = vloop.CLOCK
    while True:
        loop.quiesce()
        loop._drop_cancelled()
        if loop._scheduled and loop._scheduled[0]._when < t:
            clock.now = max(clock.now, loop._scheduled[0]._when)
        else:
            clock.now = max(clock.now, t)
            return


def one_iteration(loop) -> None:
    loop.call_soon(loop.stop)
    loop.run_forever()


SENT_K = object()


def run_real(case: str) -> str:
    from haiway import throttle

    p = parse(case)
    if p is None:
        return "bad-case"
    bare, limit, (form, pargs), period, calls, events = p
    tick = 2.0 ** -22 if form == "F" else TICK   # seconds per tick of this case
    clock = vloop.CLOCK
    loop = vloop.new_loop()   # also resets the clock to an integer instant
    try:
        t0 = clock.now
        n = len(calls)
        starts: dict[int, float] = {}
        order: list[int] = []
        raised: dict[int, BaseException] = {}
        argbits = ["-"] * n
        done: dict[int, tuple[str, float]] = {}

        def ticks() -> float:
            return (clock.now - t0) / tick

        async def fn(i, *, key=None):
            order.append(i)
            starts.setdefault(i, ticks())
            argbits[i] = "1" if key is SENT_K else "0"
            if calls[i].dur:
                await asyncio.sleep(calls[i].dur * tick)
            if calls[i].out == "v":
                return ("val", i)
            exc = (Boom if calls[i].out == "e" else BaseBoom)(i)
            raised[i] = exc
            raise exc

        if bare:
            wrapped = throttle(fn)
        else:
            if form in ("f", "F"):
                per = pargs * tick
            elif form == "i":
                per = pargs
            else:
                per = timedelta(days=pargs[0], seconds=pargs[1], milliseconds=pargs[2])
            wrapped = throttle(limit=limit, period=per)(fn)

        async def caller(i):
            try:
                res = await wrapped(i, key=SENT_K)
                o = f"v{res[1]}" if isinstance(res, tuple) and len(res) == 2 and res[0] == "val" else "v?"
            except asyncio.CancelledError:
                o = "c"
            except BaseException as exc:  # noqa: BLE001
                k = next((j for j, e in raised.items() if e is exc), None)
                o = f"x{k}" if k is not None else f"foreign:{type(exc).__name__}"
            done[i] = (o, ticks())

        tasks: dict[int, asyncio.Task] = {}
        for ev in events:
            if ev[0] == "call":
                i = ev[1]
                when, mode = t0 + calls[i].t * tick, calls[i].mode
                if mode == "a":
                    loop.advance_to(when)             # after everything due at this instant has happened
                else:
                    if clock.now < when:
                        advance_before(loop, when)    # nothing due at this instant has fired yet
                    for _ in range(0 if mode == "b" else int(mode)):
                        one_iteration(loop)           # ... k loop iterations into the instant
                tasks[i] = loop.create_task(caller(i))
            else:
                _, i, t, before = ev
                if before:
                    advance_before(loop, t0 + t * tick)
                else:
                    loop.advance_to(t0 + t * tick)
                tasks[i].cancel()
        loop.quiesce(advance=True)

        def num(x):
            return str(int(x)) if x == int(x) else str(x)

        shown = []
        for i in range(n):
            s = num(starts[i]) if i in starts else "-"
            o, f = done.get(i, ("pending", None))
            if i not in starts and o == "foreign:IndexError":
                shown.append("IndexError")
            else:
                shown.append(f"{s}/{o}/{'-' if f is None else num(f)}")
        return " ".join(shown) + " order=" + ",".join(map(str, order)) + " args=" + "".join(argbits)
    finally:
        vloop.close_loop(loop)


def canon(case: str, out: str) -> str:
    return out.split(" args=")[0]


# ----------------------------------------------------------------------------------------------
# the property, stated directly on the observed start instants / outcomes

def monitor(case: str, out: str) -> list[str]:
    p = parse(case)
    if p is None:
        return []
    bare, limit, _form, period, calls, _events = p
    if limit < 1 or period < 1:
        return []  # outside the property (limit >= 1, period > 0)
    if out.startswith("HANG") or " order=" not in out:
        return ["throttle.no-observation:" + out[:20]]
    head, tail = out.split(" order=")
    order_s, _, args = tail.partition(" args=")
    obs = head.split()
    n = len(calls)
    if len(obs) != n:
        return ["throttle.no-observation:shape"]
    arrivals = [c.t for c in calls]
    fails: list[str] = []
    starts: list[float | None] = []
    gone: list[float | None] = []      # for a call that never started: the instant it gave up (cancelled)
    for i, tok in enumerate(obs):
        parts = tok.split("/")
        if len(parts) != 3:
            fails.append("throttle.call-failed-in-wrapper")
            starts.append(None)
            gone.append(None)
            continue
        s, o, f = parts
        starts.append(None if s == "-" else float(s))
        gone.append(float(f) if s == "-" and o == "c" and f != "-" else None)
        cancelled_ok = calls[i].cancel is not None and o == "c"
        if s == "-" and not cancelled_ok:
            fails.append("throttle.call-never-started")
        want = f"v{i}" if calls[i].out == "v" else f"x{i}"
        if o == "pending":
            if s != "-":
                fails.append("throttle.call-never-finished")
        elif o != want and not cancelled_ok:
            fails.append("throttle.wrong-outcome")
    order = [int(x) for x in order_s.split(",") if x]
    if len(order) != len(set(order)):
        fails.append("throttle.function-invoked-twice")
    if "0" in args:
        fails.append("throttle.args-not-passed-through")
    started = sorted(s for s in starts if s is not None)
    # every half-open window [t, t+period): it suffices to slide the left end over the starts
    for k, left in enumerate(started):
        inside = sum(1 for s in started[k:] if s < left + period)
        if inside > limit:
            fails.append("throttle.window-exceeded")
            break
    # arrival order, over the calls that started
    st_only = [s for s in starts if s is not None]
    if order != sorted(order) or any(a > b for a, b in zip(st_only, st_only[1:])):
        fails.append("throttle.order")
    # no needless delay: on arrival, and (the same sentence read at every later instant) while waiting
    for i, (a, s) in enumerate(zip(arrivals, starts)):
        if s is None:
            continue
        if s < a:
            fails.append("throttle.started-before-arrival")
        if any(starts[j] is None and gone[j] is None for j in range(i)):
            continue                                        # an earlier call is unaccounted for: judged above
        earlier = [e for e in starts[:i] if e is not None]
        waiting_until = [g for e, g in zip(starts[:i], gone[:i]) if e is None]   # earlier callers that gave up

        def free(t, earlier=earlier, waiting_until=waiting_until):
            # no earlier call still waiting, fewer than `limit` began in (t - period, t]
            return (all(e <= t for e in earlier) and all(g <= t for g in waiting_until)
                    and sum(1 for e in earlier if e > t - period) < limit)

        if free(a):
            if s != a:
                fails.append("throttle.needless-delay")
                break
            continue
        cands = sorted({e for e in earlier if e >= a} | {e + period for e in earlier if e + period >= a}
                       | {g for g in waiting_until if g >= a})
        first_free = next(t for t in cands if free(t))
        if s > first_free:
            fails.append("throttle.delayed-beyond-need")
            break
    return sorted(set(fails))


def _delays(case: str, out: str):
    p = parse(case)
    if p is None or " order=" not in out:
        return []
    res = []
    for c, tok in zip(p[4], out.split(" order=")[0].split()):
        s = tok.split("/")[0]
        if s not in ("-", "IndexError"):
            res.append(float(s) - c.t)
    return res


def nontrivial(case: str, out: str) -> bool:
    return any(d > 0 for d in _delays(case, out))


def classify(case: str, out: str):
    p = parse(case)
    if p is None:
        return
    bare, limit, (form, pargs), period, calls, events = p
    yield f"limit:{'bare' if bare else limit}"
    yield f"period-form:{form}"
    if form == "t" and (pargs[0] or pargs[2]):
        yield "period:timedelta-with-days-or-subsecond"
    if form == "f" and period % 4:
        yield "period:fractional-float"
    yield f"period-ticks:{period if period <= 12 else '13-99' if period < 100 else '100+'}"
    yield f"calls:{len(calls)}"
    arr = [c.t for c in calls]
    gaps = [b - a for a, b in zip(arr, arr[1:])]
    if gaps and all(g == 0 for g in gaps):
        yield "pattern:burst"
    elif gaps and len(set(gaps)) == 1:
        yield "pattern:steady"
    if any(g in (period - 1, period, period + 1) for g in gaps):
        yield "pattern:gap-at-period-boundary"
    for m in {c.mode for c in calls}:
        yield f"arrival-mode:{m}"
    if any(c.dur > 0 for c in calls):
        yield "fn:takes-time"
    if any(c.out != "v" for c in calls):
        yield "fn:raises"
    d = _delays(case, out)
    yield f"delayed:{min(sum(1 for x in d if x > 0), 6)}"
    if " order=" not in out:
        return
    toks = [tok.split("/") for tok in out.split(" order=")[0].split()]
    if len(toks) != len(calls) or any(len(t) != 3 for t in toks):
        return
    # an arrival exactly at the instant an earlier, delayed call starts (its wait ends there)
    ends = {float(t[0]) for t, c in zip(toks, calls) if t[0] != "-" and float(t[0]) > c.t}
    for c in calls:
        if c.t in ends:
            yield f"tie:arrival-at-a-sleepers-wake-up:{c.mode}"
    for c, t in zip(calls, toks):
        if c.cancel is None:
            continue
        if t[0] == "-":
            yield "cancel:never-started"
        elif t[1] == "c":
            yield "cancel:while-function-runs"
        else:
            yield "cancel:too-late"


# ----------------------------------------------------------------------------------------------
# cases (all numbers in ticks of 0.25 s unless the period form says otherwise)


def extra_obligations():
    """`_AsyncThrottle.__call__` regenerated from /repo's throttling.py as MiniPy pieces (`async with self._lock:` pre / one
    iteration of the clean-up loop / post, then the call of the function): Lean re-checks one obligation per loop-free piece, the
    committed induction over the entries and the composition (`Bridge.Throttle.critical_of_parts`) give: for every entry list,
    limit, period, instant the method ends with the entries, clock and start instant of `Throttle.process`, sleeps at most once,
    and calls the function exactly once after releasing the lock"""
    from harness import core, regen

    return regen.check("throttle", core.REPO, core.LEAN)


def corpus():
    return [
        # pinned tree: nothing is ever delayed (minimal failing case first)
        "1 f5 0:0:v 0:0:v",
        "1 f10 0:0:v 0:0:v 0:0:v",
        "2 f10 0:0:v 1:0:v 1:0:v 1:0:v",
        "1 t5 0:0:v 1:0:v",
        # a float period is a number of seconds, not of microseconds: the same pattern in ticks of 2**-22 s
        "1 F3 0:0:v 0:0:v 3:0:v", "1 F5 0:0:v 4:0:v 1:0:v", "2 F3 0:0:v 0:0:v 0:0:v 3:0:v 1:0:v",
        # an arrival at exactly the instant a waiting call's delay ends, scheduled BEFORE that sleeper wakes (:b) and
        # after it (:a) - a lock-free fast path lets the newcomer overtake and both start in one window
        "1 f4 0:0:v 2:0:v 2:0:v:b",
        "1 f4 0:0:v 2:0:v 2:0:v:a",
        "1 i1 0:0:v 2:0:v 2:0:v:b 0:0:v:b 4:0:v:b",
        "2 f4 0:0:v 0:0:v 1:0:v 3:0:v:b 0:0:v:b",
        "2 t0,0,1500 0:0:v 0:0:v 2:0:v 1:0:v 3:0:v:b 6:0:v:b",
        "3 f2 0:0:v 0:0:v 0:0:v 0:0:v 2:0:v:b 0:0:v:b 2:0:v:b",
        "1 f3 0:5:e 1:0:v 2:0:b:b 3:0:v:b 3:0:v:a",
        # two slots expire together, one sleeper + one queued waiter, newcomer in the iteration of the hand-over
        "2 f4 0:0:v 0:0:v 0:0:v 0:0:v 4:0:v:1",
        "2 f4 0:0:v 0:0:v 0:0:v 0:0:v 4:0:v:2",
        "2 f4 0:0:v 0:0:v 0:0:v 0:0:v 4:0:v:3",
        "2 f4 0:0:v 0:0:v 0:0:v 0:0:v 4:0:v:b",
        "3 i1 0:0:v 0:0:v 0:0:v 0:0:v 0:0:v 0:0:v 4:0:v:1 0:0:v:1",
        "2 f2 0:0:v 0:0:v 0:0:v 0:0:v 0:0:v 2:0:v:1 2:0:v:2",
        # cancelled callers: while sleeping for the turn (the deque must keep its entries), while queued, while running
        "1 f4 0:0:v 1:0:v 1:x1 0:0:v",
        "1 f4 0:0:v 1:0:v 1:x1 1:0:v",
        "1 f4 0:0:v 1:0:v 1:x1:b 0:0:v:b",
        "1 f4 0:0:v 1:0:v 3:x1:b 0:0:v",
        "1 f4 0:0:v 1:0:v 3:x1 0:0:v",
        "1 f4 0:0:v 0:0:v 0:0:v 1:x2 0:0:v",
        "1 f4 0:0:v 0:0:v 0:0:v 1:x1 0:0:v 1:x2",
        "2 f4 0:0:v 0:0:v 1:0:v 0:0:v 0:0:v 1:x2 1:x3 1:0:v",
        "2 t0,0,1500 0:0:v 0:0:v 1:0:e 1:0:v 1:x2:b 2:x3 1:0:v:1",
        "1 f4 0:9:v 2:x0 0:0:v 2:0:v",
        "1 f4 0:9:e 9:x0:b 0:0:v",
        "3 f3 0:0:v 0:0:v 0:0:v 0:2:v 0:0:v 0:0:v 1:x3 1:x4:b 1:x5 0:0:v:b",
        # boundary: an entry exactly one period old is dropped (<=); a burst at the boundary is spread out
        "1 f10 0:0:v 10:0:v 0:0:v 0:0:v",
        "1 f10 0:0:v 10:0:v:b 0:0:v:b 0:0:v:b",
        "1 f10 0:0:v 9:0:v 1:0:v",
        "1 f10 0:0:v 9:0:v 1:0:v:b",
        "1 f10 0:0:v 11:0:v 0:0:v",
        "2 f5 0:0:v 0:0:v 5:0:v 0:0:v 0:0:v",
        "2 f5 0:0:v 0:0:v 4:0:v 1:0:v 0:0:v 0:0:v",
        "3 i1 0:0:v 0:0:v 0:0:v 4:0:v 0:0:v 0:0:v 0:0:v 1:0:v",
        # limit off by one
        "2 f10 0:0:v 0:0:v 0:0:v",
        "3 f10 0:0:v 0:0:v 0:0:v 0:0:v",
        "4 t7 0:0:v 0:0:v 0:0:v 0:0:v 0:0:v 0:0:v 0:0:v 0:0:v 0:0:v",
        # stale head after a wait: the sleeper's entry must count (deque holds limit+1 entries for a moment)
        "1 f3 0:0:v 0:0:v 0:0:v 3:0:v 0:0:v",
        "2 f3 0:0:v 0:0:v 1:0:v 0:0:v 2:0:v 1:0:v 0:0:v",
        # steady streams faster / slower than the rate
        "2 f6 0:0:v 2:0:v 2:0:v 2:0:v 2:0:v 2:0:v 2:0:v 2:0:v",
        "2 f6 0:0:v 3:0:v 3:0:v 3:0:v 3:0:v 3:0:v",
        "1 f2 0:0:v 3:0:v 3:0:v 3:0:v",
        # period forms: timedelta with a sub-second part / whole days (total_seconds, not .seconds), fractional floats
        "2 t0,0,1500 0:0:v 0:0:v 0:0:v 0:0:v 1:0:v 15:0:v",
        "1 t0,0,500 0:0:v 0:0:v 1:0:v 1:0:v",
        "1 t0,0,250 0:0:v 0:0:v 0:0:v",
        "1 t0,1,750 0:0:v 6:0:v 1:0:v 0:0:v",
        "1 t1,0,0 0:0:v 0:0:v 345599:0:v 1:0:v",
        "2 t1,0,500 0:0:v 0:0:v 4:0:v 345598:0:v:b 0:0:v",
        "3 t2,3,250 0:0:v 0:0:v 0:0:v 0:0:v 691213:0:v",
        "1 t0,86399,750 0:0:v 345599:0:v",
        "1 f1 0:0:v 0:0:v 1:0:v",
        "2 f7 0:0:v 0:0:v 6:0:v 1:0:v 0:0:v",
        "1 i2 0:0:v 7:0:v 1:0:v 0:0:v",
        # long-running / failing functions do not change the schedule; outcomes are the function's own
        "1 f4 0:9:e 0:0:b 0:5:v 0:0:e",
        "2 t3 0:7:v 0:0:e 0:7:b 1:0:v 0:2:e 5:0:v",
        "3 f5 0:1:e 0:1:e 0:1:e 0:1:e 6:0:v",
        # waiting queue longer than one period's worth, later idle gap, burst again
        "1 f2 0:0:v 0:0:v 0:0:v 0:0:v 0:0:v 0:0:v 20:0:v 0:0:v",
        "2 i1 1:0:v 0:0:v 0:0:v 0:0:v 0:0:v 9:0:v 0:0:v 0:0:v",
        # defaults (limit 1, period 1 s = 4 ticks)
        "- d 0:0:v 0:0:v 1:0:v",
        "- d 0:0:v 2:0:v 2:0:v:b",
        "- d 2:0:e",
        "1 f1 0:0:v",
        "4 f1",
        # limit 0 is not rejected: IndexError in the wrapper (outside the property, model comparison only)
        "0 f5 1:0:v 1:0:v",
    ]



DURS = [0, 0, 0, 1, 2]
OUTS = ["v", "v", "v", "e", "b"]
# (token, ticks)
PERIODS = [("f1", 1), ("f2", 2), ("f3", 3), ("f3", 3), ("f4", 4), ("f5", 5), ("f6", 6), ("f7", 7), ("f10", 10), ("f20", 20),
           ("F1", 1), ("F3", 3), ("F5", 5), ("F6", 6),      # the same patterns in ticks of 2**-22 s (sub-microsecond periods)
           ("i1", 4), ("i1", 4), ("i2", 8), ("i3", 12),
           ("t1", 4), ("t2", 8), ("t0,0,250", 1), ("t0,0,500", 2), ("t0,0,750", 3), ("t0,0,1500", 6), ("t0,1,250", 5),
           ("t0,2,500", 10), ("t1,0,0", 345600), ("t1,0,500", 345602), ("t2,1,250", 691205), ("t0,86399,750", 345599)]
MODE_W = (["a"] * 9 + ["b"] * 5 + ["1"] * 3 + ["2"] * 2 + ["3"])


def serialise(limit_tok: str, ptok: str, evs) -> str:
    """evs: list of ("call", t, dur, out, mode) | ("cancel", t, call index, before) in timeline order"""
    toks, prev = [], 0
    for ev in evs:
        g = ev[1] - prev
        prev = ev[1]
        if ev[0] == "call":
            _, _t, d, o, m = ev
            toks.append(f"{g}:{d}:{o}" + ("" if m == "a" else f":{m}"))
        else:
            _, _t, i, before = ev
            toks.append(f"{g}:x{i}" + (":b" if before and g > 0 else ""))
    return " ".join([limit_tok, ptok, *toks])


def to_evs(case: str):
    p = parse(case)
    if p is None:
        return None
    calls, events = p[4], p[5]
    evs = []
    for ev in events:
        if ev[0] == "call":
            c = calls[ev[1]]
            evs.append(("call", c.t, c.dur, c.out, c.mode))
        else:
            evs.append(("cancel", ev[2], ev[1], ev[3]))
    return evs


def reference_starts(limit: int, period: int, arrivals):
    s = []
    for i, a in enumerate(arrivals):
        v = a
        if i >= 1:
            v = max(v, s[i - 1])
        if i >= limit:
            v = max(v, s[i - limit] + period)
        s.append(v)
    return s


def add_cancel(evs, i: int, t: int, before: bool):
    """insert a cancellation of call i at instant t after every event at an instant <= t"""
    k = len(evs)
    while k > 0 and evs[k - 1][1] > t:
        k -= 1
    return evs[:k] + [("cancel", t, i, before)] + evs[k:]


def _gaps(rng, limit: int, period: int, n: int):
    style = rng.random()
    gaps: list[int] = [rng.choice([0, 0, 1, 2, period])]
    boundary = [period - 1, period, period + 1]
    if style >= 0.75:
        # a burst that overfills the window (>= 2 waiters), then arrivals at exactly the instants delayed calls start
        k = rng.randint(limit + 1, min(12, 2 * limit + 3))
        gaps = [rng.choice([0, 1])] + [rng.choice([0, 0, 0, 0, 1]) for _ in range(k - 1)]
        sofar = sum(gaps)
        target = gaps[0] + period
        while len(gaps) < n:
            nxt = max(sofar, target)
            gaps.append(nxt - sofar)
            sofar = nxt
            target = rng.choice([sofar, sofar, sofar + period, sofar + 1])
        return gaps[:n], k
    while len(gaps) < n:
        if style < 0.2:      # bursts separated by boundary gaps
            k = rng.randint(1, limit + 2)
            gaps += [rng.choice(boundary + [0, 2 * period])] + [0] * (k - 1)
        elif style < 0.4:    # steady stream
            g = rng.choice([1, max(1, period // limit), max(1, period // limit) + 1, period - 1, period, period + 1, 2])
            gaps += [g] * rng.randint(2, 6)
            style = rng.random() * 0.75
        elif style < 0.6:    # boundary gaps +-1 tick
            gaps.append(rng.choice(boundary + [0, 0]))
        else:                # mixture
            gaps.append(rng.choice([0, 0, 0, 1, 1, 2, 3, period - 1, period, period + 1, 2 * period,
                                    rng.randint(0, 2 * min(period, 40))]))
    return [max(0, g) for g in gaps[:n]], 0


def _random_case(rng) -> str:
    limit = rng.randint(1, 4)
    ptok, period = rng.choice(PERIODS)
    n = rng.randint(1, 12)
    gaps, burst = _gaps(rng, limit, period, n)
    evs, t = [], 0
    for j, g in enumerate(gaps):
        t += g
        d = rng.choice(DURS + [period, 3 * period])
        mode = rng.choice(MODE_W) if (not burst or j >= burst or rng.random() < 0.3) else "a"
        evs.append(("call", t, d, rng.choice(OUTS), mode))
    if rng.random() < 0.3:
        arr = [e[1] for e in evs]
        ref = reference_starts(limit, period, arr)
        waiting = [i for i in range(len(arr)) if ref[i] > arr[i]]
        for _ in range(rng.choice([1, 1, 2, 3])):
            i = rng.choice(waiting) if waiting and rng.random() < 0.8 else rng.randrange(len(arr))
            lo, hi = arr[i], ref[i]
            c = rng.choice([lo, lo + 1, (lo + hi) // 2, hi - 1, hi, hi, hi + 1, hi + evs[i][2], lo + rng.randint(0, 2 * min(period, 40))])
            evs = add_cancel(evs, i, max(lo, c), rng.random() < 0.45)
    return serialise(str(limit), ptok, evs)


GRID_FORMS = {2: ["f2", "t0,0,500", "f2"], 3: ["f3", "t0,0,750", "f3"]}


def generate(rng, tier):
    if tier == "quick":
        for _ in range(4000):
            yield _random_case(rng)
        return
    k = 0
    for period in (2, 3):
        for limit in (1, 2, 3, 4):
            for n in range(1, 7):
                for first in (0, 1):
                    for rest in itertools.product(range(0, period + 2), repeat=n - 1):
                        arr, t = [], 0
                        for g in (first, *rest):
                            t += g
                            arr.append(t)
                        for tie in ("a", "b", "1", "2"):
                            k += 1
                            ptok = GRID_FORMS[period][k % 3]
                            evs = [("call", a, DURS[(k + j) % 5] if k % 4 == 0 else 0,
                                    OUTS[(k + 2 * j) % 5] if k % 3 == 0 else "v", tie if j else "a")
                                   for j, a in enumerate(arr)]
                            yield serialise(str(limit), ptok, evs)
                        if n <= 4:
                            base = [("call", a, 2 if j == 0 else 0, "v", "a") for j, a in enumerate(arr)]
                            for i in range(n):
                                for off in range(0, period + 2):
                                    for before in (False, True):
                                        yield serialise(str(limit), GRID_FORMS[period][0],
                                                        add_cancel(base, i, arr[i] + off, before))
    for _ in range(200000):
        yield _random_case(rng)


def mutate(rng, case: str) -> str:
    toks = case.split()
    evs = to_evs(case)
    if evs is None or len(toks) < 2 or toks[0] == "-":
        return _random_case(rng)
    period = parse(case)[3]
    ncalls = sum(1 for e in evs if e[0] == "call")
    r = rng.random()
    if r < 0.12:
        toks[0] = str(rng.randint(1, 4))
    elif r < 0.24:
        toks[1] = rng.choice(PERIODS)[0]
    elif r < 0.45 and ncalls and ncalls < 12:
        # a new call at the end or at an instant of an existing event
        t = rng.choice([e[1] for e in evs] + [evs[-1][1] + rng.choice([0, 1, period - 1, period, period + 1])]) if evs else 0
        k = len(evs)
        while k > 0 and evs[k - 1][1] > t:
            k -= 1
        idx = sum(1 for e in evs[:k] if e[0] == "call")
        evs = [(e if e[0] == "call" or e[2] < idx else ("cancel", e[1], e[2] + 1, e[3])) for e in evs]
        evs = evs[:k] + [("call", t, rng.choice(DURS), rng.choice(OUTS), rng.choice(MODE_W))] + evs[k:]
    elif r < 0.65 and ncalls:
        i = rng.randrange(ncalls)
        arr = [e[1] for e in evs if e[0] == "call"]
        evs = add_cancel(evs, i, arr[i] + rng.choice([0, 1, 2, period - 1, period, period + 1]), rng.random() < 0.5)
    elif evs:
        j = rng.randrange(len(evs))
        e = evs[j]
        if e[0] == "call" and rng.random() < 0.5:
            evs[j] = ("call", e[1], e[2], e[3], rng.choice(MODE_W))
        else:
            shift = rng.choice([-1, 1, period])
            lo = evs[j - 1][1] if j else 0
            if e[1] + shift >= lo:
                evs = evs[:j] + [(x[0], x[1] + shift, *x[2:]) for x in evs[j:]]
    return serialise(toks[0], toks[1], evs)


def shrink(case: str):
    toks = case.split()
    evs = to_evs(case)
    if evs is None or len(toks) < 2:
        return
    head = toks[:2]

    def out(e2):
        return serialise(head[0], head[1], e2)

    def drop_call(idx, shift):
        res, seen, removed_t, prev_t = [], 0, None, 0
        for e in evs:
            if e[0] == "call":
                if seen == idx:
                    removed_t = (e[1], prev_t)
                    seen += 1
                    continue
                seen += 1
                res.append(e)
            else:
                if e[2] == idx:
                    continue
                res.append(("cancel", e[1], e[2] - (1 if e[2] > idx else 0), e[3]))
            prev_t = e[1]
        if shift and removed_t is not None:
            d = removed_t[0] - removed_t[1]
            res = [(x if x[1] < removed_t[0] else (x[0], x[1] - d, *x[2:])) for x in res]
        return res

    ncalls = sum(1 for e in evs if e[0] == "call")
    for i in range(ncalls - 1, -1, -1):
        yield out(drop_call(i, False))
    for i in range(ncalls - 1, -1, -1):
        yield out(drop_call(i, True))
    for j, e in enumerate(evs):
        if e[0] == "cancel":
            yield out(evs[:j] + evs[j + 1:])
            if e[3]:
                yield out(evs[:j] + [("cancel", e[1], e[2], False)] + evs[j + 1:])
        else:
            if e[2]:
                yield out(evs[:j] + [("call", e[1], 0, e[3], e[4])] + evs[j + 1:])
            if e[3] != "v":
                yield out(evs[:j] + [("call", e[1], e[2], "v", e[4])] + evs[j + 1:])
            if e[4] != "a":
                yield out(evs[:j] + [("call", e[1], e[2], e[3], "a")] + evs[j + 1:])
        lo = evs[j - 1][1] if j else 0
        if e[1] > lo:                          # pull this and every later event one tick / all the way earlier
            for d in (e[1] - lo, 1):
                yield out(evs[:j] + [(x[0], x[1] - d, *x[2:]) for x in evs[j:]])
    if head[0] not in ("-", "0", "1"):
        yield " ".join([str(int(head[0]) - 1), head[1], *toks[2:]])
    p = parse(case)
    if p is not None and head[0] != "-" and p[2][0] != "f" and p[3] <= 40:
        yield " ".join([head[0], f"f{p[3]}", *toks[2:]])
