"""C15 – throttle: real `haiway.throttle` vs `hwmodel throttle`, exact virtual time.

case   = `<limit|-> <period> <gap>:<duration>:<outcome>[:a|b]*`     (see lean/Driver/Throttle.lean)
         all instants in ticks of 0.25 s; period f<q> = float q*0.25 | i<n> = int seconds | t<n> = timedelta(seconds=n)
         | t<d>,<s>,<ms> = timedelta(days=d, seconds=s, milliseconds=ms); 4th call field: caller created after (a, default)
         or before (b) the timers due at its arrival instant fire
output = `<start>/<caller outcome>/<finish>` per call + ` order=<call indices in start order>`
         followed (implementation only, stripped by `canon`) by ` args=<bit per call>`.
"""
from __future__ import annotations

import asyncio
import itertools
from datetime import timedelta

from harness import core, vloop

PID = "C15"
LEAN_COMPONENT = "throttle"
PROPS_MODULE = "Haiway.Props.C15"
ANCHORS = ["src/haiway/helpers/throttling.py"]
RULE = ("case = limit x period (float incl. fractions / int / timedelta incl. sub-second parts and whole days) x arrival pattern "
        "(gap to the previous arrival, function duration, function outcome value/Exception/BaseException per call, and whether "
        "the caller is created before or after the timers due at its arrival instant fire, i.e. both tie orders against a "
        "sleeper waking at that instant); callers at one instant created in index order; time in exact quarter-second ticks. "
        "quick: 4000 patterns of <= 12 calls (bursts, steady streams, gaps at period-1/period/period+1 ticks, arrivals exactly "
        "at the instant a waiting call's delay ends, mixtures), limits 1-4. thorough: every gap vector over 0..period+1 for "
        "<= 6 calls, periods 2 and 3 ticks, limits 1-4, both tie orders (durations, outcomes and period form rotating) + "
        "200000 random patterns. "
        "monitor: sliding half-open windows over the observed starts, start order = arrival order, start on arrival when "
        "nothing forces a wait and otherwise at the first instant nothing forces a wait, every call ran once and its caller "
        "got the function's own value / exception object. "
        "non-trivial = at least one call was started later than it arrived (the throttle actually delayed something); "
        "distinct = by case text")
TRUSTED = ["asyncio.Lock FIFO hand-over and asyncio.sleep/call_later as exercised through harness/vloop.py",
           "harness/comp_throttle.py run_real + monitor"]
ASSUMPTIONS = ["arrival order = task creation order for callers arriving at the same virtual instant",
               "callers are not cancelled while waiting for their turn", "time in quarter-second ticks (multiples of 0.25 s, exact in floating point)"]


class Boom(Exception):
    pass


class BaseBoom(BaseException):
    pass


TICK = 0.25  # seconds per tick


def parse_period(tok: str):
    """-> (form, python-constructor args, period in ticks)"""
    form, body = tok[0], tok[1:]
    if form == "f":
        q = int(body)
        return ("f", q, q)
    if form == "i":
        n = int(body)
        return ("i", n, 4 * n)
    if form == "t":
        parts = [int(x) for x in body.split(",")]
        if len(parts) == 1:
            parts = [0, parts[0], 0]
        d, sec, ms = parts
        if ms % 250 or min(parts) < 0:
            raise ValueError(tok)
        return ("t", (d, sec, ms), (d * 86400 + sec) * 4 + ms // 250)
    raise ValueError(tok)


def parse(case: str):
    toks = case.split()
    if len(toks) < 2:
        return None
    lim, per = toks[0], toks[1]
    bare = lim == "-"
    try:
        limit = 1 if bare else int(lim)
        if limit < 0:
            return None
        form, pargs, period = ("i", 1, 4) if bare else parse_period(per)
        if period < 0:
            return None
        calls = []
        for tok in toks[2:]:
            parts = tok.split(":")
            if len(parts) == 3:
                parts.append("a")
            g, d, o, mode = parts
            if o not in ("v", "e", "b") or mode not in ("a", "b") or int(g) < 0 or int(d) < 0:
                return None
            calls.append((int(g), int(d), o, mode))
    except (ValueError, IndexError):
        return None
    return bare, limit, (form, pargs), period, calls


def advance_before(loop, t: float) -> None:
    """Move the virtual clock to `t`, firing every timer due strictly before `t` but none of those due
    at `t` itself: what the harness does next happens *before* the sleepers of that instant wake."""
    clock = vloop.CLOCK
    while True:
        loop.quiesce()
        loop._drop_cancelled()
        if loop._scheduled and loop._scheduled[0]._when < t:
            clock.now = max(clock.now, loop._scheduled[0]._when)
        else:
            clock.now = max(clock.now, t)
            return


SENT_K = object()


def run_real(case: str) -> str:
    from haiway import throttle

    p = parse(case)
    if p is None:
        return "bad-case"
    bare, limit, (form, pargs), period, calls = p
    clock = vloop.CLOCK
    loop = vloop.new_loop()   # also resets the clock to an integer instant
    try:
        t0 = clock.now
        n = len(calls)
        starts: dict[int, float] = {}
        order: list[int] = []
        raised: dict[int, BaseException] = {}
        argbits = ["-"] * n
        done: dict[int, tuple[str, float]] = {}

        def ticks() -> float:
            return (clock.now - t0) / TICK

        async def fn(i, *, key=None):
            order.append(i)
            starts.setdefault(i, ticks())
            argbits[i] = "1" if key is SENT_K else "0"
            dur, out = calls[i][1], calls[i][2]
            if dur:
                await asyncio.sleep(dur * TICK)
            if out == "v":
                return ("val", i)
            exc = (Boom if out == "e" else BaseBoom)(i)
            raised[i] = exc
            raise exc

        if bare:
            wrapped = throttle(fn)
        else:
            if form == "f":
                per = pargs * TICK
            elif form == "i":
                per = pargs
            else:
                per = timedelta(days=pargs[0], seconds=pargs[1], milliseconds=pargs[2])
            wrapped = throttle(limit=limit, period=per)(fn)

        async def caller(i):
            try:
                res = await wrapped(i, key=SENT_K)
                o = f"v{res[1]}" if isinstance(res, tuple) and len(res) == 2 and res[0] == "val" else "v?"
            except BaseException as exc:  # noqa: BLE001
                k = next((j for j, e in raised.items() if e is exc), None)
                o = f"x{k}" if k is not None else f"foreign:{type(exc).__name__}"
            done[i] = (o, ticks())

        t = 0
        tasks = []
        for i, (g, _d, _o, mode) in enumerate(calls):
            t += g
            if mode == "b":
                advance_before(loop, t0 + t * TICK)   # the caller runs before the timers of this instant
            else:
                loop.advance_to(t0 + t * TICK)        # ... after they fired and everything settled
            tasks.append(loop.create_task(caller(i)))
        loop.quiesce(advance=True)

        def num(x):
            return str(int(x)) if x == int(x) else str(x)

        shown = []
        for i in range(n):
            s = num(starts[i]) if i in starts else "-"
            o, f = done.get(i, ("pending", None))
            if i not in starts and o == "foreign:IndexError":
                shown.append("IndexError")
            else:
                shown.append(f"{s}/{o}/{'-' if f is None else num(f)}")
        return " ".join(shown) + " order=" + ",".join(map(str, order)) + " args=" + "".join(argbits)
    finally:
        vloop.close_loop(loop)


def canon(case: str, out: str) -> str:
    return out.split(" args=")[0]


# ----------------------------------------------------------------------------------------------
# the property, stated directly on the observed start instants / outcomes

def monitor(case: str, out: str) -> list[str]:
    p = parse(case)
    if p is None:
        return []
    bare, limit, _form, period, calls = p
    if limit < 1 or period < 1:
        return []  # outside the property (limit >= 1, period > 0)
    if out.startswith("HANG") or " order=" not in out:
        return ["throttle.no-observation:" + out[:20]]
    head, tail = out.split(" order=")
    order_s, _, args = tail.partition(" args=")
    obs = head.split()
    n = len(calls)
    if len(obs) != n:
        return ["throttle.no-observation:shape"]
    arrivals, t = [], 0
    for g, _d, _o, _m in calls:
        t += g
        arrivals.append(t)
    fails: list[str] = []
    starts: list[float | None] = []
    for i, tok in enumerate(obs):
        parts = tok.split("/")
        if len(parts) != 3:
            fails.append("throttle.call-failed-in-wrapper")
            starts.append(None)
            continue
        s, o, _f = parts
        starts.append(None if s == "-" else float(s))
        if s == "-":
            fails.append("throttle.call-never-started")
        want = f"v{i}" if calls[i][2] == "v" else f"x{i}"
        if o == "pending":
            if s != "-":
                fails.append("throttle.call-never-finished")
        elif o != want:
            fails.append("throttle.wrong-outcome")
    order = [int(x) for x in order_s.split(",") if x]
    if len(order) != len(set(order)):
        fails.append("throttle.function-invoked-twice")
    if "0" in args:
        fails.append("throttle.args-not-passed-through")
    started = sorted(s for s in starts if s is not None)
    # every half-open window [t, t+period): it suffices to slide the left end over the starts
    for k, left in enumerate(started):
        inside = sum(1 for s in started[k:] if s < left + period)
        if inside > limit:
            fails.append("throttle.window-exceeded")
            break
    # arrival order
    if order != sorted(order) or any(a is not None and b is not None and a > b for a, b in zip(starts, starts[1:])):
        fails.append("throttle.order")
    # no needless delay: on arrival, and (the same sentence read at every later instant) while waiting
    for i, (a, s) in enumerate(zip(arrivals, starts)):
        if s is None:
            continue
        if s < a:
            fails.append("throttle.started-before-arrival")
        earlier = starts[:i]
        if any(e is None for e in earlier):
            continue

        def free(t, earlier=earlier):  # no earlier call still waiting, fewer than `limit` began in (t - period, t]
            return all(e <= t for e in earlier) and sum(1 for e in earlier if e > t - period) < limit

        if free(a):
            if s != a:
                fails.append("throttle.needless-delay")
                break
            continue
        cands = sorted({e for e in earlier if e >= a} | {e + period for e in earlier if e + period >= a})
        first_free = next(t for t in cands if free(t))
        if s > first_free:
            fails.append("throttle.delayed-beyond-need")
            break
    return sorted(set(fails))


def _delays(case: str, out: str):
    p = parse(case)
    if p is None or " order=" not in out:
        return []
    t, res = 0, []
    for (g, _d, _o, _m), tok in zip(p[4], out.split(" order=")[0].split()):
        t += g
        s = tok.split("/")[0]
        if s not in ("-", "IndexError"):
            res.append(float(s) - t)
    return res


def nontrivial(case: str, out: str) -> bool:
    return any(d > 0 for d in _delays(case, out))


def classify(case: str, out: str):
    p = parse(case)
    if p is None:
        return
    bare, limit, (form, pargs), period, calls = p
    yield f"limit:{'bare' if bare else limit}"
    yield f"period-form:{form}"
    if form == "t" and (pargs[0] or pargs[2]):
        yield "period:timedelta-with-days-or-subsecond"
    if form == "f" and period % 4:
        yield "period:fractional-float"
    yield f"period-ticks:{period if period <= 12 else '13-99' if period < 100 else '100+'}"
    yield f"calls:{len(calls)}"
    gaps = [c[0] for c in calls[1:]]
    if gaps and all(g == 0 for g in gaps):
        yield "pattern:burst"
    elif gaps and len(set(gaps)) == 1:
        yield "pattern:steady"
    if any(g in (period - 1, period, period + 1) for g in gaps):
        yield "pattern:gap-at-period-boundary"
    if any(c[3] == "b" for c in calls):
        yield "arrival:before-timers-of-its-instant"
    if any(c[1] > 0 for c in calls):
        yield "fn:takes-time"
    if any(c[2] != "v" for c in calls):
        yield "fn:raises"
    d = _delays(case, out)
    yield f"delayed:{min(sum(1 for x in d if x > 0), 6)}"
    # an arrival exactly at the instant an earlier, delayed call starts (its wait ends there)
    t, arr = 0, []
    for c in calls:
        t += c[0]
        arr.append(t)
    if " order=" in out:
        st = [tok.split("/")[0] for tok in out.split(" order=")[0].split()]
        ends = {float(x) for x, a in zip(st, arr) if x not in ("-", "IndexError") and float(x) > a}
        if any(a in ends and c[3] == "b" for a, c in zip(arr, calls)):
            yield "tie:arrival-before-sleeper-wakes"
        if any(a in ends and c[3] == "a" for a, c in zip(arr, calls)):
            yield "tie:arrival-after-sleeper-woke"


# ----------------------------------------------------------------------------------------------
# cases (all numbers in ticks of 0.25 s unless the period form says otherwise)

def corpus():
    return [
        # pinned tree: nothing is ever delayed (minimal failing case first)
        "1 f5 0:0:v 0:0:v",
        "1 f10 0:0:v 0:0:v 0:0:v",
        "2 f10 0:0:v 1:0:v 1:0:v 1:0:v",
        "1 t5 0:0:v 1:0:v",
        # an arrival at exactly the instant a waiting call's delay ends, scheduled BEFORE that sleeper wakes (:b) and
        # after it (:a) - a lock-free fast path lets the newcomer overtake and both start in one window
        "1 f4 0:0:v 2:0:v 2:0:v:b",
        "1 f4 0:0:v 2:0:v 2:0:v:a",
        "1 i1 0:0:v 2:0:v 2:0:v:b 0:0:v:b 4:0:v:b",
        "2 f4 0:0:v 0:0:v 1:0:v 3:0:v:b 0:0:v:b",
        "2 t0,0,1500 0:0:v 0:0:v 2:0:v 1:0:v 3:0:v:b 6:0:v:b",
        "3 f2 0:0:v 0:0:v 0:0:v 0:0:v 2:0:v:b 0:0:v:b 2:0:v:b",
        "1 f3 0:5:e 1:0:v 2:0:b:b 3:0:v:b 3:0:v:a",
        # boundary: an entry exactly one period old is dropped (<=); a burst at the boundary is spread out
        "1 f10 0:0:v 10:0:v 0:0:v 0:0:v",
        "1 f10 0:0:v 10:0:v:b 0:0:v:b 0:0:v:b",
        "1 f10 0:0:v 9:0:v 1:0:v",
        "1 f10 0:0:v 9:0:v 1:0:v:b",
        "1 f10 0:0:v 11:0:v 0:0:v",
        "2 f5 0:0:v 0:0:v 5:0:v 0:0:v 0:0:v",
        "2 f5 0:0:v 0:0:v 4:0:v 1:0:v 0:0:v 0:0:v",
        "3 i1 0:0:v 0:0:v 0:0:v 4:0:v 0:0:v 0:0:v 0:0:v 1:0:v",
        # limit off by one
        "2 f10 0:0:v 0:0:v 0:0:v",
        "3 f10 0:0:v 0:0:v 0:0:v 0:0:v",
        "4 t7 0:0:v 0:0:v 0:0:v 0:0:v 0:0:v 0:0:v 0:0:v 0:0:v 0:0:v",
        # stale head after a wait: the sleeper's entry must count (deque holds limit+1 entries for a moment)
        "1 f3 0:0:v 0:0:v 0:0:v 3:0:v 0:0:v",
        "2 f3 0:0:v 0:0:v 1:0:v 0:0:v 2:0:v 1:0:v 0:0:v",
        # steady streams faster / slower than the rate
        "2 f6 0:0:v 2:0:v 2:0:v 2:0:v 2:0:v 2:0:v 2:0:v 2:0:v",
        "2 f6 0:0:v 3:0:v 3:0:v 3:0:v 3:0:v 3:0:v",
        "1 f2 0:0:v 3:0:v 3:0:v 3:0:v",
        # period forms: timedelta with a sub-second part / whole days (total_seconds, not .seconds), fractional floats
        "2 t0,0,1500 0:0:v 0:0:v 0:0:v 0:0:v 1:0:v 15:0:v",
        "1 t0,0,500 0:0:v 0:0:v 1:0:v 1:0:v",
        "1 t0,0,250 0:0:v 0:0:v 0:0:v",
        "1 t0,1,750 0:0:v 6:0:v 1:0:v 0:0:v",
        "1 t1,0,0 0:0:v 0:0:v 345599:0:v 1:0:v",
        "2 t1,0,500 0:0:v 0:0:v 4:0:v 345598:0:v:b 0:0:v",
        "3 t2,3,250 0:0:v 0:0:v 0:0:v 0:0:v 691213:0:v",
        "1 t0,86399,750 0:0:v 345599:0:v",
        "1 f1 0:0:v 0:0:v 1:0:v",
        "2 f7 0:0:v 0:0:v 6:0:v 1:0:v 0:0:v",
        "1 i2 0:0:v 7:0:v 1:0:v 0:0:v",
        # long-running / failing functions do not change the schedule; outcomes are the function's own
        "1 f4 0:9:e 0:0:b 0:5:v 0:0:e",
        "2 t3 0:7:v 0:0:e 0:7:b 1:0:v 0:2:e 5:0:v",
        "3 f5 0:1:e 0:1:e 0:1:e 0:1:e 6:0:v",
        # waiting queue longer than one period's worth, later idle gap, burst again
        "1 f2 0:0:v 0:0:v 0:0:v 0:0:v 0:0:v 0:0:v 20:0:v 0:0:v",
        "2 i1 1:0:v 0:0:v 0:0:v 0:0:v 0:0:v 9:0:v 0:0:v 0:0:v",
        # defaults (limit 1, period 1 s = 4 ticks)
        "- d 0:0:v 0:0:v 1:0:v",
        "- d 0:0:v 2:0:v 2:0:v:b",
        "- d 2:0:e",
        "1 f1 0:0:v",
        "4 f1",
        # limit 0 is not rejected: IndexError in the wrapper (outside the property, model comparison only)
        "0 f5 1:0:v 1:0:v",
    ]


DURS = [0, 0, 0, 1, 2]
OUTS = ["v", "v", "v", "e", "b"]
# (token, ticks)
PERIODS = [("f1", 1), ("f2", 2), ("f3", 3), ("f3", 3), ("f4", 4), ("f5", 5), ("f6", 6), ("f7", 7), ("f10", 10), ("f20", 20),
           ("i1", 4), ("i1", 4), ("i2", 8), ("i3", 12),
           ("t1", 4), ("t2", 8), ("t0,0,250", 1), ("t0,0,500", 2), ("t0,0,750", 3), ("t0,0,1500", 6), ("t0,1,250", 5),
           ("t0,2,500", 10), ("t1,0,0", 345600), ("t1,0,500", 345602), ("t2,1,250", 691205), ("t0,86399,750", 345599)]


def _call(rng, gap: int, period: int, tie: float = 0.35) -> str:
    d = rng.choice(DURS + [period, 3 * period])
    mode = ":b" if rng.random() < tie else ""
    return f"{gap}:{d}:{rng.choice(OUTS)}{mode}"


def _random_case(rng) -> str:
    limit = rng.randint(1, 4)
    ptok, period = rng.choice(PERIODS)
    n = rng.randint(1, 12)
    style = rng.random()
    gaps: list[int] = [rng.choice([0, 0, 1, 2, period])]
    boundary = [period - 1, period, period + 1]
    if style >= 0.8:
        # a burst that overfills the window, then arrivals at exactly the instants the delayed calls start
        k = rng.randint(limit + 1, min(12, 2 * limit + 2))
        gaps = [rng.choice([0, 1])] + [rng.choice([0, 0, 0, 1]) for _ in range(k - 1)]
        sofar = sum(gaps)
        first = gaps[0]
        target = first + period          # the head expires here: the (limit+1)-th call of the burst starts then
        while len(gaps) < n:
            nxt = max(sofar, target)
            gaps.append(nxt - sofar)
            sofar = nxt
            target = rng.choice([sofar, sofar, sofar + period, sofar + 1])
        gaps = gaps[:n]
        toks = [_call(rng, g, period, tie=0.6 if j >= k else 0.2) for j, g in enumerate(gaps)]
        return " ".join([str(limit), ptok, *toks])
    while len(gaps) < n:
        if style < 0.2:      # bursts separated by boundary gaps
            k = rng.randint(1, limit + 2)
            gaps += [rng.choice(boundary + [0, 2 * period])] + [0] * (k - 1)
        elif style < 0.4:    # steady stream
            g = rng.choice([1, max(1, period // limit), max(1, period // limit) + 1, period - 1, period, period + 1, 2])
            gaps += [g] * rng.randint(2, 6)
            style = rng.random() * 0.8
        elif style < 0.6:    # boundary gaps +-1 tick
            gaps.append(rng.choice(boundary + [0, 0]))
        else:                # mixture
            gaps.append(rng.choice([0, 0, 0, 1, 1, 2, 3, period - 1, period, period + 1, 2 * period,
                                    rng.randint(0, 2 * min(period, 40))]))
    gaps = [max(0, g) for g in gaps[:n]]
    return " ".join([str(limit), ptok, *(_call(rng, g, period) for g in gaps)])


GRID_FORMS = {2: ["f2", "t0,0,500", "f2"], 3: ["f3", "t0,0,750", "f3"]}


def generate(rng, tier):
    if tier == "quick":
        for _ in range(4000):
            yield _random_case(rng)
        return
    k = 0
    for period in (2, 3):
        for limit in (1, 2, 3, 4):
            for n in range(1, 7):
                for first in (0, 1):
                    for rest in itertools.product(range(0, period + 2), repeat=n - 1):
                        for tie in ("", ":b"):
                            k += 1
                            ptok = GRID_FORMS[period][k % 3]
                            toks = [f"{g}:{DURS[(k + j) % 5] if k % 4 == 0 else 0}:"
                                    f"{OUTS[(k + 2 * j) % 5] if k % 3 == 0 else 'v'}{tie if j else ''}"
                                    for j, g in enumerate((first, *rest))]
                            yield " ".join([str(limit), ptok, *toks])
    for _ in range(200000):
        yield _random_case(rng)


def mutate(rng, case: str) -> str:
    toks = case.split()
    p = parse(case)
    if p is None or len(toks) < 2 or toks[0] == "-":
        return _random_case(rng)
    period = p[3]
    r = rng.random()
    if r < 0.15:
        toks[0] = str(rng.randint(1, 4))
    elif r < 0.3:
        toks[1] = rng.choice(PERIODS)[0]
    elif r < 0.55 and len(toks) < 14:
        toks.insert(rng.randint(2, len(toks)), _call(rng, rng.choice([0, 0, 1, period - 1, period, period + 1]), period))
    elif len(toks) > 2:
        i = rng.randrange(2, len(toks))
        parts = toks[i].split(":")
        if rng.random() < 0.3:
            parts = parts[:3] + ([] if len(parts) == 4 and parts[3] == "b" else ["b"])
        else:
            g = int(parts[0])
            parts[0] = str(max(0, g + rng.choice([-1, 1, -g, period])))
        toks[i] = ":".join(parts)
    return " ".join(toks)


def shrink(case: str):
    toks = case.split()
    if len(toks) < 2:
        return
    head, calls = toks[:2], [t.split(":") for t in toks[2:]]

    def join(cs):
        return " ".join(head + [":".join(c) for c in cs])

    for i in range(len(calls) - 1, -1, -1):     # drop a call, keeping later arrivals where they were
        rest = [list(c) for c in calls[:i] + calls[i + 1:]]
        if i < len(calls) - 1:
            rest[i][0] = str(int(rest[i][0]) + int(calls[i][0]))
        yield join(rest)
    for i in range(len(calls) - 1, -1, -1):     # drop a call, shifting the rest
        yield join(calls[:i] + calls[i + 1:])
    for i, c in enumerate(calls):
        if c[1] != "0":
            yield join(calls[:i] + [[c[0], "0", *c[2:]]] + calls[i + 1:])
        if c[2] != "v":
            yield join(calls[:i] + [[c[0], c[1], "v", *c[3:]]] + calls[i + 1:])
        if len(c) == 4:
            yield join(calls[:i] + [c[:3]] + calls[i + 1:])
        if int(c[0]) > 0:
            yield join(calls[:i] + [["0", *c[1:]]] + calls[i + 1:])
            yield join(calls[:i] + [[str(int(c[0]) - 1), *c[1:]]] + calls[i + 1:])
    if head[0] not in ("-", "0", "1"):
        yield " ".join([str(int(head[0]) - 1), head[1], *toks[2:]])
    p = parse(case)
    if p is not None and head[0] != "-" and p[2][0] != "f" and p[3] <= 40:
        yield " ".join([head[0], f"f{p[3]}", *toks[2:]])
