"""C16 – timeout wrapper: real `haiway.timeout` on the virtual loop vs `hwmodel timeout`.

case:  d=<n> k=<val|exc|base|self|fval|fexc|fbase> ig=<0|1> D=<n> c=<n|-> [st=<n>] [sc=1]
   sc  the call is made inside `async with ctx.scope("s"):` (nothing observable may change: the function's own outcome
       still reaches the caller – the scope's task group must not get involved; the model never sees `sc`)
   st  the function handed to `timeout(D)` is itself a timeout wrapper, `timeout(st)(fn)`, with `st` far beyond every other
       instant: stacking must not change anything observable (a wrapped callable is an object with attributes of its own;
       the model never sees `st`)
   or  multi D=<n> / s=<start> d= k= ig= c= / s=… (overlapping calls through ONE wrapper; c relative to the call's start;
       observation = the per-call observations joined by " / ", instants relative to each call's start)
  d  instant at which the wrapped function's own delay is over (0: it never suspends)
  k  how it ends: returns a value / raises an Exception / raises a BaseException subclass /
     raises CancelledError itself;   ig=1: it swallows the first cancellation and keeps waiting
  D  the timeout;   c  instant at which cancel() is called on the calling task (- = never);
     c=<t>+<k>: the harness steps the loop k single iterations into instant t (so between the callbacks
     that instant's events trigger: timer fired / task step / on_completion / on_result + caller wake-up)
     and then calls cancel() from outside
observation (one line, no messages, no addresses):
  out=<res|exc|base|timeout|cancelled|hang>@<virtual instant>   caller outcome
  at=<finished|cancelled|running:<n>|unstarted>   the function when the caller's instant is over
  end=…  seen=<cancellations delivered inside the function>  pend=<tasks alive at final quiescence>
  handler=<calls of the loop exception handler caused by a failing callback>
  tm=<timers still armed at the end of the first instant at which caller and function are both done>
  acc=<return value of cancel() on the caller: 1 = the caller was not done yet, - = never cancelled>
"""
from __future__ import annotations

import asyncio
import itertools

from harness import core, vloop

PID = "C16"
LEAN_COMPONENT = "timeout"
PROPS_MODULE = "Haiway.Props.C16"
ANCHORS = ["src/haiway/helpers/timeouted.py"]
KINDS = ["val", "exc", "base", "self", "fval", "fexc", "fbase", "xval", "cval"]
BASE_KINDS = KINDS[:4]
RULE = ("case = (function delay d, how it ends in {value, Exception, BaseException subclass, raises CancelledError itself}, "
        "swallows first cancellation or not, timeout D, caller cancellation instant c or none) in exact virtual time; "
        "both tiers: the full grid d in {0,1,3,6} x D in {0,1,2,3,4,6,8} x c in {none,0..9} x 8 profiles (2464 cases, "
        "includes every ordering and every tie of the three instants) plus the cancellation placed 0..5 single loop iterations "
        "into the instant of the function's end and of the deadline (2100 cases: between timer, task step, on_completion, "
        "on_result and the caller's wake-up); thorough adds the full grid d,D in 0..5, c in {none,0..6} "
        "and random instants up to 40; non-trivial = anything but 'value-returning function finishes strictly first, nobody "
        "cancels': the deadline or a caller cancellation comes at or before the function's end, or the function ends with an "
        "error / cancelled; distinct = by case text")
TRUSTED = ["asyncio Future/Task/call_later semantics as modelled in Haiway/Model/Timeout.lean (done-callbacks via call_soon, "
           "Task.cancel on a done waiter = must-cancel)", "harness/comp_timeout.py run_real + monitor, harness/vloop.py"]
ASSUMPTIONS = ["the wrapped function is characterised by (delay, kind of ending, swallows the first cancellation at most once)",
               "two environment events at the same virtual instant may be served in either order (the property is silent): "
               "the model answers with the set of admissible observations for such cases",
               "loop-exception-handler calls are counted only when caused by a failing callback ('handle' in context), "
               "not the garbage-collection notices about never-retrieved exceptions"]


class E(Exception):
    pass


class BE(BaseException):
    pass


class FE(E):
    """a falsy exception object (like an empty aggregate defining __len__/__bool__)"""

    def __bool__(self) -> bool:
        return False


class FBE(BE):
    def __bool__(self) -> bool:
        return False


def parse_full(case: str):
    """(d, kind, ig, D, c, k): k = number of single loop iterations into instant c after which the caller is
    cancelled from outside the loop (None: a timer armed before the call does it)"""
    f = dict(t.split("=", 1) for t in case.split())
    d, dl = int(f["d"]), int(f["D"])
    ck = None
    if f["c"] == "-":
        c = None
    elif "+" in f["c"]:
        a, b = f["c"].split("+", 1)
        c, ck = int(a), int(b)
    else:
        c = int(f["c"])
    if (f["k"] not in KINDS or f["ig"] not in ("0", "1") or d < 0 or dl < 0 or (c is not None and c < 0)
            or (ck is not None and not 0 <= ck <= 50)):
        raise ValueError(case)
    return d, f["k"], f["ig"] == "1", dl, c, ck


def stacked(case: str) -> int | None:
    for t in case.split():
        if t.startswith("st="):
            return int(t[3:])
    return None


def strip_st(case: str) -> str:
    return " ".join(t for t in case.split() if not t.startswith(("st=", "sc=")))


def model_input(case: str, out: str) -> str:
    return strip_st(case)


def parse(case: str):
    return parse_full(case)[:5]


def fmt(d, k, ig, dl, c, ck=None) -> str:
    cs = "-" if c is None else str(c) if ck is None else f"{c}+{ck}"
    return f"d={d} k={k} ig={int(ig)} D={dl} c={cs}"



def extra_obligations():
    """`_AsyncTimeout.__call__` and its callbacks `on_completion`, `on_timeout`, `on_result` regenerated from /repo's timeouted.py
    as MiniPy terms: Lean re-checks that each callback is the corresponding label of `Timeout.step` (runCompletion, timerFires,
    runResult) on every model state, and that `__call__` wires them - one future, one task from one call of the function, the
    timer armed with `self._timeout` for `on_timeout(future)`, `on_completion` on the task, `on_result` on the future, then
    `await future`"""
    from harness import core, regen

    return regen.check("timeout", core.REPO, core.LEAN)


def corpus():
    return [
        "d=1 k=self ig=0 D=3 c=-",    # function ends cancelled: caller hung for ever on the pinned tree
        "d=1 k=base ig=0 D=3 c=-",    # non-Exception error: same
        "d=0 k=self ig=1 D=2 c=-",
        "d=0 k=base ig=1 D=0 c=-",
        "d=2 k=val ig=0 D=3 c=-",
        "d=2 k=exc ig=0 D=3 c=-",
        "d=5 k=val ig=0 D=3 c=-",
        "d=5 k=exc ig=1 D=3 c=-",     # swallows the cancellation, fails later: error dropped, nothing left
        "d=5 k=self ig=1 D=3 c=4",
        "d=5 k=val ig=0 D=3 c=1",
        "d=5 k=base ig=1 D=3 c=1",
        "d=3 k=val ig=0 D=3 c=-",     # ties
        "d=3 k=val ig=0 D=5 c=3",
        "d=6 k=exc ig=1 D=3 c=3",
        "d=0 k=val ig=0 D=0 c=0",
        "d=3 k=val ig=0 D=5 c=3+3",   # cancel lands between the result future being completed and the caller resuming
        "d=3 k=exc ig=0 D=5 c=3+3",
        "d=5 k=val ig=0 D=3 c=3+1",   # same window after the deadline
        "d=5 k=val ig=1 D=3 c=3+2",
        "d=0 k=val ig=0 D=2 c=0+0",
        "d=1 k=fexc ig=0 D=3 c=-",    # falsy exception object / falsy result
        "d=1 k=fbase ig=0 D=3 c=-",
        "d=0 k=fval ig=0 D=3 c=-",
        "d=1 k=xval ig=0 D=3 c=-", "d=0 k=cval ig=0 D=3 c=-", "d=1 k=cval ig=0 D=3 c=-", "d=1 k=xval ig=0 D=3 c=- st=50",
        "multi D=3 / s=0 d=1 k=val ig=0 c=- / s=1 d=9 k=val ig=0 c=-",   # early call ends while a later one is pending
        "multi D=3 / s=0 d=9 k=val ig=0 c=- / s=1 d=1 k=val ig=0 c=-",
        "multi D=2 / s=0 d=1 k=exc ig=0 c=- / s=0 d=5 k=self ig=1 c=- / s=1 d=0 k=base ig=0 c=0",
    ]


def generate(rng, tier):
    cs = [None, *range(10)]
    for d, k, ig, dl, c in itertools.product((0, 1, 3, 6), KINDS, (False, True), (0, 1, 2, 3, 4, 6, 8), cs):
        if k in BASE_KINDS or c in (None, 0, 2, 3, 7) or tier == "thorough":
            yield fmt(d, k, ig, dl, c)
    # cancellation placed 0..5 single loop iterations into the instant of the function's end / of the deadline
    for d, k, ig, dl in itertools.product((0, 1, 3, 6), KINDS, (False, True), (0, 1, 2, 3, 4, 6, 8)):
        if k not in BASE_KINDS and tier == "quick" and dl not in (1, 3, 6):
            continue
        for c in sorted({d, dl}):
            for ck in range(6):
                yield fmt(d, k, ig, dl, c, ck)
    # the wrapped callable is itself a timeout wrapper with a far deadline: nothing observable may change
    for d, k, ig, dl, c in itertools.product((0, 1, 3, 6), BASE_KINDS, (False, True), (0, 1, 3, 4, 8), (None, 0, 2, 3, 7)):
        yield fmt(d, k, ig, dl, c) + " st=1000"
    # the call is made inside a scope: the function's outcome still reaches the caller unchanged
    for d, k, ig, dl, c in itertools.product((0, 1, 3), BASE_KINDS, (False, True), (0, 2, 4), (None, 0, 2, 3)):
        yield fmt(d, k, ig, dl, c) + " sc=1"
    # two overlapping calls through ONE wrapper: an early short one and a later one, all orders of completion
    for dl, s2, d1, k1, d2, k2, ig2, c2 in itertools.product((2, 4), (0, 1, 2), (1, 3), ("val", "exc"), (0, 2, 9),
                                                             BASE_KINDS, (False, True), (None, 1, 4)):
        yield fmt_multi(dl, [(0, d1, k1, False, None), (s2, d2, k2, ig2, c2)])
    for _ in range(300 if tier == "quick" else 6000):
        yield gen_multi(rng, rng.choice((2, 2, 3)))
    if tier == "thorough":
        for d, k, ig, dl, c in itertools.product(range(6), KINDS, (False, True), range(6), [None, *range(7)]):
            yield fmt(d, k, ig, dl, c)
    for _ in range(400 if tier == "quick" else 40000):
        hi = rng.choice((4, 10, 40))
        d, dl = rng.randint(0, hi), rng.randint(0, hi)
        r = rng.random()
        if r < 0.2:
            c, ck = None, None
        elif r < 0.6:
            c, ck = rng.randint(0, hi), None
        else:
            c, ck = rng.choice((d, dl, min(d, dl))), rng.randint(0, 7)
        yield fmt(d, rng.choice(KINDS), rng.random() < 0.5, dl, c, ck)


def parse_multi(case: str):
    """`multi D=<n> / s=<start> d= k= ig= c= / …` -> (D, [(s, d, kind, ig, c), …]); c relative to the call's start"""
    parts = case.split(" / ")
    head = parts[0].split()
    if len(head) != 2 or head[0] != "multi" or not head[1].startswith("D=") or len(parts) < 2 or len(parts) > 6:
        raise ValueError(case)
    dl = int(head[1][2:])
    calls = []
    for p in parts[1:]:
        f = dict(x.split("=", 1) for x in p.split())
        s = int(f["s"])
        d, kind, ig, _dl, c, ck = parse_full(f"d={f['d']} k={f['k']} ig={f['ig']} D={dl} c={f['c']}")
        if ck is not None or s < 0 or set(f) != {"s", "d", "k", "ig", "c"}:
            raise ValueError(case)
        calls.append((s, d, kind, ig, c))
    return dl, calls


def fmt_multi(dl, calls) -> str:
    return " / ".join([f"multi D={dl}"] + [f"s={s} d={d} k={k} ig={int(ig)} c={'-' if c is None else c}"
                                            for s, d, k, ig, c in calls])


def is_multi(case: str) -> bool:
    return case.startswith("multi ")


def single_of(dl, call) -> str:
    _s, d, k, ig, c = call
    return fmt(d, k, ig, dl, c)


# values the function returns: a string, a falsy value, an exception instance, a CancelledError instance (data, not raised:
# e.g. a collected error from gather(..., return_exceptions=True)) - the caller must get that very object back
XVAL = ValueError("returned, not raised")
CVAL = asyncio.CancelledError("returned, not raised")
VALUE_OF_KIND = {"val": "v", "fval": 0, "xval": XVAL, "cval": CVAL}


def run_real(case: str) -> str:
    from haiway import timeout

    try:
        if is_multi(case):
            dl, calls = parse_multi(case)
            ck = None
            multi = True
        else:
            d, kind, ig, dl, c, ck = parse_full(case)
            calls = [(0, d, kind, ig, c)]
            multi = False
    except Exception:  # noqa: BLE001
        return "bad-case"
    loop = vloop.new_loop()
    try:
        handler_calls = []
        loop.set_exception_handler(lambda _l, ctx: handler_calls.append(ctx) if "handle" in ctx else None)
        clock = vloop.CLOCK
        n = len(calls)
        info = [{"started": False, "seen": 0, "ended": None, "task": None} for _ in range(n)]

        st = None if multi else stacked(case)

        def deco(f):
            return timeout(dl)(timeout(st)(f) if st is not None else f)    # ONE wrapper for all calls of the case

        @deco
        async def fn(i: int):
            me = info[i]
            _s, d, kind, ig, _c = calls[i]
            me["started"] = True
            me["task"] = asyncio.current_task()
            begin = clock.now
            remaining = d
            ignored = False
            while remaining > 0:
                try:
                    await asyncio.sleep(remaining)
                    break
                except asyncio.CancelledError:
                    me["seen"] += 1
                    if ig and not ignored:
                        ignored = True
                        remaining = d - (clock.now - begin)
                        continue
                    me["ended"] = "cancelled"
                    raise
            me["ended"] = "finished"
            if kind in VALUE_OF_KIND:
                return VALUE_OF_KIND[kind]
            if kind == "exc":
                raise E("e")
            if kind == "fexc":
                raise FE("e")
            if kind == "base":
                raise BE("b")
            if kind == "fbase":
                raise FBE("b")
            raise asyncio.CancelledError()

        def status(i: int) -> str:
            me = info[i]
            if me["ended"]:
                return me["ended"]
            return f"running:{me['seen']}" if me["started"] else "unstarted"

        def fn_over(i: int) -> bool:
            return bool(info[i]["ended"]) or not info[i]["started"]

        t0 = clock.now
        callers: list = [None] * n
        when: list = [None] * n
        acc: list = [None] * n
        at: list = [None] * n
        tm: list = [None] * n

        in_scope = (not multi) and "sc=1" in case.split()

        async def scoped(i: int):
            from haiway import ctx

            async with ctx.scope("s"):
                return await fn(i)

        def start(i: int) -> None:
            callers[i] = loop.create_task(scoped(i) if in_scope else fn(i))
            callers[i].add_done_callback(lambda _t, i=i: when.__setitem__(i, clock.now - t0 - calls[i][0]))

        def cancel(i: int) -> None:
            if acc[i] is None and callers[i] is not None:
                acc[i] = callers[i].cancel()

        instants = {0}
        for s, d, _k, _ig, c in calls:
            instants |= {s, s + d, s + dl} | ({s + c} if c is not None else set())
        own_timers = []   # (absolute instant) of the harness's own cancel timers
        if not multi:
            start(0)
        for i, (s, _d, _k, _ig, c) in enumerate(calls):
            if c is not None and ck is None:
                loop.call_at(t0 + s + c, cancel, i)
                own_timers.append(s + c)
        last = max(instants)
        for t in sorted(instants):
            if multi:
                # everything before instant t is over: enter it and start the calls due now (in case order)
                clock.now = max(clock.now, t0 + t)
                for i, call in enumerate(calls):
                    if call[0] == t and callers[i] is None:
                        start(i)
            if ck is not None and t == calls[0][4]:
                # enter the instant, run exactly ck single loop iterations, cancel from outside
                clock.now = max(clock.now, t0 + t)
                for _ in range(ck):
                    loop.call_soon(loop.stop)
                    loop.run_forever()
                cancel(0)
            loop.advance_to(t0 + t)
            for i in range(n):
                if callers[i] is None:
                    continue
                if at[i] is None and callers[i].done():
                    at[i] = status(i)
                if not multi and tm[i] is None and callers[i].done() and fn_over(i):
                    tm[i] = loop.pending_timers() - sum(1 for x in own_timers if x > t)
            if multi and t == last:
                # all calls are over by now (every function's end is an instant): no wrapper timer may be left
                left = loop.pending_timers()
                for i in range(n):
                    if callers[i] is not None and callers[i].done() and fn_over(i):
                        tm[i] = left
        loop.quiesce(advance=True)
        for i in range(n):
            if callers[i] is not None and at[i] is None and callers[i].done():
                at[i] = status(i)
            if not multi and tm[i] is None and callers[i].done() and fn_over(i):
                tm[i] = loop.pending_timers()
        alive = sum(1 for t in asyncio.all_tasks(loop) if not t.done())
        pends = []
        for i in range(n):
            p = 0
            if callers[i] is not None and not callers[i].done():
                p += 1
            if info[i]["task"] is not None and not info[i]["task"].done():
                p += 1
            pends.append(p)
        if alive > sum(pends):
            pends[-1] += alive - sum(pends)   # tasks nobody accounts for
        outs = []
        for i in range(n):
            caller = callers[i]
            kind = calls[i][2]
            if caller is None or not caller.done():
                out = "hang@-"
            else:
                if caller.cancelled():
                    o = "cancelled"
                else:
                    exc = caller.exception()
                    if exc is None:
                        r = caller.result()
                        want = VALUE_OF_KIND.get(kind, "v")
                        o = "res" if (type(r) is type(want) and (r is want or (kind not in ("xval", "cval") and r == want))) \
                            else "other:value"
                    elif type(exc) is (FE if kind == "fexc" else E):
                        o = "exc"
                    elif type(exc) is (FBE if kind == "fbase" else BE):
                        o = "base"
                    elif isinstance(exc, TimeoutError):
                        o = "timeout"
                    else:
                        o = "other:" + type(exc).__name__
                w = when[i]
                out = f"{o}@{int(w) if w is not None and w == int(w) else w}"
            end = info[i]["ended"] or ("running" if info[i]["started"] else "unstarted")
            outs.append(f"out={out} at={at[i] or '-'} end={end} seen={info[i]['seen']} pend={pends[i]} "
                        f"handler={len(handler_calls)} tm={'-' if tm[i] is None else tm[i]} "
                        f"acc={'-' if acc[i] is None else int(bool(acc[i]))}")
        return " / ".join(outs)
    except vloop.NoQuiescence:
        return "HANG(no-quiescence)"
    finally:
        vloop.close_loop(loop)


# ---------------------------------------------------------------------------------------------
# comparison: ties are compared by membership in the model's admissible set

_ALTS: dict[str, list[list[str]]] = {}


def has_tie_single(case: str) -> bool:
    try:
        d, _k, _ig, dl, c = parse(case)
    except Exception:  # noqa: BLE001
        return False
    ts = [d, dl] + ([c] if c is not None else [])
    return len(set(ts)) < len(ts) or c == 0   # c=0 ties with the start of the call itself
    # (c=<t>+<k> with t an event instant is a tie of the two by construction: the model answers with the
    #  outcomes of every position of the cancellation among that instant's callbacks)


def has_tie(case: str) -> bool:
    if is_multi(case):
        try:
            dl, calls = parse_multi(case)
        except Exception:  # noqa: BLE001
            return False
        return any(has_tie_single(single_of(dl, c)) for c in calls)
    return has_tie_single(case)


def _alts_of(model_out: str) -> list[list[str]]:
    """per call: the admissible observation lines"""
    return [p[4:].split(" || ") if p.startswith("ALT ") else [p] for p in model_out.split(" / ")]


def canon(case: str, out: str) -> str:
    """Model lines of tie cases read `ALT a || b` (per call): the implementation's line must be one of them.
    (Two environment events at one virtual instant: their order on the real loop is the order in
    which the timers were armed, which a harmless rewrite may change and on which the property is
    silent.)  For cases without a tie an `ALT` line is compared literally, i.e. it disagrees."""
    if "ALT " in out:
        if not has_tie(case):
            return out
        _ALTS[case] = _alts_of(out)
        return "TIE"
    if has_tie(case):
        alts = _ALTS.get(case)
        if alts is None:
            alts = _alts_of(core.run_model(LEAN_COMPONENT, [case])[0])
            _ALTS[case] = alts
        parts = out.split(" / ")
        return "TIE" if len(parts) == len(alts) and all(p in a for p, a in zip(parts, alts)) else out
    return out


# ---------------------------------------------------------------------------------------------
# the property, on the implementation's observation

OUTCOME_OF_KIND = {"val": "res", "exc": "exc", "base": "base", "self": "cancelled", "fval": "res", "fexc": "exc", "fbase": "base",
                   "xval": "res", "cval": "res"}


def fields(out: str) -> dict[str, str] | None:
    try:
        f = dict(t.split("=", 1) for t in out.split())
        for k in ("out", "at", "end", "seen", "pend", "handler", "tm", "acc"):
            f[k]
        f["okind"], f["otime"] = f["out"].split("@", 1)
        return f
    except Exception:  # noqa: BLE001
        return None


def monitor_single(case: str, out: str) -> list[str]:
    try:
        d, kind, _ig, dl, c = parse(case)
    except Exception:  # noqa: BLE001
        return []
    f = fields(out)
    if f is None:
        return ["timeout.no-observation:" + out[:30]]
    fails = []
    events = [(d, "fin"), (dl, "deadline")] + ([(c, "cancel")] if c is not None else [])
    first_t = min(t for t, _ in events)
    firsts = {e for t, e in events if t == first_t}
    allowed = set()
    if "fin" in firsts:
        allowed.add(OUTCOME_OF_KIND[kind])
    if "deadline" in firsts:
        allowed.add("timeout")
    if "cancel" in firsts:
        allowed.add("cancelled")
    if f["handler"] != "0":
        fails.append("timeout.loop-exception-handler")
    if f["okind"] == "hang":
        fails.append("timeout.caller-hangs")
        return sorted(set(fails))
    if f["acc"] == "1" and f["okind"] != "cancelled":
        # cancel() was accepted (the caller had not finished) yet the caller did not end cancelled
        fails.append("timeout.caller-cancellation-swallowed")
    elif f["okind"] not in allowed:
        fails.append("timeout.wrong-outcome")
    elif f["otime"] != str(first_t):
        fails.append("timeout.wrong-instant")
    if "fin" not in firsts:
        # the deadline / the caller's cancellation came strictly first: by the end of that instant
        # the function must have been cancelled (request delivered, or it never ran)
        at = f["at"]
        ok = at in ("cancelled", "unstarted") or (at.startswith("running:") and at != "running:0")
        if not ok:
            fails.append("timeout.function-not-cancelled")
    if f["pend"] != "0":
        fails.append("timeout.left-running")
    if f["tm"] not in ("0", "-"):
        fails.append("timeout.timer-left-armed")   # "leaves nothing running": caller and function done, timer still armed
    return sorted(set(fails))


def monitor(case: str, out: str) -> list[str]:
    """The property per call.  Overlapping calls through one wrapper are judged one by one, each against its own
    (delay, ending, timeout, cancellation), instants relative to its own start."""
    if not is_multi(case):
        return monitor_single(case, out)
    try:
        dl, calls = parse_multi(case)
    except Exception:  # noqa: BLE001
        return []
    parts = out.split(" / ")
    if len(parts) != len(calls):
        return ["timeout.no-observation:" + out[:30]]
    fails = set()
    for call, part in zip(calls, parts):
        fails |= set(monitor_single(single_of(dl, call), part))
    return sorted(fails)


def overlapping(dl, calls) -> bool:
    spans = [(s, s + max(min(d, dl), 1)) for s, d, _k, _ig, _c in calls]
    return any(a[0] < b[1] and b[0] < a[1] for i, a in enumerate(spans) for b in spans[i + 1:])


def nontrivial(case: str, out: str) -> bool:
    if is_multi(case):
        try:
            dl, calls = parse_multi(case)
        except Exception:  # noqa: BLE001
            return False
        return overlapping(dl, calls)
    try:
        d, kind, _ig, dl, c = parse(case)
    except Exception:  # noqa: BLE001
        return False
    return not (kind == "val" and d < dl and (c is None or d < c))


def classify(case: str, out: str):
    if is_multi(case):
        try:
            dl, calls = parse_multi(case)
        except Exception:  # noqa: BLE001
            yield "bad-case"
            return
        yield f"calls:{len(calls)}"
        if overlapping(dl, calls):
            yield "calls:overlapping"
        for part in out.split(" / "):
            f = fields(part)
            if f:
                yield "out:" + f["okind"]
        return
    try:
        d, kind, ig, dl, c = parse(case)
    except Exception:  # noqa: BLE001
        yield "bad-case"
        return
    yield f"kind:{kind}"
    yield "fn:ignores-first-cancel" if ig else "fn:honours-cancel"
    yield "timeout:" + ("shorter" if dl < d else "equal" if dl == d else "longer")
    if c is None:
        yield "cancel:none"
    else:
        lo, hi = min(d, dl), max(d, dl)
        yield "cancel:" + ("before" if c < lo else "at-first" if c == lo else "between" if c < hi else "at-second" if c == hi else "after")
    if has_tie(case):
        yield "tie"
    f = fields(out)
    if f:
        yield "out:" + f["okind"]
        if f["seen"] != "0":
            yield "obs:cancellation-seen-inside"


def gen_multi(rng, n: int) -> str:
    dl = rng.randint(1, 6)
    calls = []
    for _ in range(n):
        c = None if rng.random() < 0.6 else rng.randint(0, 7)
        calls.append((rng.randint(0, 4), rng.randint(0, 9), rng.choice(KINDS), rng.random() < 0.3, c))
    return fmt_multi(dl, calls)


def mutate(rng, case: str) -> str:
    if is_multi(case):
        try:
            dl, calls = parse_multi(case)
        except Exception:  # noqa: BLE001
            return gen_multi(rng, 2)
        i = rng.randrange(len(calls))
        if rng.random() < 0.3:
            return single_of(dl, calls[i])
        s, d, k, ig, c = calls[i]
        r = rng.randrange(4)
        if r == 0:
            s = max(0, s + rng.choice((-1, 1)))
        elif r == 1:
            d = max(0, d + rng.choice((-2, -1, 1, 2)))
        elif r == 2:
            k = rng.choice(KINDS)
        else:
            dl = max(0, dl + rng.choice((-1, 1)))
        calls[i] = (s, d, k, ig, c)
        return fmt_multi(dl, calls)
    try:
        d, k, ig, dl, c, ck = parse_full(case)
    except Exception:  # noqa: BLE001
        return "d=1 k=val ig=0 D=2 c=-"
    for _ in range(rng.randint(1, 2)):
        r = rng.randrange(5)
        if r == 0:
            d = max(0, d + rng.choice((-2, -1, 1, 2)))
        elif r == 1:
            dl = max(0, dl + rng.choice((-2, -1, 1, 2)))
        elif r == 2:
            c = None if rng.random() < 0.3 else max(0, (c or 0) + rng.choice((-2, -1, 0, 1, 2)))
            ck = None if c is None or rng.random() < 0.4 else rng.randint(0, 6)
        elif r == 3:
            k = rng.choice(KINDS)
        else:
            ig = not ig
    return fmt(d, k, ig, dl, c, ck if c is not None else None)


def shrink(case: str):
    if is_multi(case):
        try:
            dl, calls = parse_multi(case)
        except Exception:  # noqa: BLE001
            return
        if len(calls) > 2:
            for i in range(len(calls)):
                yield fmt_multi(dl, calls[:i] + calls[i + 1:])
        for call in calls:
            yield single_of(dl, call)
        for i, (s, d, k, ig, c) in enumerate(calls):
            for s2, d2, k2, ig2, c2 in ((max(s - 1, 0), d, k, ig, c), (s, d // 2, k, ig, c), (s, max(d - 1, 0), k, ig, c),
                                         (s, d, "val", ig, c), (s, d, k, False, c), (s, d, k, ig, None)):
                cand = calls[:i] + [(s2, d2, k2, ig2, c2)] + calls[i + 1:]
                if cand != calls:
                    yield fmt_multi(dl, cand)
        if dl > 1:
            yield fmt_multi(dl - 1, calls)
        return
    try:
        d, k, ig, dl, c, ck = parse_full(case)
    except Exception:  # noqa: BLE001
        return
    if c is not None:
        yield fmt(d, k, ig, dl, None)
    if ig:
        yield fmt(d, k, False, dl, c, ck)
    for d2 in sorted({0, 1, d // 2, d - 1}):
        if 0 <= d2 < d:
            yield fmt(d2, k, ig, dl, c, ck)
    for dl2 in sorted({0, 1, dl // 2, dl - 1}):
        if 0 <= dl2 < dl:
            yield fmt(d, k, ig, dl2, c, ck)
    if c:
        for c2 in sorted({0, c // 2, c - 1}):
            if 0 <= c2 < c:
                yield fmt(d, k, ig, dl, c2, ck)
    if k != "val":
        yield fmt(d, "val", ig, dl, c, ck)
    if ck:
        for k2 in sorted({0, ck - 1}):
            if k2 < ck:
                yield fmt(d, k, ig, dl, c, k2)
    if ck is not None:
        yield fmt(d, k, ig, dl, c)
