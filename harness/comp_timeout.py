"""C16 – timeout wrapper: real `haiway.timeout` on the virtual loop vs `hwmodel timeout`.

case:  d=<n> k=<val|exc|base|self> ig=<0|1> D=<n> c=<n|->
  d  instant at which the wrapped function's own delay is over (0: it never suspends)
  k  how it ends: returns a value / raises an Exception / raises a BaseException subclass /
     raises CancelledError itself;   ig=1: it swallows the first cancellation and keeps waiting
  D  the timeout;   c  instant at which cancel() is called on the calling task (- = never);
     c=<t>+<k>: the harness steps the loop k single iterations into instant t (so between the callbacks
     that instant's events trigger: timer fired / task step / on_completion / on_result + caller wake-up)
     and then calls cancel() from outside
observation (one line, no messages, no addresses):
  out=<res|exc|base|timeout|cancelled|hang>@<virtual instant>   caller outcome
  at=<finished|cancelled|running:<n>|unstarted>   the function when the caller's instant is over
  end=…  seen=<cancellations delivered inside the function>  pend=<tasks alive at final quiescence>
  handler=<calls of the loop exception handler caused by a failing callback>
  tm=<timers still armed at the end of the first instant at which caller and function are both done>
  acc=<return value of cancel() on the caller: 1 = the caller was not done yet, - = never cancelled>
"""
from __future__ import annotations

import asyncio
import itertools

from harness import core, vloop

PID = "C16"
LEAN_COMPONENT = "timeout"
PROPS_MODULE = "Haiway.Props.C16"
ANCHORS = ["src/haiway/helpers/timeouted.py"]
KINDS = ["val", "exc", "base", "self"]
RULE = ("case = (function delay d, how it ends in {value, Exception, BaseException subclass, raises CancelledError itself}, "
        "swallows first cancellation or not, timeout D, caller cancellation instant c or none) in exact virtual time; "
        "both tiers: the full grid d in {0,1,3,6} x D in {0,1,2,3,4,6,8} x c in {none,0..9} x 8 profiles (2464 cases, "
        "includes every ordering and every tie of the three instants) plus the cancellation placed 0..5 single loop iterations "
        "into the instant of the function's end and of the deadline (2100 cases: between timer, task step, on_completion, "
        "on_result and the caller's wake-up); thorough adds the full grid d,D in 0..5, c in {none,0..6} "
        "and random instants up to 40; non-trivial = anything but 'value-returning function finishes strictly first, nobody "
        "cancels': the deadline or a caller cancellation comes at or before the function's end, or the function ends with an "
        "error / cancelled; distinct = by case text")
TRUSTED = ["asyncio Future/Task/call_later semantics as modelled in Haiway/Model/Timeout.lean (done-callbacks via call_soon, "
           "Task.cancel on a done waiter = must-cancel)", "harness/comp_timeout.py run_real + monitor, harness/vloop.py"]
ASSUMPTIONS = ["the wrapped function is characterised by (delay, kind of ending, swallows the first cancellation at most once)",
               "two environment events at the same virtual instant may be served in either order (the property is silent): "
               "the model answers with the set of admissible observations for such cases",
               "loop-exception-handler calls are counted only when caused by a failing callback ('handle' in context), "
               "not the garbage-collection notices about never-retrieved exceptions"]


class E(Exception):
    pass


class BE(BaseException):
    pass


def parse_full(case: str):
    """(d, kind, ig, D, c, k): k = number of single loop iterations into instant c after which the caller is
    cancelled from outside the loop (None: a timer armed before the call does it)"""
    f = dict(t.split("=", 1) for t in case.split())
    d, dl = int(f["d"]), int(f["D"])
    ck = None
    if f["c"] == "-":
        c = None
    elif "+" in f["c"]:
        a, b = f["c"].split("+", 1)
        c, ck = int(a), int(b)
    else:
        c = int(f["c"])
    if (f["k"] not in KINDS or f["ig"] not in ("0", "1") or d < 0 or dl < 0 or (c is not None and c < 0)
            or (ck is not None and not 0 <= ck <= 50)):
        raise ValueError(case)
    return d, f["k"], f["ig"] == "1", dl, c, ck


def parse(case: str):
    return parse_full(case)[:5]


def fmt(d, k, ig, dl, c, ck=None) -> str:
    cs = "-" if c is None else str(c) if ck is None else f"{c}+{ck}"
    return f"d={d} k={k} ig={int(ig)} D={dl} c={cs}"


def corpus():
    return [
        "d=1 k=self ig=0 D=3 c=-",    # function ends cancelled: caller hung for ever on the pinned tree
        "d=1 k=base ig=0 D=3 c=-",    # non-Exception error: same
        "d=0 k=self ig=1 D=2 c=-",
        "d=0 k=base ig=1 D=0 c=-",
        "d=2 k=val ig=0 D=3 c=-",
        "d=2 k=exc ig=0 D=3 c=-",
        "d=5 k=val ig=0 D=3 c=-",
        "d=5 k=exc ig=1 D=3 c=-",     # swallows the cancellation, fails later: error dropped, nothing left
        "d=5 k=self ig=1 D=3 c=4",
        "d=5 k=val ig=0 D=3 c=1",
        "d=5 k=base ig=1 D=3 c=1",
        "d=3 k=val ig=0 D=3 c=-",     # ties
        "d=3 k=val ig=0 D=5 c=3",
        "d=6 k=exc ig=1 D=3 c=3",
        "d=0 k=val ig=0 D=0 c=0",
        "d=3 k=val ig=0 D=5 c=3+3",   # cancel lands between the result future being completed and the caller resuming
        "d=3 k=exc ig=0 D=5 c=3+3",
        "d=5 k=val ig=0 D=3 c=3+1",   # same window after the deadline
        "d=5 k=val ig=1 D=3 c=3+2",
        "d=0 k=val ig=0 D=2 c=0+0",
    ]


def generate(rng, tier):
    cs = [None, *range(10)]
    for d, k, ig, dl, c in itertools.product((0, 1, 3, 6), KINDS, (False, True), (0, 1, 2, 3, 4, 6, 8), cs):
        yield fmt(d, k, ig, dl, c)
    # cancellation placed 0..5 single loop iterations into the instant of the function's end / of the deadline
    for d, k, ig, dl in itertools.product((0, 1, 3, 6), KINDS, (False, True), (0, 1, 2, 3, 4, 6, 8)):
        for c in sorted({d, dl}):
            for ck in range(6):
                yield fmt(d, k, ig, dl, c, ck)
    if tier == "thorough":
        for d, k, ig, dl, c in itertools.product(range(6), KINDS, (False, True), range(6), [None, *range(7)]):
            yield fmt(d, k, ig, dl, c)
    for _ in range(400 if tier == "quick" else 40000):
        hi = rng.choice((4, 10, 40))
        d, dl = rng.randint(0, hi), rng.randint(0, hi)
        r = rng.random()
        if r < 0.2:
            c, ck = None, None
        elif r < 0.6:
            c, ck = rng.randint(0, hi), None
        else:
            c, ck = rng.choice((d, dl, min(d, dl))), rng.randint(0, 7)
        yield fmt(d, rng.choice(KINDS), rng.random() < 0.5, dl, c, ck)


def run_real(case: str) -> str:
    from haiway import timeout

    try:
        d, kind, ig, dl, c, ck = parse_full(case)
    except Exception:  # noqa: BLE001
        return "bad-case"
    loop = vloop.new_loop()
    try:
        handler_calls = []
        loop.set_exception_handler(lambda _l, ctx: handler_calls.append(ctx) if "handle" in ctx else None)
        info = {"started": False, "seen": 0, "ended": None}
        clock = vloop.CLOCK

        @timeout(dl)
        async def fn():
            info["started"] = True
            begin = clock.now
            remaining = d
            ignored = False
            while remaining > 0:
                try:
                    await asyncio.sleep(remaining)
                    break
                except asyncio.CancelledError:
                    info["seen"] += 1
                    if ig and not ignored:
                        ignored = True
                        remaining = d - (clock.now - begin)
                        continue
                    info["ended"] = "cancelled"
                    raise
            info["ended"] = "finished"
            if kind == "val":
                return "v"
            if kind == "exc":
                raise E("e")
            if kind == "base":
                raise BE("b")
            raise asyncio.CancelledError()

        def status() -> str:
            if info["ended"]:
                return info["ended"]
            return f"running:{info['seen']}" if info["started"] else "unstarted"

        t0 = clock.now
        when = {}
        caller = loop.create_task(fn())
        caller.add_done_callback(lambda _t: when.setdefault("t", clock.now - t0))
        acc = {}
        if c is not None and ck is None:
            loop.call_at(t0 + c, lambda: acc.setdefault("v", caller.cancel()))
        at = None
        tm = None
        for t in sorted({0, d, dl} | ({c} if c is not None else set())):
            if ck is not None and t == c:
                # everything before instant c is over; enter the instant, run exactly ck loop iterations, cancel
                clock.now = max(clock.now, t0 + t)
                for _ in range(ck):
                    loop.call_soon(loop.stop)
                    loop.run_forever()
                acc["v"] = caller.cancel()
            loop.advance_to(t0 + t)
            if at is None and caller.done():
                at = status()
            if tm is None and caller.done() and (info["ended"] or not info["started"]):
                own = 1 if (c is not None and ck is None and c > t) else 0   # the harness's own cancel timer
                tm = loop.pending_timers() - own
        loop.quiesce(advance=True)
        if at is None and caller.done():
            at = status()
        if tm is None and caller.done() and (info["ended"] or not info["started"]):
            tm = loop.pending_timers()
        if not caller.done():
            out = "hang@-"
        else:
            if caller.cancelled():
                o = "cancelled"
            else:
                exc = caller.exception()
                if exc is None:
                    o = "res" if caller.result() == "v" else "other:value"
                elif type(exc) is E:
                    o = "exc"
                elif type(exc) is BE:
                    o = "base"
                elif isinstance(exc, TimeoutError):
                    o = "timeout"
                else:
                    o = "other:" + type(exc).__name__
            t = when.get("t")
            out = f"{o}@{int(t) if t is not None and t == int(t) else t}"
        pend = sum(1 for t in asyncio.all_tasks(loop) if not t.done())
        end = info["ended"] or ("running" if info["started"] else "unstarted")
        return f"out={out} at={at or '-'} end={end} seen={info['seen']} pend={pend} handler={len(handler_calls)} tm={'-' if tm is None else tm} acc={'-' if 'v' not in acc else int(bool(acc['v']))}"
    except vloop.NoQuiescence:
        return "HANG(no-quiescence)"
    finally:
        vloop.close_loop(loop)


# ---------------------------------------------------------------------------------------------
# comparison: ties are compared by membership in the model's admissible set

_ALTS: dict[str, list[str]] = {}


def has_tie(case: str) -> bool:
    try:
        d, _k, _ig, dl, c = parse(case)
    except Exception:  # noqa: BLE001
        return False
    ts = [d, dl] + ([c] if c is not None else [])
    return len(set(ts)) < len(ts) or c == 0   # c=0 ties with the start of the call itself
    # (c=<t>+<k> with t an event instant is a tie of the two by construction: the model answers with the
    #  outcomes of every position of the cancellation among that instant's callbacks)


def canon(case: str, out: str) -> str:
    """Model lines of tie cases read `ALT a || b`: the implementation's line must be one of them.
    (Two environment events at one virtual instant: their order on the real loop is the order in
    which the timers were armed, which a harmless rewrite may change and on which the property is
    silent.)  For cases without a tie an `ALT` line is compared literally, i.e. it disagrees."""
    if out.startswith("ALT "):
        if not has_tie(case):
            return out
        _ALTS[case] = out[4:].split(" || ")
        return "TIE"
    if has_tie(case):
        alts = _ALTS.get(case)
        if alts is None:
            m = core.run_model(LEAN_COMPONENT, [case])[0]
            alts = m[4:].split(" || ") if m.startswith("ALT ") else [m]
            _ALTS[case] = alts
        return "TIE" if out in alts else out
    return out


# ---------------------------------------------------------------------------------------------
# the property, on the implementation's observation

OUTCOME_OF_KIND = {"val": "res", "exc": "exc", "base": "base", "self": "cancelled"}


def fields(out: str) -> dict[str, str] | None:
    try:
        f = dict(t.split("=", 1) for t in out.split())
        for k in ("out", "at", "end", "seen", "pend", "handler", "tm", "acc"):
            f[k]
        f["okind"], f["otime"] = f["out"].split("@", 1)
        return f
    except Exception:  # noqa: BLE001
        return None


def monitor(case: str, out: str) -> list[str]:
    try:
        d, kind, _ig, dl, c = parse(case)
    except Exception:  # noqa: BLE001
        return []
    f = fields(out)
    if f is None:
        return ["timeout.no-observation:" + out[:30]]
    fails = []
    events = [(d, "fin"), (dl, "deadline")] + ([(c, "cancel")] if c is not None else [])
    first_t = min(t for t, _ in events)
    firsts = {e for t, e in events if t == first_t}
    allowed = set()
    if "fin" in firsts:
        allowed.add(OUTCOME_OF_KIND[kind])
    if "deadline" in firsts:
        allowed.add("timeout")
    if "cancel" in firsts:
        allowed.add("cancelled")
    if f["handler"] != "0":
        fails.append("timeout.loop-exception-handler")
    if f["okind"] == "hang":
        fails.append("timeout.caller-hangs")
        return sorted(set(fails))
    if f["acc"] == "1" and f["okind"] != "cancelled":
        # cancel() was accepted (the caller had not finished) yet the caller did not end cancelled
        fails.append("timeout.caller-cancellation-swallowed")
    elif f["okind"] not in allowed:
        fails.append("timeout.wrong-outcome")
    elif f["otime"] != str(first_t):
        fails.append("timeout.wrong-instant")
    if "fin" not in firsts:
        # the deadline / the caller's cancellation came strictly first: by the end of that instant
        # the function must have been cancelled (request delivered, or it never ran)
        at = f["at"]
        ok = at in ("cancelled", "unstarted") or (at.startswith("running:") and at != "running:0")
        if not ok:
            fails.append("timeout.function-not-cancelled")
    if f["pend"] != "0":
        fails.append("timeout.left-running")
    if f["tm"] not in ("0", "-"):
        fails.append("timeout.timer-left-armed")   # "leaves nothing running": caller and function done, timer still armed
    return sorted(set(fails))


def nontrivial(case: str, out: str) -> bool:
    try:
        d, kind, _ig, dl, c = parse(case)
    except Exception:  # noqa: BLE001
        return False
    return not (kind == "val" and d < dl and (c is None or d < c))


def classify(case: str, out: str):
    try:
        d, kind, ig, dl, c = parse(case)
    except Exception:  # noqa: BLE001
        yield "bad-case"
        return
    yield f"kind:{kind}"
    yield "fn:ignores-first-cancel" if ig else "fn:honours-cancel"
    yield "timeout:" + ("shorter" if dl < d else "equal" if dl == d else "longer")
    if c is None:
        yield "cancel:none"
    else:
        lo, hi = min(d, dl), max(d, dl)
        yield "cancel:" + ("before" if c < lo else "at-first" if c == lo else "between" if c < hi else "at-second" if c == hi else "after")
    if has_tie(case):
        yield "tie"
    f = fields(out)
    if f:
        yield "out:" + f["okind"]
        if f["seen"] != "0":
            yield "obs:cancellation-seen-inside"


def mutate(rng, case: str) -> str:
    try:
        d, k, ig, dl, c, ck = parse_full(case)
    except Exception:  # noqa: BLE001
        return "d=1 k=val ig=0 D=2 c=-"
    for _ in range(rng.randint(1, 2)):
        r = rng.randrange(5)
        if r == 0:
            d = max(0, d + rng.choice((-2, -1, 1, 2)))
        elif r == 1:
            dl = max(0, dl + rng.choice((-2, -1, 1, 2)))
        elif r == 2:
            c = None if rng.random() < 0.3 else max(0, (c or 0) + rng.choice((-2, -1, 0, 1, 2)))
            ck = None if c is None or rng.random() < 0.4 else rng.randint(0, 6)
        elif r == 3:
            k = rng.choice(KINDS)
        else:
            ig = not ig
    return fmt(d, k, ig, dl, c, ck if c is not None else None)


def shrink(case: str):
    try:
        d, k, ig, dl, c, ck = parse_full(case)
    except Exception:  # noqa: BLE001
        return
    if c is not None:
        yield fmt(d, k, ig, dl, None)
    if ig:
        yield fmt(d, k, False, dl, c, ck)
    for d2 in sorted({0, 1, d // 2, d - 1}):
        if 0 <= d2 < d:
            yield fmt(d2, k, ig, dl, c, ck)
    for dl2 in sorted({0, 1, dl // 2, dl - 1}):
        if 0 <= dl2 < dl:
            yield fmt(d, k, ig, dl2, c, ck)
    if c:
        for c2 in sorted({0, c // 2, c - 1}):
            if 0 <= c2 < c:
                yield fmt(d, k, ig, dl, c2, ck)
    if k != "val":
        yield fmt(d, "val", ig, dl, c, ck)
    if ck:
        for k2 in sorted({0, ck - 1}):
            if k2 < ck:
                yield fmt(d, k, ig, dl, c, k2)
    if ck is not None:
        yield fmt(d, k, ig, dl, c)
