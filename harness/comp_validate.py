"""C05 – State construction accepts exactly conforming values and stores them faithfully:
real `haiway.State` classes built from generated annotation terms vs `hwmodel validate`."""
from __future__ import annotations

from harness import core  # noqa: F401
from harness.state_common import (
    BASE_NAMES, BASE_SPECS, C_GEN, C_INNER, C_INT, C_STR, Ctx, Oracle, canon_sets, exc_name, field, parse_case, parse_seq, show,
    universe,
)
from harness.state_gen import (
    JUNK, Gen, break_node, cls, depth_of, get_at, normalise, paths, set_at, vocab,
)

PID = "C05"
LEAN_COMPONENT = "validate"
PROPS_MODULE = "Haiway.Props.C05"
ANCHORS = ["src/haiway/state/validation.py", "src/haiway/state/attributes.py", "src/haiway/state/structure.py"]
RULE = ("case = one State class built with StateMeta from 1-3 generated attribute annotations (surface terms of depth 0-4 over "
        "None/bool/int/float/str/bytes/UUID/date-time types/Path/Enum (plain, str-, int-mixin)/Literal/Any/Missing/Callable/"
        "Protocol/nested, recursive, generic and specialised State/Sequence/Set/frozenset/Mapping/tuple[...]/Union, |, Optional/"
        "Annotated/Final/forward references/Self/type variables (bound, unbound, class arguments)/plain and parametrised type "
        "aliases), optionally generic and specialised, with defaults, plus one constructor call whose arguments are generated "
        "from the annotation (conforming), broken at one random position, omitted, or MISSING; "
        "non-trivial = some attribute annotation has depth >= 1 and its argument value has >= 2 nodes; distinct = by case text; "
        "distribution: out:* = accepted/rejected share, k:* = vocabulary histogram (cases whose class uses the construct), "
        "arg:* = how the arguments were produced")
TRUSTED = ["Python's isinstance / structural pattern matching / typing introspection as used by haiway (modelled through the "
           "class table computed with the real issubclass)",
           "harness/state_common.py (construction of real classes and values from the case text, serialisation) and "
           "harness/state_gen.py (generator)"]
ASSUMPTIONS = ["values range over the PyVal vocabulary (no NaN, floats are half-integers, strings without blanks)",
               "type-variable names of aliases and classes are pairwise distinct; aliases are not recursive",
               "set elements and mapping keys are hashable Python values (validation is the identity on them: Lean "
               "`hashable_fixed`), so the model builds frozenset/mappingproxy without de-duplication",
               "`Self` is not used inside alias bodies (haiway resolves it to Any there, with a warning)"]


def setup():
    universe()


def header(g: Gen, extra_sub) -> str:
    u = universe()
    sub = [[str(a), str(b)] for a, b in [*u.base_sub, *extra_sub]]
    aliases = [[a[0], list(a[1]), a[2]] for a in reversed(g.aliases)]
    bounds = [[n, str(c)] for n, c in g.bounds.items()]
    return " ".join(show(x) for x in (["sub", *sub], ["names", *BASE_NAMES], ["bounds", *bounds],
                                      ["aliases", *aliases], ["specs", *BASE_SPECS]))


def gen_case(rng, want_depth=None) -> str:
    g = Gen(rng)
    g.make_aliases(rng.choice([0, 0, 1, 2, 3]))
    params: list[str] = []
    tp: list = []
    cid = C_GEN
    extra_sub = []
    if rng.random() < 0.3:
        params = rng.choice([["T"], ["T"], ["T", "U"]])
        for p in params:
            if rng.random() < 0.4:
                g.bounds[p] = rng.choice([C_INT, C_INNER, C_STR])
        if rng.random() < 0.6:
            tp = [[p, cls(rng.choice([C_INT, C_STR, C_INNER]))] for p in params]
            cid = C_GEN + 1
            extra_sub.append((C_GEN + 1, C_GEN))
    env = {p: t for p, t in tp}
    attrs, kwargs, modes = [], [], []
    for name in ["a", "b", "c"][: rng.choice([1, 1, 2, 2, 3])]:
        d = want_depth if want_depth is not None else rng.choice([0, 1, 2, 2, 3, 3, 4, 4])
        t = g.ty(d, params=params, top=True)
        used = [a[1] for a in attrs if isinstance(a[1], list) and a[1][0] == "alias" and len(a[1]) > 2]
        if used and rng.random() < 0.5:
            # the same parametrised alias as an earlier attribute, with other arguments
            prev = rng.choice(used)
            t = ["alias", prev[1], *[cls(rng.choice([C_INT, C_STR, C_INNER])) for _ in prev[2:]]]
        if rng.random() < 0.05:
            t = ["final", t]
        dflt = "-"
        x = rng.random()
        if x < 0.25:
            v = g.val(t, env)
            dflt = normalise(v) if v is not None else "-"
        elif x < 0.30:
            dflt = rng.choice(JUNK)
        attrs.append([name, t, dflt])
        x = rng.random()
        if x < 0.50:
            v = g.val(t, env)
            if v is None:
                modes.append("omitted")
                continue
            modes.append("conforming")
            kwargs.append([name, normalise(v)])
        elif x < 0.85:
            v = g.val(t, env)
            if v is None:
                v = rng.choice(JUNK)
            ps = list(paths(v))
            p = rng.choice(ps)
            v = set_at(v, p, break_node(rng, get_at(v, p)))
            modes.append("broken")
            kwargs.append([name, normalise(v)])
        elif x < 0.92:
            modes.append("omitted")
        elif x < 0.96:
            modes.append("explicit-missing")
            kwargs.append([name, "M"])
        else:
            modes.append("junk")
            kwargs.append([name, normalise(rng.choice(JUNK))])
    if rng.random() < 0.1:
        kwargs.append(["zz", "i1"])
    klass = ["class", str(cid), ["params", *params], ["tp", *tp], ["attrs", *attrs]]
    return f"{header(g, extra_sub)} {show(klass)} {show(['kwargs', *kwargs])} (modes {' '.join(modes)})"


def hand(attrs, kwargs, aliases=(), params=(), tp=(), bounds=(), cid=None) -> str:
    """a directed case written by hand (terms as S-expression text)"""
    u = universe()
    cid = cid if cid is not None else (C_GEN + 1 if tp else C_GEN)
    sub = [[str(a), str(b)] for a, b in [*u.base_sub, *([(C_GEN + 1, C_GEN)] if tp else [])]]
    hdr = " ".join(show(x) for x in (["sub", *sub], ["names", *BASE_NAMES], ["bounds", *[list(b) for b in bounds]],
                                     ["aliases", *[parse_seq(a)[0] for a in aliases]], ["specs", *BASE_SPECS]))
    klass = (f"(class {cid} (params {' '.join(params)}) (tp {' '.join(tp)}) (attrs {' '.join(attrs)}))")
    return f"{hdr} {klass} (kwargs {' '.join(kwargs)}) (modes hand)"



def extra_obligations():
    """small methods of `State` / `StateAttribute` regenerated from /repo's structure.py as MiniPy terms: `__setattr__` and
    `__delattr__` refuse with AttributeError whatever the arguments, `__copy__` / `__deepcopy__` return the instance itself,
    `StateAttribute.validated` applies the validator exactly once - to the default iff the argument *is* MISSING; and the
    constructor `State.__init__` (a `for` loop over the declared attributes): every attribute validated exactly once, in
    declaration order, with the keyword argument of its name or MISSING, the result stored under that name, the first
    validation error propagating as that object"""
    from harness import core, regen

    return [e for e in regen.check("stateobj", core.REPO, core.LEAN) if "validated_once" in e["name"]] + \
        regen.check("stateinit", core.REPO, core.LEAN)


def corpus():
    I, S, F = "(cls 3)", "(cls 5)", "(cls 4)"
    return [
        # Mapping validator must iterate items (pinned tree: re-keys / rejects)
        hand([f"(a (map {S} {I}) -)"], ['(a (D (s"ab" i1)))']),
        hand([f"(a (map {S} {S}) -)"], ['(a (D (s"ab" s"cd")))']),
        hand([f"(a (map {S} {I}) -)"], ['(a (D (s"a" i1) (s"b" i2) (s"xyz" i3)))']),
        hand([f"(a (map {I} (seq {S})) -)"], ['(a (P (i1 (L s"a")) (i2 (T))))']),
        hand([f"(a (map {S} {I}) -)"], ['(a (D (s"a" s"b")))']),
        hand([f"(a (map {S} {I}) -)"], ["(a (L i1))"]),
        # arguments of parametrised aliases
        hand(["(a (alias L (cls 3)) -)"], ['(a (L s"x"))'], aliases=["(L (P) (seq (tvar P)))"]),
        hand(["(a (alias L (cls 3)) -)"], ["(a (L i1 i2))"], aliases=["(L (P) (seq (tvar P)))"]),
        hand(["(a (alias L) -)"], ['(a (L s"x"))'], aliases=["(L (P) (seq (tvar P)))"]),
        hand(["(a (alias M (cls 5) (cls 3)) -)"], ['(a (D (s"k" s"v")))'], aliases=["(M (K V) (map (tvar K) (tvar V)))"]),
        hand(["(a (alias L (tvar T)) -)"], ['(a (L s"x"))'], aliases=["(L (P) (seq (tvar P)))"], params=["T"], tp=["(T (cls 3))"]),
        hand(["(a (alias O (alias L (cls 3))) -)"], ['(a (L s"x"))'], aliases=["(O (Q) (opt (tvar Q)))", "(L (P) (seq (tvar P)))"]),
        # a parametrised alias forwarding its parameter to another one, used twice with different arguments in one class
        *[hand(["(a (alias Tw (cls 3)) -)", "(b (alias Tw (cls 5)) -)"], [f"(a {va})", f"(b {vb})"],
               aliases=["(Tw (A) (alias Pr (tvar A) (tvar A)))", "(Pr (A B) (tupf (tvar A) (tvar B)))"])
          for va, vb in (("(T i1 i2)", '(T s"a" s"b")'), ("(T i1 i2)", "(T i3 i4)"), ('(T s"a" s"b")', '(T s"a" s"b")'))],
        *[hand(["(a (alias Tb (cls 3)) -)", "(b (alias Tb (cls 5)) -)"], [f"(a {va})", f"(b {vb})"],
               aliases=["(Tb (V) (map (cls 5) (alias Rw (tvar V))))", "(Rw (V) (seq (tvar V)))"])
          for va, vb in (('(D (s"k" (L i1)))', '(D (s"k" (L s"x")))'), ('(D (s"k" (L i1)))', '(D (s"k" (L i2)))'))],
        # Literal membership is type-strict (PEP 586)
        hand(["(a (lit i1) -)"], ["(a b1)"]),
        hand(["(a (lit i1) -)"], ["(a f2)"]),
        hand(["(a (lit i1) -)"], ["(a i1)"]),
        hand(["(a (lit b1 i0) -)"], ["(a b0)"]),
        hand(['(a (lit s"a") -)'], ['(a (E 29 0 s"a"))']),
        hand(['(a (lit (E 29 0 s"a")) -)'], ['(a s"a")']),
        hand(["(a (lit i1) -)"], ["(a (E 30 0 i1))"]),
        # appendix D mutants: tuple length, str as a sequence, union order, int/float, bool/int
        hand([f"(a (tupf {I} {S}) -)"], ['(a (T i1 s"a" i2))']),
        hand([f"(a (tupf {I} {S}) -)"], ["(a (T i1))"]),
        hand([f"(a (tupf {I} {S}) -)"], ['(a (L i1 s"a"))']),
        hand([f"(a (seq {S}) -)"], ['(a s"ab")']),
        hand([f"(a (seq {I}) -)"], ['(a y"ab")']),
        hand([f"(a (tupv {S}) -)"], ['(a s"ab")']),
        hand([f"(a (union (seq {I}) (tupf {I} {I})) -)"], ["(a (L i1 i2))"]),
        hand([f"(a (union (tupf {I}) (seq {I})) -)"], ["(a (L i1 i2))"]),
        hand([f"(a (union {F} {I}) -)"], ["(a b1)"]),
        hand([f"(a {F} -)"], ["(a i1)"]),
        hand([f"(a {I} -)"], ["(a f2)"]),
        hand([f"(a {I} -)"], ["(a b1)"]),
        hand(["(a (cls 2) -)"], ["(a i1)"]),
        hand([f"(a (set {I}) -)"], ["(a (L i1))"]),
        hand([f"(a (fset {I}) -)"], ["(a (S i1 i2))"]),
        hand([f"(a (set {I}) -)"], ['(a (F i1 s"a"))']),
        hand(["(a none -)"], ["(a M)"]),
        hand(["(a (opt (cls 3)) -)"], []),
        hand(["(a (union (cls 3) missing) -)"], []),
        hand(["(a missing -)"], ["(a N)"]),
        hand([f"(a {I} i5)", f"(b {S} -)"], ['(b s"x")']),
        hand([f"(a {I} i5)", f"(b {S} -)"], ["(a M)", '(b s"x")']),
        hand([f"(a {I} s\"bad\")"], []),
        hand([f"(a {I} -)"], []),
        # nominal: unspecialised generic is not a specialisation, subclass is accepted, datetime is a date
        hand(["(a (cls 43) -)"], ["(a (I 42 1 (v i1)))"]),
        hand(["(a (cls 42) -)"], ["(a (I 43 1 (v i1)))"]),
        hand(["(a (cls 43) -)"], ['(a (I 44 1 (v s"a")))']),
        hand(["(a (cls 40) -)"], ['(a (I 41 1 (n i1) (m s"a")))']),
        hand(["(a (cls 41) -)"], ["(a (I 40 1 (n i1)))"]),
        hand(["(a (cls 21) -)"], ["(a (O 22 1))"]),
        hand(["(a (cls 22) -)"], ["(a (O 21 1))"]),
        hand(["(a (cls 5) -)"], ['(a (E 29 0 s"a"))']),
        hand(["(a (cls 28) -)"], ["(a i1)"]),
        hand(["(a (cls 31) -)"], ["(a (O 33 1))"]),
        hand(["(a (cls 31) -)"], ["(a (O 34 1))"]),
        hand(["(a callable -)"], ["(a (C 1))"]),
        hand(["(a callable -)"], ["(a i1)"]),
        # type variables: class argument, bound, unbound; generic specialisation inside a generic class
        hand(["(a (tvar T) -)"], ['(a s"x")'], params=["T"], tp=["(T (cls 3))"]),
        hand(["(a (tvar T) -)"], ['(a s"x")'], params=["T"]),
        hand(["(a (tvar T) -)"], ['(a s"x")'], params=["T"], bounds=[("T", "3")]),
        hand(["(a (gen 42 (tvar T)) -)"], ['(a (I 44 1 (v s"a")))'], params=["T"], tp=["(T (cls 3))"]),
        hand(["(a (gen 42 (tvar T)) -)"], ["(a (I 43 1 (v i1)))"], params=["T"], tp=["(T (cls 3))"]),
        hand(["(a (gen 42 (tvar T)) -)"], ["(a (I 43 1 (v i1)))"], params=["T"]),
        hand(["(a (gen 42 (tvar T)) -)"], ["(a (I 49 1 (v i1)))"], params=["T"]),
        hand(["(a (seq (tvar T)) -)", "(b (opt self) N)"], ['(a (L s"x" i1))'], params=["T"], tp=["(T (cls 5))"]),
        # a generic subclass of a generic state, specialised after its base was: a class of its own, with its own attributes
        hand(["(a (cls 55) -)"], ["(a (I 55 1 (v i1) (w i2)))"]),
        hand(["(a (gen 54 (cls 3)) -)"], ["(a (I 55 1 (v i1) (w i2)))"]),
        hand(["(a (cls 55) -)"], ["(a (I 43 1 (v i1)))"]),
        hand(["(a (cls 43) -)"], ["(a (I 55 1 (v i1) (w i2)))"]),
        hand(["(a (gen 54 (tvar T)) -)"], ["(a (I 55 1 (v i1) (w i2)))"], params=["T"], tp=["(T (cls 3))"]),
        # a generic state with TWO parameters specialised inside a generic class: both written as variables, one as a variable
        hand(["(a (gen 46 (tvar T) (cls 5)) -)"], ['(a (I 47 1 (a i1) (b s"x")))'], params=["T"], tp=["(T (cls 3))"]),
        hand(["(a (gen 46 (tvar T) (cls 5)) -)"], ["(a (I 43 1 (v i1)))"], params=["T"], tp=["(T (cls 3))"]),
        hand(["(a (gen 46 (tvar T) (tvar U)) -)"], ['(a (I 47 1 (a i1) (b s"x")))'], params=["T", "U"], tp=["(T (cls 3))", "(U (cls 5))"]),
        hand(["(a (gen 46 (cls 3) (cls 5)) -)"], ['(a (I 47 1 (a i1) (b s"x")))'], params=["T"], tp=["(T (cls 3))"]),
        # forward references, Annotated, recursive
        hand(["(a (opt (fwd Node)) -)"], ["(a (I 48 1 (val i1) (next (I 48 2 (val i2) (next N)))))"]),
        hand(["(a (alias R) -)"], ["(a (L (T (I 40 1 (n i1)) i3)))"], aliases=["(R () (seq (tupf (fwd Inner) (ann (cls 3)))))"]),
        hand(["(a (alias R) -)"], ['(a (L (T s"x" i1)))'], aliases=["(R () (seq (tupf (fwd Inner) (ann (cls 3)))))"]),
        hand(["(a (final (map (cls 5) (seq (cls 3)))) -)"], ['(a (D (s"k" (L i1 b1))))']),
        hand(["(a (map (tupf (cls 3) (cls 5)) (fset (cls 3))) -)"], ['(a (D ((T i1 s"a") (S i1 i2))))']),
    ]


def generate(rng, tier):
    n = 12000 if tier == "quick" else 16 * 12000
    for _ in range(n):
        yield gen_case(rng)
    if tier == "thorough":   # every annotation constructor at the root, small terms
        for d in (0, 1, 2):
            for _ in range(3000):
                yield gen_case(rng, want_depth=d)


def run_real(case: str) -> str:
    from harness.state_common import universe, universe_defects
    defects = universe_defects(universe())
    if defects:
        return "universe-broken " + " ".join(defects)     # the library no longer builds the fixed classes as they are defined
    top = parse_seq(case)
    ctx = Ctx(top)
    try:
        klass = ctx.make_class(field(top, "class"))
    except Exception as exc:  # noqa: BLE001
        return f"classerr {type(exc).__name__}"
    try:
        kwargs = {n: ctx.val(v) for n, v in field(top, "kwargs")}
    except Exception as exc:  # noqa: BLE001
        return f"input-build-failed {type(exc).__name__}"
    try:
        inst = klass(**kwargs)
    except Exception as exc:  # noqa: BLE001
        return f"err {exc_name(exc)}"
    return ("ok " + ctx.ser_fields(inst)).strip()


def canon(case: str, out: str) -> str:
    return out.strip()


def expectation(case: str):
    """independent oracle: per attribute (name, blamed term kind if not conforming, conforms?, converted value text)"""
    top = parse_case(case)
    spec = field(top, "class")
    orc = Oracle(top, int(spec[0]))
    env = {n: t for n, t in field(spec, "tp")}
    kwargs = {n: v for n, v in field(top, "kwargs")}
    res = []
    for name, ty, dflt in field(spec, "attrs"):
        v = kwargs.get(name, "M")
        if v == "M":
            v = dflt if dflt != "-" else "M"
        orc.blame = None
        ok, conv = orc.walk(ty, v, env)
        res.append((name, orc.blame, ok, show(canon_sets(conv)) if ok else None))
    return res


def monitor(case: str, out: str) -> list[str]:
    """C05 on the implementation's observation: accepted iff every effective value conforms; stored = conversion."""
    try:
        exp = expectation(case)
    except Exception as exc:  # noqa: BLE001
        return [f"validate.oracle-error.{type(exc).__name__}"]
    if out.startswith("universe-broken"):
        # the nested / generic State classes every case builds on are not what their definitions say
        return ["validate.fixed-classes-broken:" + out.split(" ", 1)[1].split(" ")[0].split(":")[0]]
    if out.startswith("ok"):
        if not all(ok for _, _, ok, _ in exp):
            return ["validate.accepted-nonconforming"]
        try:
            got = {f[0]: show(canon_sets(f[1])) for f in parse_seq(out[2:])}
        except Exception:  # noqa: BLE001
            return ["validate.no-observation"]
        fails = []
        if list(got) != [n for n, *_ in exp]:
            fails.append("validate.stored-unfaithful.attributes")
        for name, _, _, conv in exp:
            if name in got and got[name] != conv:
                fails.append("validate.stored-unfaithful")
        return sorted(set(fails))
    if out.startswith("err "):
        if all(ok for _, _, ok, _ in exp):
            return ["validate.rejected-conforming"]
        return []
    if out.startswith("classerr"):
        return ["validate.class-creation-failed"]
    return ["validate.no-observation"]


def _nodes(v) -> int:
    return 1 if isinstance(v, str) else 1 + sum(_nodes(x) for x in v[1:])


def nontrivial(case: str, out: str) -> bool:
    top = parse_case(case)
    kwargs = {n: v for n, v in field(top, "kwargs")}
    return any(depth_of(ty) >= 1 and _nodes(kwargs.get(n, "M")) >= 2 for n, ty, _ in field(field(top, "class"), "attrs"))


GROUP = {**{c: "builtin-scalar" for c in (2, 3, 4, 5, 6)}, **{c: "uuid/date-time/path" for c in range(20, 28)},
         28: "enum", 29: "enum-mixin", 30: "enum-mixin", 31: "protocol", 32: "protocol",
         40: "state", 41: "state", 42: "state-generic", 43: "state-specialised", 44: "state-specialised",
         46: "state-generic", 47: "state-specialised", 48: "state-recursive"}


def classify(case: str, out: str):
    top = parse_case(case)
    yield "out:accepted" if out.startswith("ok") else "out:rejected" if out.startswith("err") else "out:other"
    spec = field(top, "class")
    seen: set = set()
    for _, ty, _ in field(spec, "attrs"):
        vocab(ty, seen)
    for a in field(top, "aliases"):
        vocab(a[2], seen)
    for k in {GROUP.get(int(k[4:]), "other-class") if k.startswith("cls:") else k for k in seen}:
        yield f"k:{k}"
    if field(spec, "params"):
        yield "k:generic-class" + ("-specialised" if field(spec, "tp") else "")
    for m in set(field(top, "modes")):
        yield f"arg:{m}"


def mutate(rng, case: str) -> str:
    top = parse_seq(case)
    out = []
    for e in top:
        if isinstance(e, list) and e and e[0] == "kwargs" and len(e) > 1:
            e = list(e)
            i = rng.randrange(1, len(e))
            v = e[i][1]
            p = rng.choice(list(paths(v)))
            e[i] = [e[i][0], normalise(set_at(v, p, break_node(rng, get_at(v, p))))]
        out.append(e)
    return " ".join(show(x) for x in out)


def shrink(case: str):
    top = parse_seq(case)

    def emit(new_top):
        return " ".join(show(x) for x in new_top)

    ci = next(i for i, e in enumerate(top) if isinstance(e, list) and e[0] == "class")
    ki = next(i for i, e in enumerate(top) if isinstance(e, list) and e[0] == "kwargs")
    spec, kw = top[ci], top[ki]
    ai = next(i for i, e in enumerate(spec) if isinstance(e, list) and e[0] == "attrs")
    attrs = spec[ai][1:]
    # drop an attribute (and its argument)
    if len(attrs) > 1:
        for j, a in enumerate(attrs):
            spec2 = [*spec[:ai], ["attrs", *attrs[:j], *attrs[j + 1:]], *spec[ai + 1:]]
            kw2 = [x for x in kw if isinstance(x, str) or x[0] != a[0]]
            yield emit([*top[:ci], spec2, *top[ci + 1:ki], kw2, *top[ki + 1:]])
    # drop unknown / extra arguments, shrink values
    for j in range(1, len(kw)):
        yield emit([*top[:ki], [*kw[:j], *kw[j + 1:]], *top[ki + 1:]])
        v = kw[j][1]
        for p in paths(v):
            x = get_at(v, p)
            if isinstance(x, list) and x[0] in "LTSFDP" and len(x) > 1:
                for q in range(1, len(x)):
                    v2 = set_at(v, p, [*x[:q], *x[q + 1:]])
                    yield emit([*top[:ki], [*kw[:j], [kw[j][0], v2], *kw[j + 1:]], *top[ki + 1:]])
    # replace an attribute annotation by one of its arguments
    for j, a in enumerate(attrs):
        ty = a[1]
        if isinstance(ty, list) and ty[0] not in ("cls", "lit", "fwd", "tvar", "alias", "gen"):
            for sub in ty[1:]:
                spec2 = [*spec[:ai], ["attrs", *attrs[:j], [a[0], sub, a[2]], *attrs[j + 1:]], *spec[ai + 1:]]
                yield emit([*top[:ci], spec2, *top[ci + 1:]])
