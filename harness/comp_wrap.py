"""C18 – asynchronous / wrap_async / traced are transparent and carry the caller context; every helper decorator
keeps name, docstring and __wrapped__: real haiway.helpers vs `hwmodel wrap` (Haiway/Model/Wrap.lean).

Case (one line of key=value tokens):
 deco=  asyn | asyn_call | asyn_ex | asyn_loop      @asynchronous, @asynchronous(), (executor=pool), (loop=loop, executor=pool)
        m2:<outer>:<inner>                           two decorators on top of each other (metadata only): name, docstring and
                                                     the chain outer.__wrapped__ is inner wrapper, inner.__wrapped__ is the function
        wasync_s | wasync_a                          wrap_async of a sync / of an async function
        traced_s | traced_a                          traced sync / async function
        m_cache_s m_cache_a m_cache_p m_retry_s m_retry_a m_retry_p m_throttle m_throttle_p m_timeout   (metadata only)
 form=  fn | meth | cls        plain function / bound method `obj.m(...)` / through the class `C.m(obj, ...)`
        obj                    (sync call decorators) the callable handed to the decorator is a callable *object* – a class instance
                               with `__call__`, the function's name / docstring, and instance attributes of its own, among them
                               `_function`, `_loop`, `_executor`, `_timeout` bound to decoys (what haiway's own class-based wrappers,
                               functools.partial subclasses and user wrappers look like); the model is told `form=fn`
 root=  1: everything happens inside `async with ctx.scope("root", completion=…)`; 0: no scope around
 site=  blocks entered around the call, outermost first: a<v> (async scope "c<i>" with A(v)), w<v> (sync scope), u<v>
        (ctx.updated), joined by '.', or '-'
 sig=   0: (a, b=2, *args, k=0, **kw)  1: ()  2: (a, /, b, *, c)  3: (*args, **kwargs)  4: (a, b=5, c=None)
 pos=   positional argument values joined by ',' or '-'         kw= name:value joined by ',' or '-'
        values: i<k> int, s<k> str, n None, t tuple, o an object
 out=   r:<value> | e:V | e:K | e:C | e:B     (ValueError, KeyError, custom Exception, custom BaseException)
        values also: fv / fe a finished asyncio Future holding a value / an exception, co a coroutine object – awaitables
        returned *as values* (job handles); xv / xb an Exception / BaseException *instance returned as a value*;
        e:A the function raises asyncio.CancelledError itself
        e:T | e:X | e:I   TimeoutError, concurrent.futures.CancelledError / InvalidStateError: the three classes that
                          asyncio re-creates when it copies an executor future into a loop future
 leak=  v > 0: the function enters ctx.updated(A(v)) and never leaves it      rec= k > 0: the function records M(k)
 block= 1: the function blocks its thread until a heartbeat task on the loop has made progress (asynchronous only)
 doc=   1/0: the function has a docstring
 cancel= 1 (async functions only: wasync_a, traced_a): the function suspends on a gate and its task is cancelled there
 spawn= 1 (wrap_async / traced, inside an async scope): the function starts a task through ctx.spawn that is still blocked
        on a gate when the function returns
 recv=  (form=meth) receivers of successive calls, joined by ',', the last one is the observed call; a the instance,
        c a copy.copy of it made at that moment, b another instance, s an instance of a subclass whose override calls super(),
        e a distinct instance that is == and hash-equal to a

Observation: <out>|<bind>|<seen>|<after>|<where>|<records>|<meta>|<recv>
 recv    the object each call's body saw as `self` (a/c/b/s, ? unknown), then `;ovr=<times the subclass override ran>`; '-' for functions

Observation: <out>|<bind>|<seen>|<after>|<where>|<records>|<meta>
 out     r:<value>:<1 if it is the very object the function returned> | e:<Class>:<message>:<1 same object|- not raised by the body>
 bind    the arguments as the function's body saw them, or '-' when the body never ran
 seen    <A value|dflt|MC>/<scope label|-> inside the function      after   the same for the caller after the call
 where   other | loop (thread the body ran on), ',beat' / ',nobeat' when block=1; with spawn=1 ';pending' (the spawned
         task was still running when the call returned) or ';blocked' (the call only returned after a watchdog released the
         task) and ';joined' / ';detached' (all spawned tasks were done when the caller's innermost async scope was left)
 records A=<positional>;<keyword> R=<result> M=<recorded ks, merged over root> own=<ks recorded in the innermost
         call-site scope itself> – read in the completion callbacks; '-' without root
 meta    three bits: __name__, __doc__, __wrapped__ are the original's
"""
from __future__ import annotations

import asyncio
import concurrent.futures
import inspect
import logging
import threading

from harness import core, vloop

PID = "C18"
LEAN_COMPONENT = "wrap"
PROPS_MODULE = "Haiway.Props.C18"
ANCHORS = ["src/haiway/helpers/asynchrony.py", "src/haiway/helpers/tracing.py", "src/haiway/utils/mimic.py",
           "src/haiway/helpers/{caching,retries,throttling,timeouted}.py (metadata)"]
RULE = ("case = decorator x call form (function / bound method / through the class) x signature (5 shapes: defaults, "
        "positional-only, keyword-only, *args/**kwargs, none) x positional+keyword argument list (fitting or not) x outcome "
        "(value of 5 kinds / Exception / BaseException subclass) x call-site nesting (0-3 async scopes, sync scopes, "
        "ctx.updated; with/without any scope) x function behaviour (reads state, leaks a ctx.updated block, records a metric, "
        "blocks its thread; async: suspended and cancelled there) x executor (default / explicit / explicit loop) x, for "
        "methods, a sequence of 1-4 calls on the instance / shallow copies of it / another instance / a subclass whose "
        "override calls super() (receiver identity observed on every call); results include awaitables returned as "
        "values (finished/failed Future, coroutine object), compared by identity; metadata cases for all seven decorators; "
        "non-trivial = the body ran, inside >=1 call-site block supplying state, AND (it got >=1 keyword or default-filled "
        "argument OR raised) – metadata cases: docstring present and method form; distinct = by case text")
TRUSTED = ["contextvars.copy_context / Context.run, loop.run_in_executor, functools.partial as used in Haiway/Model/Wrap.lean",
           "harness/comp_wrap.py run_real + monitor"]
ASSUMPTIONS = ["the function does not raise StopIteration (asyncio cannot carry it through a Future), KeyboardInterrupt or SystemExit",
               "`traced` is checked in debug mode (__debug__), which is how the check runs",
               "'runs off the event-loop thread so the loop keeps serving' is measured (thread identity, heartbeat progress), "
               "not modelled: the model only says the call is a suspension point"]

OBJ_DECOS = ("asyn", "asyn_call", "asyn_ex", "asyn_loop", "wasync_s", "traced_s", "m_cache_s", "m_cache_p", "m_retry_s", "m_retry_p")
DECOS_CALL = ["asyn", "asyn_call", "asyn_ex", "asyn_loop", "wasync_s", "wasync_a", "traced_s", "traced_a"]
DECOS_META = ["m_cache_s", "m_cache_a", "m_cache_p", "m_retry_s", "m_retry_a", "m_retry_p", "m_throttle", "m_throttle_p",
              "m_timeout"]
# two decorators on top of each other, `m2:<outer>:<inner>` (async function): metadata of the outer object and the chain of
# `__wrapped__` references (outer -> inner wrapper -> function)
_STACKABLE = ["m_cache_a", "m_retry_a", "m_throttle", "m_timeout", "traced_a", "wasync_a"]
# (`throttle` asserts that it is given a coroutine *function*: it refuses the class-based wrapper objects of cache / throttle /
#  timeout at decoration time – nothing to observe for those three combinations)
DECOS_STACK = [f"m2:{o}:{i}" for o in _STACKABLE for i in _STACKABLE
               if not (o == "m_throttle" and i in ("m_cache_a", "m_throttle", "m_timeout"))]
DECOS_META = DECOS_META + DECOS_STACK
SIGS = ["a, b=2, *args, k=0, **kw", "", "a, /, b, *, c", "*args, **kwargs", "a, b=5, c=None"]
SIG_NAMES = [["a", "b", "args", "k", "kw"], [], ["a", "b", "c"], ["args", "kwargs"], ["a", "b", "c"]]

_T = None
_POOL = None


def types():
    global _T
    if _T is None:
        from haiway import State

        class A(State):
            v: int = 0

        class M(State):
            ks: tuple[int, ...] = ()

        _T = (A, M)
    return _T


def pool():
    global _POOL
    if _POOL is None:
        _POOL = concurrent.futures.ThreadPoolExecutor(max_workers=4, thread_name_prefix="c18")
    return _POOL


class Custom(Exception):
    pass


class BaseBoom(BaseException):
    pass


def parse(case: str) -> dict:
    d = dict(tok.split("=", 1) for tok in case.split())
    for k in ("deco", "form", "root", "site", "sig", "pos", "kw", "out", "leak", "rec", "block", "doc", "cancel", "recv", "spawn"):
        d.setdefault(k, {"deco": "asyn", "form": "fn", "root": "1", "site": "-", "sig": "0", "pos": "-", "kw": "-",
                         "out": "r:i1", "leak": "0", "rec": "0", "block": "0", "doc": "1", "cancel": "0", "recv": "a", "spawn": "0"}[k])
    in_async = d["root"] == "1" or any(b.startswith("a") for b in d["site"].split("."))
    if not (d["deco"].startswith(("wasync", "traced")) and in_async) or d["cancel"] == "1":
        d["spawn"] = "0"
    if d["deco"] not in ("wasync_a", "traced_a"):
        d["cancel"] = "0"
    if d["form"] != "meth":
        d["recv"] = "a"
    d.setdefault("nest", "0")
    if not d["deco"].startswith("asyn") or d["block"] == "1":
        d["nest"] = "0"
    d["callobj"] = "0"
    if d["form"] == "obj":      # a callable object handed to the decorator: everywhere else it is a plain function call
        d["form"], d["callobj"] = "fn", "1" if d["deco"] in OBJ_DECOS else "x"
    return d


def num(s: str) -> int:
    return int(s) if s.isdigit() else 0


_DUMMY = None


def dummy_loop():
    """never run: only gives the Future values a loop to belong to"""
    global _DUMMY
    if _DUMMY is None:
        _DUMMY = asyncio.new_event_loop()
    return _DUMMY


async def _job():
    return "inner"


class Values:
    """value tokens <-> fresh objects of one case"""

    def __init__(self):
        self.objs: dict[int, str] = {}
        self.keep = []

    def make(self, tok: str):
        if tok.startswith("i"):
            return num(tok[1:])
        if tok.startswith("s"):
            return "s" + tok[1:]
        if tok == "n":
            return None
        if tok == "t":
            return (1, 2)
        if tok in ("fv", "fe"):
            o = asyncio.Future(loop=dummy_loop())
            if tok == "fv":
                o.set_result("inner")
            else:
                o.set_exception(ValueError("job failed"))
                o.exception()  # retrieved: no "never retrieved" noise
        elif tok == "co":
            o = _job()
        elif tok == "xv":
            o = ValueError("returned, not raised")      # exception instances used as data (outcome of a job, a validator)
        elif tok == "xb":
            o = BaseBoom("returned, not raised")
        else:
            o = object()
        self.keep.append(o)
        self.objs[id(o)] = tok
        return o

    def dispose(self):
        for o in self.keep:
            if asyncio.iscoroutine(o):
                o.close()

    def show(self, v) -> str:
        if id(v) in self.objs:
            return self.objs[id(v)]
        if asyncio.isfuture(v) or asyncio.iscoroutine(v):
            return "awaitable"
        if v is None:
            return "n"
        if isinstance(v, bool):
            return f"b{v}"
        if isinstance(v, int):
            return f"i{v}"
        if isinstance(v, str):
            return v if v.startswith("s") else "str"
        if isinstance(v, tuple):
            return "(" + ",".join(self.show(x) for x in v) + ")"
        if isinstance(v, dict) or hasattr(v, "items"):
            return "{" + ",".join(f"{k}:{self.show(x)}" for k, x in v.items()) + "}"
        if isinstance(v, BaseException):
            return "e:" + class_name(type(v))
        return "self" if getattr(type(v), "_is_holder", False) else "obj"


def class_name(cls) -> str:
    mod = cls.__module__.split(".")[0]
    return cls.__name__ if mod in ("builtins", "harness", "__main__") else f"{mod}.{cls.__name__}"


def make_exc(tok: str):
    return {"V": ValueError("v"), "K": KeyError("k"), "C": Custom("c", 7), "B": BaseBoom("b"),
            "T": TimeoutError("t"), "X": concurrent.futures.CancelledError("x"), "A": asyncio.CancelledError("a"),
            "I": concurrent.futures.InvalidStateError("i")}[tok]


class _Capture(logging.Handler):
    def __init__(self):
        super().__init__(level=logging.DEBUG)
        self.last = None

    def emit(self, record):
        try:
            self.last = record.getMessage()
        except Exception:  # noqa: BLE001
            self.last = None


class Env:
    """one case: the test function, its behaviour, the observation cells"""

    def __init__(self, d: dict, loop, cap):
        from haiway import MissingContext, MissingState, ctx

        self.ctx, self.MissingContext, self.MissingState = ctx, MissingContext, MissingState
        self.A, self.M = types()
        self.d, self.loop, self.cap = d, loop, cap
        self.values = Values()
        self.loop_thread = threading.get_ident()
        self.bind = "-"
        self.seen = "-"
        self.where = "-"
        self.raised = None
        self.returned = None
        self.gate = threading.Event()
        self.beat_seen = "nobeat"
        self.receivers: dict[int, str] = {}
        self.recv_seen: list[str] = []
        self.overrides = 0
        self.suspended = False
        self.cancel_gate = None
        self.spawn_gate = loop.create_future() if loop is not None else None
        self.spawned: list = []
        out = d["out"]
        self.result_obj = self.values.make(out[2:]) if out.startswith("r:") else None
        self.exc_obj = make_exc(out[2:]) if out.startswith("e:") else None

    def fingerprint(self) -> str:
        try:
            o = self.ctx.state(self.A)
            st = str(o.v) if o.v != 0 else "dflt"
        except self.MissingState:
            st = "MS"
        except self.MissingContext:
            st = "MC"
        except BaseException as e:  # noqa: BLE001
            st = "X" + type(e).__name__
        label = "-"
        try:
            self.cap.last = None
            self.ctx.log_info("fp")
            msg = self.cap.last
            if msg and msg.startswith("["):
                parts = msg.split("] [")
                if len(parts) >= 3:
                    label = parts[1]
        except BaseException:  # noqa: BLE001
            label = "Xlog"
        return f"{st}/{label}"

    def nested_call(self) -> str:
        from haiway import asynchronous

        seen = {}

        def inner():
            seen["w"] = "loop" if threading.get_ident() == self.loop_thread else "other"

        wrapped = asynchronous(inner)

        async def bridge():
            await wrapped()

        try:
            asyncio.run_coroutine_threadsafe(bridge(), self.loop).result(timeout=30)
        except BaseException as exc:  # noqa: BLE001
            return "err:" + type(exc).__name__
        return seen.get("w", "norun")

    def body(self, names, local):
        self.observe(names, local)
        return self.finish()

    async def abody(self, names, local):
        self.observe(names, local)
        if self.d["cancel"] == "1":
            self.suspended = True
            await self.cancel_gate   # the task is cancelled while the function is suspended here
        return self.finish()

    def observe(self, names, local):
        """what every test function does once its arguments are bound"""
        if "self" in local:
            self.recv_seen.append(self.receivers.get(id(local["self"]), "?"))
        show = self.values.show
        parts = []
        for n in names:
            v = local[n]
            parts.append(f"{n}={show(v)}")
        self.bind = ";".join(parts) if parts else "()"
        self.where = "loop" if threading.get_ident() == self.loop_thread else "other"
        self.seen = self.fingerprint()
        if num(self.d["rec"]):
            M = self.M
            self.ctx.record(M(ks=(num(self.d["rec"]),)), merge=lambda l, r: M(ks=l.ks + r.ks))
        if num(self.d["leak"]):
            try:
                self.ctx.updated(self.A(v=num(self.d["leak"]))).__enter__()
            except BaseException:  # noqa: BLE001
                pass
        if self.d["block"] == "1":
            self.beat_seen = "beat" if self.gate.wait(2.0) else "nobeat"
        if self.d.get("nest") == "1" and self.where == "other":
            # sync code in the executor bridges back to async code, which calls another `asynchronous` function: that call
            # starts from a context descending from a worker's context - it still runs off the loop thread
            self.where += "+" + self.nested_call()
        if self.d.get("spawn") == "1" and self.spawn_gate is not None:
            gate = self.spawn_gate

            async def child():
                await gate

            self.spawned.append(self.ctx.spawn(child))

    def finish(self):
        if self.exc_obj is not None:
            self.raised = self.exc_obj
            raise self.exc_obj
        self.returned = self.result_obj
        return self.result_obj

    def make_function(self, is_async: bool, method: bool, name: str):
        sig = SIGS[num(self.d["sig"])]
        names = SIG_NAMES[num(self.d["sig"])]
        params = ", ".join(p for p in (("self" if method else ""), sig) if p)
        doc = f'    """doc of {name}"""\n' if self.d["doc"] == "1" else ""
        call = "await __env.abody(__names, locals())" if is_async else "__env.body(__names, locals())"
        src = f"{'async ' if is_async else ''}def {name}({params}):\n{doc}    return {call}\n"
        ns = {"__env": self, "__names": names}
        exec(src, ns)  # noqa: S102 - harness-owned source: five fixed signatures
        return ns[name]


def decorate(env: Env, deco: str, fn):
    from haiway import asynchronous, cache, retry, throttle, timeout, traced, wrap_async

    if deco.startswith("m2:"):
        _m2, outer, inner = deco.split(":")
        env.inner_obj = decorate(env, inner, fn)
        return decorate(env, outer, env.inner_obj)
    if deco == "asyn":
        return asynchronous(fn)
    if deco == "asyn_call":
        return asynchronous()(fn)
    if deco == "asyn_ex":
        return asynchronous(executor=pool())(fn)
    if deco == "asyn_loop":
        return asynchronous(loop=env.loop, executor=pool())(fn)
    if deco in ("wasync_s", "wasync_a"):
        return wrap_async(fn)
    if deco in ("traced_s", "traced_a"):
        return traced(fn)
    if deco in ("m_cache_s", "m_cache_a"):
        return cache(fn)
    if deco == "m_cache_p":
        return cache(limit=2, expiration=5)(fn)
    if deco in ("m_retry_s", "m_retry_a"):
        return retry(fn)
    if deco == "m_retry_p":
        return retry(limit=2, delay=1.0)(fn)
    if deco == "m_throttle":
        return throttle(fn)
    if deco == "m_throttle_p":
        return throttle(limit=2, period=3)(fn)
    if deco == "m_timeout":
        return timeout(3)(fn)
    raise ValueError(deco)


IS_ASYNC = {"wasync_a", "traced_a", "m_cache_a", "m_retry_a", "m_throttle", "m_throttle_p", "m_timeout", *DECOS_STACK}
AWAITED = {"asyn", "asyn_call", "asyn_ex", "asyn_loop", "wasync_s", "wasync_a", "traced_a"}


def build(env: Env, d: dict):
    """-> (original function, callable to call, receiver or None)"""
    deco, form = d["deco"], d["form"]
    is_async = deco in IS_ASYNC
    if form == "fn" and d["callobj"] != "1":
        fn = env.make_function(is_async, False, "f")
        return fn, decorate(env, deco, fn), None
    if d["callobj"] == "1":
        fn = env.make_function(is_async, False, "f")

        def decoy(*_a, **_k):
            env.bind = "decoy"
            return None

        class CallableObject:
            def __init__(self, inner):
                self.inner = inner
                # private names of its own – the same ones haiway's wrapper classes use
                self._function = decoy
                self._loop = decoy
                self._executor = decoy
                self._timeout = decoy
                for a in ("__name__", "__qualname__", "__doc__", "__module__"):
                    setattr(self, a, getattr(inner, a))

            def __call__(self, /, *args, **kwargs):
                return self.inner(*args, **kwargs)

            def __len__(self):
                # a callable that is also a (currently empty) collection – a pipeline / registry object: falsy in half of the
                # cases; whether something is wrapped must not depend on its truth value
                return falsy_len

        falsy_len = 0 if num(d["sig"]) % 2 == 0 or d["doc"] == "0" else 3
        co = CallableObject(fn)
        return co, decorate(env, deco, co), None
    fn = env.make_function(is_async, True, "m")
    def h_init(self, key=0):
        self.key = key

    # value equality on `key`: distinct instances may be == and hash-equal (identity is not part of equality)
    Holder = type("Holder", (), {"m": decorate(env, deco, fn), "_is_holder": True, "__init__": h_init,
                                 "__eq__": lambda self, other: isinstance(other, Holder) and self.key == other.key,
                                 "__hash__": lambda self: hash(self.key)})
    obj = Holder()
    env.holder_cls = Holder
    env.receivers[id(obj)] = "a"
    if form == "meth":
        return fn, obj.m, obj
    return fn, Holder.m, obj


def receiver_for(env: Env, tok: str, a):
    """the receiver of one call of a `recv=` sequence"""
    import copy

    if tok == "a":
        return a
    if tok == "c":
        o = copy.copy(a)          # made now: after whatever calls `a` has already served
    elif tok == "b":
        o = env.holder_cls(1)
    elif tok == "e":
        o = env.holder_cls(a.key)     # equal to `a`, same hash, another object
    else:
        if getattr(env, "sub_obj", None) is None:
            def m(self, *args, **kwargs):
                env.overrides += 1
                return super(Sub, self).m(*args, **kwargs)

            Sub = type("Sub", (env.holder_cls,), {"m": m})
            env.sub_obj = Sub(2)
        o = env.sub_obj
    env.values.keep.append(o)
    env.receivers[id(o)] = tok
    return o


def meta_bits(orig, wrapped) -> str:
    name = getattr(wrapped, "__name__", None) == orig.__name__
    doc = getattr(wrapped, "__doc__", "<none>") == orig.__doc__
    ref = getattr(wrapped, "__wrapped__", getattr(wrapped, "__func__", wrapped)) is orig
    return f"{int(name)}{int(doc)}{int(ref)}"


def call_args(env: Env, d: dict, receiver, through_class: bool):
    pos = [env.values.make(t) for t in d["pos"].split(",")] if d["pos"] != "-" else []
    kw = {}
    if d["kw"] != "-":
        for item in d["kw"].split(","):
            k, v = item.split(":")
            kw[k] = env.values.make(v)
    if through_class:
        pos = [receiver] + pos
    return pos, kw


def show_outcome(env: Env, result, exc) -> str:
    if exc is None:
        return f"r:{env.values.show(result)}:{int(result is env.returned and env.bind != '-')}"
    same = "-" if env.raised is None else str(int(exc is env.raised))
    msg = str(exc.args[0]) if exc.args else ""
    msg = msg.replace(" ", "_").replace("|", "/").replace(":", ";")[:80]
    return f"e:{class_name(type(exc))}:{msg}:{same}"


def run_real(case: str) -> str:
    try:
        d = parse(case)
        assert d["deco"] in DECOS_CALL + DECOS_META and d["form"] in ("fn", "meth", "cls") and num(d["sig"]) < len(SIGS)
        assert d["callobj"] != "x"
    except Exception:  # noqa: BLE001
        return "bad-case"
    from haiway import ctx
    from haiway.helpers.tracing import ArgumentsTrace, ResultTrace

    A, M = types()
    loop = vloop.new_loop()
    loop.set_default_executor(pool())
    cap = _Capture()
    root_logger = logging.getLogger()
    old_level = root_logger.level
    root_logger.setLevel(logging.INFO)
    root_logger.addHandler(cap)
    try:
        env = Env(d, loop, cap)
        orig, target, receiver = build(env, d)
        meta = meta_bits(orig, target)
        if d["deco"] in DECOS_STACK:
            inner = getattr(env, "inner_obj", None)
            # (wrap_async of a coroutine function is the function itself: a one-layer chain)
            chain = (target is inner or getattr(target, "__wrapped__", None) is inner) and \
                (inner is orig or getattr(inner, "__wrapped__", None) is orig)
            return f"-|-|-|-|-|-|{meta[:2]}{int(chain)}|-"
        if d["deco"] in DECOS_META:
            if d["form"] != "fn":
                meta += meta_bits(orig, type(receiver).__dict__["m"])
            return f"-|-|-|-|-|-|{meta}|-"
        pos, kw = call_args(env, d, receiver, d["form"] == "cls")
        cells = {"root": "-", "own": "-"}

        def cat(cur, new):
            if isinstance(new, M):
                return M(ks=cur.ks + new.ks) if isinstance(cur, M) else new
            return new  # nested wins

        def root_done(metrics):
            try:
                got = {type(x): x for x in metrics.metrics(merge=cat)}
                a = got.get(ArgumentsTrace)
                r = got.get(ResultTrace)
                m = got.get(M)
                show = env.values.show
                from haiway import MISSING

                def part(x):
                    return "-" if x is MISSING else show(x)

                at = f"{part(a.args)};{part(a.kwargs)}" if a is not None else "-"
                # an exception instance the function *returned* is a value of the case (known by identity), not an outcome
                rt = ("e:" + class_name(type(r.result))
                      if isinstance(r.result, BaseException) and id(r.result) not in env.values.objs
                      else "r:" + show(r.result)) if r is not None else "-"
                mt = ".".join(map(str, m.ks)) if m is not None else ""
                cells["root"] = f"A={at} R={rt} M={mt}"
            except BaseException as e:  # noqa: BLE001
                cells["root"] = "X" + type(e).__name__

        def own_done(metrics):
            try:
                m = metrics.read(M)
                cells["own"] = ".".join(map(str, m.ks)) if m is not None else ""
            except BaseException as e:  # noqa: BLE001
                cells["own"] = "X" + type(e).__name__

        site = [] if d["site"] == "-" else d["site"].split(".")
        state = {"out": "hang", "after": "-", "returned": False, "spawn": "-", "joined": "-"}
        last_async = max((j for j, blk in enumerate([] if d["site"] == "-" else d["site"].split(".")) if blk[0] == "a"),
                         default=-1)

        def note_joined():
            state["joined"] = "joined" if all(t.done() for t in env.spawned) else "detached"


        async def heartbeat():
            n = 0
            while state["out"] == "hang" and n < 200000:
                n += 1
                if n == 3:
                    env.gate.set()
                await asyncio.sleep(0)

        async def call_once(fn_target):
            """-> (result, exception) of one awaited call"""
            try:
                if d["cancel"] == "1":
                    env.cancel_gate, env.suspended = loop.create_future(), False
                r = fn_target(*pos, **kw)
                if d["cancel"] == "1" and inspect.isawaitable(r):
                    task = loop.create_task(r)
                    for _ in range(50):
                        if env.suspended or task.done():
                            break
                        await asyncio.sleep(0)
                    task.cancel()
                    return await task, None
                return (await r if inspect.isawaitable(r) and d["deco"] in AWAITED else r), None
            except BaseException as e:  # noqa: BLE001
                return None, e

        async def watchdog():
            """a wrapper that holds the call until the spawned task ends would hang the case: release the task then"""
            for _ in range(300):
                if state["returned"]:
                    return
                await asyncio.sleep(0)
            state["spawn"] = "blocked"
            if not env.spawn_gate.done():
                env.spawn_gate.set_result(None)

        async def invoke():
            wd = loop.create_task(watchdog()) if d["spawn"] == "1" else None
            await invoke_calls()
            state["returned"] = True
            if wd is not None:
                if state["spawn"] != "blocked":
                    state["spawn"] = "pending" if env.spawned and not any(t.done() for t in env.spawned) else "finished"
                if not env.spawn_gate.done():
                    env.spawn_gate.set_result(None)   # from here on the tasks can end: their scope has to wait for them
                await wd

        async def invoke_calls():
            fn_target = target
            if d["form"] == "meth":
                steps = d["recv"].split(",")
                for tok in steps[:-1]:
                    await call_once(receiver_for(env, tok, receiver).m)
                fn_target = receiver_for(env, steps[-1], receiver).m
            result, exc = await call_once(fn_target)
            state["after"] = env.fingerprint()
            state["out"] = show_outcome(env, result, exc)

        async def at_site(i):
            if i == len(site):
                hb = loop.create_task(heartbeat()) if d["block"] == "1" else None
                await invoke()
                if hb is not None:
                    await hb
                return
            k, v = site[i][0], num(site[i][1:])
            st = [A(v=v)] if v else []
            last_scope = max((j for j, s in enumerate(site) if s[0] in "aw"), default=-1)
            cb = own_done if i == last_scope else None
            if k == "a":
                async with ctx.scope(f"c{i}", *st, completion=cb):
                    await at_site(i + 1)
                if i == last_async:
                    note_joined()
            elif k == "w":
                with ctx.scope(f"c{i}", *st, completion=cb):
                    await at_site(i + 1)
            else:
                with ctx.updated(*st):
                    await at_site(i + 1)

        async def main():
            if d.get("pc") == "1":
                # the calling task was cancelled earlier and handled it: `cancelling()` stays above zero from here on,
                # which is nobody's business – the wrapped function must be called all the same
                asyncio.current_task().cancel()
                try:
                    await asyncio.sleep(0)
                except asyncio.CancelledError:
                    pass
            if d["root"] == "1":
                async with ctx.scope("root", completion=root_done):
                    await at_site(0)
                if last_async == -1:
                    note_joined()
            else:
                await at_site(0)
            for _ in range(3):
                await asyncio.sleep(0)

        loop.run_until_complete(main())
        where = env.where + ("," + env.beat_seen if d["block"] == "1" and env.bind != "-" else "")
        if d["spawn"] == "1" and env.bind != "-":
            where += f";{state['spawn']};{state['joined']}"
        records = "-" if d["root"] != "1" else f"{cells['root']} own={cells['own']}"
        recv = "-" if d["form"] == "fn" else f"{','.join(env.recv_seen)};ovr={env.overrides}"
        return (f"{state['out']}|{env.bind}|{env.seen}|{state['after']}|{where}|{records.replace(' ', '~')}|{meta}|"
                f"{recv}")
    finally:
        root_logger.removeHandler(cap)
        root_logger.setLevel(old_level)
        try:
            env.values.dispose()
        except Exception:  # noqa: BLE001
            pass
        try:
            loop._default_executor = None  # the pool is shared between cases: keep `loop.close()` from shutting it down
        except Exception:  # noqa: BLE001
            pass
        vloop.close_loop(loop)


# ------------------------------------------------------------------------------------------------
# reference: what the undecorated function does for the same arguments (called directly)

def direct_reference(d: dict) -> tuple[str, str]:
    import contextvars

    d2 = dict(d, block="0", leak="0", rec="0", spawn="0")
    env = Env(d2, None, _Capture())
    method = d["form"] != "fn"
    fn = env.make_function(d["deco"] in IS_ASYNC, method, "m" if method else "f")
    receiver = type("Holder", (), {"_is_holder": True})() if method else None
    pos, kw = call_args(env, d2, receiver, method)

    def call():
        result, exc = None, None
        try:
            r = fn(*pos, **kw)
            if inspect.iscoroutine(r) and d["deco"] in IS_ASYNC:
                env.cancel_gate = asyncio.Future(loop=dummy_loop())
                try:
                    r.send(None)
                    # suspended on the gate: the cancellation is delivered there
                    r.throw(asyncio.CancelledError())
                    r.close()
                    raise RuntimeError("test function survived its cancellation")
                except StopIteration as stop:
                    result = stop.value
            else:
                result = r
        except BaseException as e:  # noqa: BLE001
            exc = e
        return show_outcome(env, result, exc)

    out = contextvars.copy_context().run(call)
    return out, env.bind


def model_input(case: str, real_out: str) -> str:
    try:
        d = parse(case)
        case = case.replace("form=obj", "form=fn").replace(" pc=1", "")
        if d["deco"] in DECOS_META:
            return case    # a callable object is a callable: the model's `Fn` is arbitrary behaviour
        out, bind = direct_reference(d)
    except Exception:  # noqa: BLE001
        return case
    # the normalised switches first (the driver takes the first occurrence of a key)
    return f"spawn={d['spawn']} cancel={d['cancel']} recv={d['recv']} {case} dout={out} dbind={bind}"


# ------------------------------------------------------------------------------------------------
# the property on the implementation's observation

def site_fp(d: dict) -> tuple[str, str]:
    state, label = ("dflt", "root") if d["root"] == "1" else ("MC", "-")
    if d["site"] != "-":
        for i, blk in enumerate(d["site"].split(".")):
            k, v = blk[0], num(blk[1:])
            state = str(v) if v else ("dflt" if state == "MC" else state)
            if k in "aw":
                label = f"c{i}"
    return state, label


def expected_trace_args(d: dict) -> str:
    vals = ([] if d["form"] == "fn" else ["self"]) + ([] if d["pos"] == "-" else
                                                      ["(i1,i2)" if t == "t" else t for t in d["pos"].split(",")])
    pos = "(" + ",".join(vals) + ")" if vals else "-"
    kw = "-"
    if d["kw"] != "-":
        kw = "{" + ",".join(f"{k}:{'(i1,i2)' if v == 't' else v}" for k, v in (i.split(":") for i in d["kw"].split(","))) + "}"
    return f"{pos};{kw}"


CONVERTED = {"concurrent.CancelledError": "asyncio.CancelledError", "TimeoutError": "TimeoutError",
             "concurrent.InvalidStateError": "asyncio.InvalidStateError"}


def converted_by_asyncio(dout: str) -> str:
    p = dout.split(":")
    if len(p) == 4 and p[0] == "e" and p[1] in CONVERTED and p[3] == "1":
        return f"e:{CONVERTED[p[1]]}:{p[2]}:0"
    return dout


def monitor(case: str, out: str) -> list[str]:
    try:
        d = parse(case)
    except Exception:  # noqa: BLE001
        return []
    if out == "bad-case":
        return []
    parts = out.split("|")
    if out.startswith("HANG") or len(parts) != 8:
        return ["wrap.no-observation:" + out[:24]]
    o_out, o_bind, o_seen, o_after, o_where, o_rec, o_meta, o_recv = parts
    deco = d["deco"]
    fails = []
    if deco in DECOS_STACK:
        return ["wrap.metadata.stacked"] if set(o_meta) != {"1"} else []
    family = deco.split("_")[1] if deco.startswith("m_") else deco.split("_")[0]
    if set(o_meta) != {"1"}:
        fails.append("wrap.metadata." + {"asyn": "asynchronous", "wasync": "wrap_async"}.get(family, family))
    if deco in DECOS_META:
        return fails
    dout, dbind = direct_reference(d)
    if o_out == "hang":
        return fails + ["wrap.call-never-returns"]
    if o_out != dout:
        if deco.startswith("asyn") and o_out == converted_by_asyncio(dout):
            # the executor future is copied into a loop future by asyncio (`_convert_future_exc`)
            fails.append("wrap.transparent.exception-converted")
        else:
            fails.append("wrap.transparent.result")
    if o_bind != dbind:
        fails.append("wrap.transparent.arguments")
    state, label = site_fp(d)
    is_asyn, is_traced = deco.startswith("asyn"), deco.startswith("traced")
    fname = "f" if d["form"] == "fn" else "m"
    if o_bind != "-" and "/" in o_seen:
        s_state, s_label = o_seen.split("/", 1)
        want_state = ("dflt" if state == "MC" else state) if is_traced else state
        if deco.startswith("wasync") and num(d["leak"]) and d["form"] == "meth" and "," in d["recv"] and d["cancel"] != "1":
            want_state = d["leak"]   # wrap_async runs in the caller's own context: what an earlier call of the sequence
            #                          left there (a ctx.updated block it never closed) is the caller's state now
        if s_state != want_state:
            fails.append("wrap.context-in.state")
        if is_traced:
            if s_label != fname:
                fails.append("wrap.traced.scope-name")
        elif s_label != label:
            fails.append("wrap.context-in.scope")
    if (is_asyn or is_traced) and o_after != f"{state}/{label}":
        fails.append("wrap.context-out.leak")
    if is_asyn and o_bind != "-":
        if not o_where.startswith("other"):
            fails.append("wrap.off-thread")
        if d["block"] == "1" and not o_where.endswith(",beat"):
            fails.append("wrap.loop-blocked")
        if d.get("nest") == "1" and o_where.startswith("other") and "+other" not in o_where:
            # a call made from async code that sync code in the executor bridged back to: still off the loop thread
            fails.append("wrap.on-loop-thread.nested")
    if d["form"] != "fn":
        # every call of the sequence must have run on the receiver it was made on, through the subclass override if any
        steps = d["recv"].split(",") if d["form"] == "meth" else ["a"]
        want = (",".join(steps) if dbind != "-" else "") + f";ovr={steps.count('s')}"
        if o_recv != want:
            fails.append("wrap.transparent.receiver")
    if d["spawn"] == "1" and o_bind != "-":
        # the task the function spawned belongs to the caller's scope: the call returns while it still runs, and the
        # caller's innermost async scope waits for it
        if ";pending" not in o_where:
            fails.append("wrap.spawn.held-by-wrapper")
        if not o_where.endswith(";joined"):
            fails.append("wrap.spawn.not-in-callers-scope")
    if is_traced and d["root"] == "1":
        want_r = ":".join(dout.split(":")[:2])
        got = dict(p.split("=", 1) for p in o_rec.split("~") if "=" in p)
        if got.get("A") != expected_trace_args(d) or got.get("R") != want_r:
            fails.append("wrap.traced.records")
    return sorted(set(fails))


# ------------------------------------------------------------------------------------------------
# generation

VALS = ["i1", "i2", "i7", "s3", "n", "t", "o"]
OUTS = ["r:i1", "r:s4", "r:n", "r:t", "r:o", "r:fv", "r:fe", "r:co", "r:xv", "r:xb", "e:V", "e:K", "e:C", "e:B", "e:T", "e:X", "e:I", "e:A"]


# keyword names the caller is free to use (they end up in `**kw`) that coincide with parameter names of the machinery
MACHINERY_NAMES = ["cls", "function", "value", "args", "kwargs", "exception", "label"]


def gen_args(rng, sig: int, fit: bool):
    v = lambda: rng.choice(VALS)  # noqa: E731
    if sig == 0:
        n = rng.randint(1, 4)
        pos = [v() for _ in range(n)]
        kw = {}
        if rng.random() < 0.5:
            kw["k"] = v()
        if rng.random() < 0.4:
            kw[rng.choice(["z", "q"] + MACHINERY_NAMES)] = v()
        if n == 1 and rng.random() < 0.3:
            kw["b"] = v()
        if rng.random() < 0.15:
            pos, kw = [], dict(kw, a=v())
    elif sig == 1:
        pos, kw = [], {}
    elif sig == 2:
        pos, kw = [v()], {"c": v()}
        if rng.random() < 0.5:
            pos.append(v())
        else:
            kw["b"] = v()
    elif sig == 3:
        pos = [v() for _ in range(rng.randint(0, 3))]
        kw = {k: v() for k in rng.sample(["a", "k", "z"] + MACHINERY_NAMES, rng.randint(0, 2))}
    else:
        pos = [v() for _ in range(rng.randint(1, 3))]
        kw = {}
        if len(pos) < 3 and rng.random() < 0.5:
            kw["c"] = v()
        if len(pos) < 2 and rng.random() < 0.5:
            kw["b"] = v()
    if sig in (0, 3) and rng.random() < 0.06:
        kw["self"] = v()     # legal for a plain function with a `**kw` catch-all (forms fn / obj; a method call refuses it itself)
    if not fit:
        r = rng.random()
        if r < 0.4 and pos:
            pos = pos[:-1] if sig != 3 else pos
            if sig == 2:
                kw.pop("b", None)
        elif r < 0.7:
            kw["nope"] = v()
            if sig in (0, 3):
                pos = []
                kw.pop("a", None) if sig == 0 else None
        else:
            pos = pos + [v(), v(), v()]
            if sig in (0, 3):
                kw["a"] = v()
    return pos, kw


def gen_case(rng, deco=None) -> str:
    deco = deco or (rng.choice(DECOS_STACK) if rng.random() < 0.04
                    else rng.choice(DECOS_CALL * 4 + [m for m in DECOS_META if m not in DECOS_STACK]))
    form = rng.choice(["fn", "fn", "meth", "meth", "cls"])
    if deco in OBJ_DECOS and rng.random() < 0.12:
        form = "obj"
    if deco in DECOS_STACK:
        return f"deco={deco} form=fn doc={rng.choice('110')}"
    if deco in DECOS_META:
        if deco.split("_")[1] not in ("cache",) and form == "cls":
            form = "meth"
        if deco in OBJ_DECOS and rng.random() < 0.3:
            form = "obj"
        return f"deco={deco} form={form} doc={rng.choice('110')}"
    root = "1" if rng.random() < 0.85 else "0"
    site = []
    for _ in range(rng.choice([0, 1, 1, 2, 2, 3])):
        site.append(rng.choice("aaawu") + str(rng.choice([0, 1, 2, 3, 5])))
    sig = rng.randrange(len(SIGS))
    pos, kw = gen_args(rng, sig, rng.random() < 0.88)
    out = rng.choice(OUTS)
    leak = rng.choice([0, 0, 0, 9])
    rec = rng.choice([0, 0, 4])
    block = "1" if deco.startswith("asyn") and rng.random() < 0.12 else "0"
    nest = " nest=1" if deco.startswith("asyn") and block == "0" and rng.random() < 0.1 else ""
    extra = ""
    if deco in ("wasync_a", "traced_a") and rng.random() < 0.25:
        extra += " cancel=1"
    elif deco.startswith(("wasync", "traced")) and rng.random() < 0.2:
        extra += " spawn=1"
    if form != "fn" and form != "obj":
        kw.pop("self", None)
    if form == "meth" and rng.random() < 0.5:
        extra += " recv=" + ",".join(rng.choice("aacbse") for _ in range(rng.randint(2, 4)))
    if "cancel=1" not in extra and rng.random() < 0.08:
        extra += " pc=1"
    return (f"deco={deco} form={form} root={root} site={'.'.join(site) or '-'} sig={sig} pos={','.join(pos) or '-'} "
            f"kw={','.join(f'{k}:{v}' for k, v in kw.items()) or '-'} out={out} leak={leak} rec={rec} block={block} "
            f"doc={rng.choice('1110')}{extra}{nest}")


def generate(rng, tier):
    for deco in DECOS_CALL + DECOS_META:
        for _ in range(6 if tier == "quick" else 40):
            yield gen_case(rng, deco)
    for _ in range(6000 if tier == "quick" else 100000):
        yield gen_case(rng)


def extra_obligations():
    """`_ExecutorWrapper.__call__` / `__method_call__` (the `asynchronous` wrapper) regenerated from /repo's asynchrony.py as MiniPy
    terms: a fresh copy of the caller's context per call, the function – with the caller's arguments, the receiver first for the
    method form – submitted exactly once to the configured executor on the configured loop or else the running one, to run inside
    that copy; the submission's outcome handed on as it is; no field written"""
    from harness import core, regen

    return regen.check("wrap", core.REPO, core.LEAN)


def corpus():
    base = "root=1 site=a1 sig=0 pos=i1 kw=k:i5 out=r:i2"
    return [
        f"deco=asyn form=meth {base}",                         # bound method must see the caller's context (pinned: MissingContext)
        f"deco=asyn_ex form=meth {base} leak=9",
        f"deco=asyn form=cls {base}",                          # through the class: the receiver is the first argument
        f"deco=asyn form=fn {base} leak=9 rec=4",             # context changes stay in the copy; metrics reach the caller's scope
        f"deco=asyn form=fn {base} block=1",                   # loop keeps serving
        f"deco=asyn form=fn {base} nest=1",                    # executor -> loop -> executor
        f"deco=asyn_ex form=meth {base} nest=1",
        f"deco=asyn form=fn {base} pc=1",                      # called by a task that handled an earlier cancellation
        f"deco=asyn form=meth root=0 site=- sig=0 pos=i1 kw=k:i5 out=r:i2 pc=1",
        f"deco=wasync_a form=fn {base} pc=1", f"deco=traced_a form=meth {base} pc=1", f"deco=traced_s form=fn {base} pc=1",
        f"deco=asyn_loop form=fn root=0 site=- sig=3 pos=i1 kw=q:t out=e:B",
        f"deco=wasync_s form=fn {base} leak=9",
        f"deco=wasync_a form=meth {base} out=e:C",
        f"deco=traced_s form=fn {base}",                       # keyword arguments are traced (pinned: Mapping validator)
        f"deco=traced_a form=meth {base} out=e:V leak=9 rec=4",
        "deco=traced_s form=fn root=1 site=a1.w0.u3 sig=2 pos=- kw=- out=r:i1",   # TypeError from the call is traced and re-raised
        "deco=traced_s form=fn root=0 site=- sig=1 pos=- kw=- out=r:n",
        # known finding: asyncio re-creates these three exception classes between the executor and the awaiting task
        f"deco=asyn form=fn {base.replace('out=r:i2', 'out=e:T')}",
        f"deco=asyn_ex form=meth {base.replace('out=r:i2', 'out=e:X')}",
        f"deco=asyn form=fn {base.replace('out=r:i2', 'out=e:I')}",
        f"deco=wasync_s form=fn {base.replace('out=r:i2', 'out=e:T')}",      # ... and only there
        f"deco=traced_s form=fn {base.replace('out=r:i2', 'out=e:X')}",
        # awaitables returned as values are results like any other (identity)
        f"deco=wasync_s form=fn {base.replace('out=r:i2', 'out=r:fv')}",
        f"deco=wasync_s form=fn {base.replace('out=r:i2', 'out=r:fe')}",
        f"deco=wasync_s form=meth {base.replace('out=r:i2', 'out=r:co')}",
        f"deco=asyn form=fn {base.replace('out=r:i2', 'out=r:fe')}",
        f"deco=traced_s form=fn {base.replace('out=r:i2', 'out=r:co')}",
        f"deco=traced_a form=fn {base.replace('out=r:i2', 'out=r:fv')}",
        # traced records the outcome also when it is a cancellation
        f"deco=traced_a form=fn {base} cancel=1",
        f"deco=traced_a form=meth {base.replace('out=r:i2', 'out=e:A')}",
        f"deco=wasync_a form=fn {base} cancel=1",
        # the receiver of every call of a sequence: instance, shallow copy of it, instance again; subclass with super()
        "deco=traced_s form=fn root=1 site=a1 sig=3 pos=i1 kw=cls:i5 out=r:i2",     # a keyword named like the machinery's own parameter
        "deco=traced_a form=fn root=1 site=- sig=0 pos=i1 kw=cls:i5,k:i2 out=r:i2",
        "deco=asyn form=fn root=1 site=a1 sig=0 pos=i1 kw=self:i5 out=r:i2",         # a keyword named self
        "deco=asyn_ex form=fn root=1 site=- sig=3 pos=- kw=self:i5 out=r:i2",
        "deco=m_cache_s form=obj doc=1", "deco=m_retry_s form=obj doc=0", "deco=m_cache_p form=obj doc=1",
        f"deco=asyn form=obj {base}",                          # a callable object with private attributes of its own
        f"deco=asyn_ex form=obj {base} leak=9 rec=4",
        f"deco=wasync_s form=obj {base}",
        f"deco=traced_s form=obj {base}",
        f"deco=asyn form=meth {base} recv=a,c,a",
        f"deco=asyn_ex form=meth {base} recv=a,c,c,b",
        f"deco=asyn form=meth {base} recv=s,s,s",
        f"deco=traced_a form=meth {base} recv=a,s,c,s",
        f"deco=wasync_s form=meth {base} recv=c,a,s,s",
        f"deco=asyn form=meth {base} recv=a,e",            # equal, hash-equal, but another object
        f"deco=asyn_ex form=meth {base} recv=e,a,e",
        # a task spawned by the function belongs to the caller's scope, not to the wrapper
        f"deco=traced_a form=fn {base} spawn=1",
        f"deco=traced_s form=meth {base} spawn=1",
        f"deco=wasync_a form=fn {base} spawn=1",
        "deco=wasync_s form=fn root=1 site=a1.w2.a3.u4 sig=1 pos=- kw=- out=e:V spawn=1",
    ] + [f"deco={m} form={f} doc={dc}" for m in DECOS_META if m not in DECOS_STACK for f in ("fn", "meth") for dc in "10"] \
      + [f"deco={m} form=fn doc={dc}" for m in DECOS_STACK for dc in "10"]


def nontrivial(case: str, out: str) -> bool:
    d = parse(case)
    parts = out.split("|")
    if len(parts) != 8:
        return False
    if d["deco"] in DECOS_META:
        return d["doc"] == "1" and d["form"] != "fn"
    ran = parts[1] != "-"
    supplied = any(num(b[1:]) > 0 for b in d["site"].split(".")) if d["site"] != "-" else False
    defaulted = d["kw"] != "-" or (num(d["sig"]) in (0, 4) and ran)
    return ran and supplied and (defaulted or parts[0].startswith("e:"))


def classify(case: str, out: str):
    d = parse(case)
    yield "deco:" + d["deco"]
    yield "form:" + d["form"]
    if d["deco"] in DECOS_META:
        return
    yield "sig:" + d["sig"]
    yield "site-depth:" + str(0 if d["site"] == "-" else len(d["site"].split(".")))
    yield "root:" + d["root"]
    parts = out.split("|")
    if "cancel" in case and d["cancel"] == "1":
        yield "cancelled-while-suspended"
    if d["form"] == "meth" and d["recv"] != "a":
        yield "recv-seq:" + str(len(d["recv"].split(",")))
        for k in set(d["recv"].split(",")):
            yield "recv:" + k
    if len(parts) == 8:
        yield ("outcome:" + ":".join(parts[0].split(":")[:2])) if parts[0].startswith("e:") else "outcome:value"
        yield "body:" + ("ran" if parts[1] != "-" else "not-bound")
    for k in ("leak", "rec", "block", "spawn"):
        if d[k] != "0":
            yield k


def mutate(rng, case: str) -> str:
    d = parse(case)
    r = rng.random()
    if r < 0.3:
        return gen_case(rng, d["deco"])
    if r < 0.5:
        d["form"] = rng.choice(["fn", "meth", "cls"])
    elif r < 0.7:
        d["site"] = ".".join(rng.choice("awu") + str(rng.randint(0, 4)) for _ in range(rng.randint(0, 3))) or "-"
    elif r < 0.85:
        d["out"] = rng.choice(OUTS)
    else:
        d["leak"], d["rec"] = rng.choice(["0", "9"]), rng.choice(["0", "4"])
    if d["form"] == "meth" and rng.random() < 0.4:
        d["recv"] = ",".join(rng.choice("acbse") for _ in range(rng.randint(1, 4)))
    return " ".join(f"{k}={v}" for k, v in d.items())


def shrink(case: str):
    d = parse(case)
    simpler = {"spawn": "0", "site": "-", "leak": "0", "rec": "0", "block": "0", "kw": "-", "pos": "-", "out": "r:i1", "form": "fn",
               "sig": "0", "doc": "1", "cancel": "0", "recv": "a"}
    if d["recv"] != "a":
        steps = d["recv"].split(",")
        for i in range(len(steps)):
            if len(steps) > 1:
                yield " ".join(f"{kk}={','.join(steps[:i] + steps[i + 1:]) if kk == 'recv' else vv}" for kk, vv in d.items())
    for k, v in simpler.items():
        if d.get(k) != v:
            yield " ".join(f"{kk}={v if kk == k else vv}" for kk, vv in d.items())
    if d["site"] != "-" and "." in d["site"]:
        blocks = d["site"].split(".")
        for i in range(len(blocks)):
            yield " ".join(f"{kk}={'.'.join(blocks[:i] + blocks[i + 1:]) if kk == 'site' else vv}" for kk, vv in d.items())
