"""Shared machinery of every check: Lean build + axiom audit, model driver, correspondence loop,
property monitors, failing-input search, shrinking, verdict, evidence.

A *component* (harness/comp_*.py) supplies:
  PID, LEAN_COMPONENT, PROPS_MODULE (Lean module with the property theorems), RULE (text),
  corpus() -> list[str], generate(rng, tier, budget) -> iterator[str],
  run_real(case) -> str            observation of the real haiway code, canonical one-line text
  monitor(case, real_out) -> list[str]   property failures as signatures ([] = property holds on the case)
  nontrivial(case, real_out) -> bool
  mutate(rng, case) -> str          a neighbour of a case (failing-input search)
  shrink(case) -> iterator[str]     smaller candidates (delta debugging)
  ASSUMPTIONS, TRUSTED (lists of str)
Cases are self-contained one-line strings; the same line goes to `hwmodel <component>`.
"""
from __future__ import annotations

import fcntl
import hashlib
import json
import os
import random
import re
import signal
import subprocess
import sys
import time as _time
from collections import Counter
from pathlib import Path

VERIF = Path(__file__).resolve().parent.parent
LEAN = VERIF / "lean"
REPO = Path(os.environ.get("HAIWAY_REPO", "/repo"))
HWMODEL = LEAN / ".lake" / "build" / "bin" / "hwmodel"
ALLOWED_AXIOMS = {"propext", "Classical.choice", "Quot.sound"}
FORBIDDEN = re.compile(r"\bsorry\b|\badmit\b|^\s*axiom\s|native_decide|bv_decide|implemented_by|\bunsafe\s|maxHeartbeats\s+0")

_real_time = _time.monotonic  # captured before vloop patches the clock


def wall() -> float:
    return _real_time()


class Infra(Exception):
    """Our own machinery is broken: exit 2, nothing is claimed."""


# ----------------------------------------------------------------------------------------------
# real code import

def import_haiway():
    """Import the haiway package from the repository's *current working tree*."""
    src = str(REPO / "src")
    os.environ.setdefault("HAIWAY_VERIF", "1")
    if src not in sys.path:
        sys.path.insert(0, src)
    from harness import vloop  # noqa: F401  (patch the clock before haiway binds it)
    import warnings

    import haiway

    sys.unraisablehook = lambda _u: None  # ScopeMetrics.__del__ asserts on abandoned scopes: noise, not a verdict
    warnings.simplefilter("ignore", RuntimeWarning)
    f = os.path.realpath(haiway.__file__)
    if not f.startswith(os.path.realpath(src)):
        raise Infra(f"haiway imported from {f}, expected under {src}")
    return haiway


# ----------------------------------------------------------------------------------------------
# Lean side

def _lake(args: list[str], timeout: int = 1800) -> subprocess.CompletedProcess:
    LEAN.joinpath(".lake").mkdir(exist_ok=True)
    lock = open(LEAN / ".lake" / "verif-build.lock", "w")
    fcntl.flock(lock, fcntl.LOCK_EX)
    try:
        return subprocess.run(["lake", *args], cwd=LEAN, capture_output=True, text=True, timeout=timeout)
    finally:
        fcntl.flock(lock, fcntl.LOCK_UN)
        lock.close()


def lean_build(targets: list[str]) -> None:
    r = _lake(["build", *targets])
    if r.returncode != 0:
        raise Infra("lake build failed:\n" + (r.stdout + r.stderr)[-4000:])


def strip_comments(text: str) -> str:
    out, depth, i = [], 0, 0
    while i < len(text):
        if text.startswith("/-", i):
            depth += 1
            i += 2
        elif text.startswith("-/", i) and depth:
            depth -= 1
            i += 2
        elif depth:
            if text[i] == "\n":
                out.append("\n")
            i += 1
        elif text.startswith("--", i):
            while i < len(text) and text[i] != "\n":
                i += 1
        else:
            out.append(text[i])
            i += 1
    return "".join(out)


def lean_sources(roots: list[str] | None = None) -> list[Path]:
    """Lean files of this project; with `roots` only the import closure of those modules (what the property's theorems
    and the model driver actually depend on)."""
    if roots is None:
        return sorted(p for p in LEAN.rglob("*.lean") if ".lake" not in p.parts)
    seen: dict[str, Path] = {}
    todo = list(roots)
    while todo:
        mod = todo.pop()
        if mod in seen:
            continue
        path = LEAN / (mod.replace(".", "/") + ".lean")
        if not path.exists():
            continue
        seen[mod] = path
        for line in strip_comments(path.read_text()).splitlines():
            m = re.match(r"\s*(?:public\s+)?import\s+(\S+)", line)
            if m:
                todo.append(m.group(1))
    return sorted(seen.values())


def grep_forbidden(roots: list[str] | None = None) -> list[str]:
    hits = []
    for p in lean_sources(roots):
        for n, line in enumerate(strip_comments(p.read_text()).splitlines(), 1):
            if FORBIDDEN.search(line):
                hits.append(f"{p.relative_to(LEAN)}:{n}: {line.strip()}")
    return hits


def theorems_of(module: str) -> tuple[list[str], int]:
    """Fully qualified names of the `theorem`s declared in a Props module, and the number of
    `example`s (non-vacuity obligations, discharged by the build)."""
    path = LEAN / (module.replace(".", "/") + ".lean")
    text = strip_comments(path.read_text())
    ns: list[str] = []
    names: list[str] = []
    examples = 0
    for line in text.splitlines():
        m = re.match(r"\s*namespace\s+(\S+)", line)
        if m:
            ns.append(m.group(1))
            continue
        m = re.match(r"\s*end\s+(\S+)", line)
        if m and ns and ns[-1] == m.group(1):
            ns.pop()
            continue
        m = re.match(r"\s*(?:@\[[^\]]*\]\s*)?(?:private\s+|protected\s+)?theorem\s+(\S+)", line)
        if m:
            names.append(".".join(ns + [m.group(1)]))
        if re.match(r"\s*example\b", line):
            examples += 1
    return names, examples


def audit_axioms(module: str, names: list[str]) -> dict[str, list[str]]:
    tmp = LEAN / ".lake" / "audit"
    tmp.mkdir(parents=True, exist_ok=True)
    f = tmp / f"Audit_{module.replace('.', '_')}_{os.getpid()}.lean"
    f.write_text(f"import {module}\n" + "".join(f"#print axioms {n}\n" for n in names))
    try:
        r = subprocess.run(["lake", "env", "lean", str(f)], cwd=LEAN, capture_output=True, text=True, timeout=900)
    finally:
        f.unlink(missing_ok=True)
    if r.returncode != 0:
        raise Infra("axiom audit failed:\n" + (r.stdout + r.stderr)[-3000:])
    res: dict[str, list[str]] = {}
    text = r.stdout.replace("\n  ", " ").replace("\n ", " ")
    for m in re.finditer(r"'([^']+)' depends on axioms: \[([^\]]*)\]", text):
        res[m.group(1)] = [a.strip() for a in m.group(2).split(",") if a.strip()]
    for m in re.finditer(r"'([^']+)' does not depend on any axioms", text):
        res[m.group(1)] = []
    return res


def run_model(component: str, cases: list[str]) -> list[str]:
    if not cases:
        return []
    if not HWMODEL.exists():
        raise Infra(f"{HWMODEL} missing (run setup_cmd)")
    inp = "\n".join(cases) + "\n"
    r = subprocess.run([str(HWMODEL), component], input=inp, capture_output=True, text=True, timeout=3600)
    out = r.stdout.splitlines()
    if r.returncode != 0 or len(out) != len(cases):
        raise Infra(f"hwmodel {component}: rc={r.returncode} lines={len(out)}/{len(cases)} {r.stderr[-500:]}")
    return out


# ----------------------------------------------------------------------------------------------
# running the real code with a wall-clock backstop

class CaseTimeout(Exception):
    pass


def _alarm(_sig, _frm):
    raise CaseTimeout()


def guarded(fn, case: str, seconds: int = 20) -> str:
    old = signal.signal(signal.SIGALRM, _alarm)
    signal.alarm(seconds)
    try:
        return fn(case)
    except CaseTimeout:
        return "HANG(wall-clock)"
    except Infra:
        raise
    except Exception as exc:  # noqa: BLE001
        # the library did something the executor did not anticipate (only seen on modified trees): that is an
        # observation (it will disagree with the model and be looked at), not a reason to abort the whole check
        return f"RUN-ERROR:{type(exc).__name__}:{str(exc)[:120]}".replace("\n", " ")
    finally:
        signal.alarm(0)
        signal.signal(signal.SIGALRM, old)


def safe_monitor(comp, case: str, out: str) -> list[str]:
    """the component's property monitor; an observation it cannot read (executor error, hang, or an output shape
    only a modified library produces) counts as 'no usable observation' for that case"""
    if out.startswith("RUN-ERROR:") or out.startswith("HANG("):
        return [f"{comp.LEAN_COMPONENT}.no-observation:" + out.split(":")[0].lower() + ":" + (out.split(":")[1] if ":" in out else "")]
    try:
        return list(comp.monitor(case, out))
    except Exception as exc:  # noqa: BLE001
        return [f"{comp.LEAN_COMPONENT}.unreadable-observation:{type(exc).__name__}"]


def _worker(args):
    modname, cases = args
    import importlib

    comp = importlib.import_module(modname)
    import_haiway()
    return [guarded(comp.run_real, c) for c in cases]


def run_real_many(comp, cases: list[str], procs: int) -> list[str]:
    if procs <= 1 or len(cases) < 64:
        return [guarded(comp.run_real, c) for c in cases]
    import multiprocessing as mp

    chunks = [cases[i::procs] for i in range(procs)]
    with mp.get_context("fork").Pool(procs) as pool:
        parts = pool.map(_worker, [(comp.__name__, ch) for ch in chunks])
    out = [""] * len(cases)
    for k, part in enumerate(parts):
        out[k::procs] = part
    return out


# ----------------------------------------------------------------------------------------------
# known findings

def load_known() -> list[dict]:
    p = VERIF / "known_findings.json"
    if not p.exists():
        return []
    return [e for e in json.loads(p.read_text()) if isinstance(e, dict)]


# ----------------------------------------------------------------------------------------------
# shrinking

def shrink_case(comp, case: str, still_bad, max_steps: int = 400) -> str:
    """Greedy delta debugging using the component's `shrink` candidates."""
    steps = 0
    improved = True
    while improved and steps < max_steps:
        improved = False
        for cand in comp.shrink(case):
            steps += 1
            if steps >= max_steps:
                break
            if cand != case and still_bad(cand):
                case = cand
                improved = True
                break
    return case


def default_shrink(case: str):
    toks = case.split(" ")
    for i in range(len(toks)):
        yield " ".join(toks[:i] + toks[i + 1:])


# ----------------------------------------------------------------------------------------------
# the check

def case_hash(c: str) -> str:
    return hashlib.sha1(c.encode()).hexdigest()[:16]


def write_replay(pid: str, kind: str, payload: dict) -> Path:
    d = VERIF / "replays"
    d.mkdir(exist_ok=True)
    p = d / f"{pid}-{kind}-{case_hash(json.dumps(payload, sort_keys=True))}.json"
    p.write_text(json.dumps(payload, indent=1))
    return p


def run_check(comp, tier: str, seed: int, replay: str | None = None) -> int:
    t0 = wall()
    pid = comp.PID
    budget = float(os.environ.get("VERIF_BUDGET_S", "0") or 0)
    procs = 1 if tier == "quick" else min(16, os.cpu_count() or 1)
    if os.environ.get("VERIF_PROCS"):
        procs = int(os.environ["VERIF_PROCS"])

    # 1. Lean build (sources live in /verif; failure = infrastructure error)
    lean_build([comp.PROPS_MODULE, "hwmodel"])
    # 2. audit
    hits = grep_forbidden([comp.PROPS_MODULE, "Main"])
    if hits:
        raise Infra("forbidden construct in Lean sources:\n" + "\n".join(hits))
    thms, examples = theorems_of(comp.PROPS_MODULE)
    if not thms:
        raise Infra(f"no theorems found in {comp.PROPS_MODULE}")
    axioms = audit_axioms(comp.PROPS_MODULE, thms)
    bad_ax = {n: a for n, a in axioms.items() if not set(a) <= ALLOWED_AXIOMS}
    missing = [n for n in thms if n not in axioms]
    if bad_ax or missing:
        raise Infra(f"axiom audit: inadmissible {bad_ax} missing {missing}")
    checker_cmd = f"cd lean && lake build {comp.PROPS_MODULE} && lake env lean <#print axioms of {len(thms)} theorems>"
    leanchecker = None
    if tier == "thorough" and not os.environ.get("VERIF_NO_LEANCHECKER"):
        r = subprocess.run(["lake", "env", "leanchecker", comp.PROPS_MODULE], cwd=LEAN, capture_output=True, text=True, timeout=3000)
        leanchecker = r.returncode
        if r.returncode != 0:
            raise Infra("leanchecker rejected " + comp.PROPS_MODULE + ":\n" + (r.stdout + r.stderr)[-2000:])
        checker_cmd += f" && lake env leanchecker {comp.PROPS_MODULE}"

    import_haiway()
    if hasattr(comp, "setup"):
        comp.setup()
    # proof obligations regenerated from /repo's current source by a translator (optional, per component):
    # [{"name":…, "status": "ok"|"broken"|"skipped", "detail":…}]
    extra = list(comp.extra_obligations()) if hasattr(comp, "extra_obligations") else []

    # 3. cases
    rng = random.Random(f"{seed}/{pid}")
    if replay:
        payload = json.loads(Path(replay).read_text())
        cases = list(payload.get("cases") or [payload["case"]])
        corpus_n = 0
    else:
        corpus = list(comp.corpus())
        corpus_dir = VERIF / "corpus" / pid
        if corpus_dir.is_dir():
            for f in sorted(corpus_dir.glob("*.case")):
                corpus += [ln for ln in f.read_text().splitlines() if ln.strip() and not ln.startswith("#")]
        corpus_n = len(corpus)
        seen = set()
        cases = []
        for c in list(corpus) + list(comp.generate(rng, tier)):
            if c not in seen:
                seen.add(c)
                cases.append(c)
    # 4. both sides.  A component may derive the model's input from the implementation's observation
    #    (`model_input`: replay of the observed linearisation = trace inclusion) and may supply its own
    #    agreement predicate (`agree`); the default is the same case line to both sides and equal output.
    real_out = run_real_many(comp, cases, procs)
    _model_in = getattr(comp, "model_input", lambda c, r: c)
    canon = getattr(comp, "canon", lambda c, o: o)
    _agree = getattr(comp, "agree", lambda c, m, r: canon(c, m) == canon(c, r))

    def model_in(c: str, r: str) -> str:
        try:
            return _model_in(c, r)
        except Exception:  # noqa: BLE001  (observation of a shape only a modified library produces)
            return "unreadable-observation"

    def agree(c: str, m: str, r: str) -> bool:
        try:
            return bool(_agree(c, m, r))
        except Exception:  # noqa: BLE001
            return False
    model_out = run_model(comp.LEAN_COMPONENT, [model_in(c, r) for c, r in zip(cases, real_out)])

    def model_of(c: str, r: str) -> str:
        return run_model(comp.LEAN_COMPONENT, [model_in(c, r)])[0]

    disagreements: list[int] = []
    failures: dict[str, list[int]] = {}
    nontrivial = set()
    dist = Counter()
    for i, (c, m, r) in enumerate(zip(cases, model_out, real_out)):
        if not agree(c, m, r):
            disagreements.append(i)
        for sig in safe_monitor(comp, c, r):
            failures.setdefault(sig, []).append(i)
        if comp.nontrivial(c, r):
            nontrivial.add(case_hash(c))
        if hasattr(comp, "classify"):
            for k in comp.classify(c, r):
                dist[k] += 1

    known = [e for e in load_known() if e.get("property") == pid and e.get("status") == "known"]
    known_sigs = {e["signature"]: e for e in known}
    violations: list[tuple[str, Path, bool]] = []  # (what, replay, failing_input_found)
    printed_known = set()

    def real_and_monitor(c: str) -> list[str]:
        return safe_monitor(comp, c, guarded(comp.run_real, c))

    def search_monitor(c: str) -> list[str]:
        """for NEIGHBOURS made by `mutate` / `shrink` during a failing-input search: a neighbour the component's own parser
        refuses (`bad-case`, an input that cannot be built) is the search's product, not an observation of the code"""
        out = guarded(comp.run_real, c)
        if out == "bad-case" or out.startswith(("bad-", "input-build-failed", "harness-error")):
            return []
        return [s for s in safe_monitor(comp, c, out) if "no-observation:bad-case" not in s]

    # 5a. monitor failures = the property fails on the real code for that input
    for sig, idxs in sorted(failures.items()):
        if sig in known_sigs:
            if sig not in printed_known:
                printed_known.add(sig)
                print(f"KNOWN-FINDING: property={pid} {sig}: {known_sigs[sig].get('what', '')} (e.g. case `{cases[idxs[0]]}`)")
            continue
        c0 = min((cases[i] for i in idxs), key=len)
        small = shrink_case(comp, c0, lambda c: sig in real_and_monitor(c))
        small_real = guarded(comp.run_real, small)
        p = write_replay(pid, "violation", {
            "property": pid, "kind": "property-fails-on-implementation", "signature": sig,
            "case": small, "original_case": c0, "implementation_output": small_real,
            "model_output": model_of(small, small_real), "occurrences": len(idxs),
            "replay_cmd": f"./check {pid} --replay <this file>"})
        violations.append((sig, p, True))

    # 5b. correspondence disagreements that no monitor failure explains: failing-input search
    explained = set()
    for sig, idxs in failures.items():
        if sig not in known_sigs:
            explained.update(idxs)
    unexplained = [i for i in disagreements if i not in explained]
    searched = 0
    if unexplained and not violations:
        c0 = min((cases[i] for i in unexplained), key=len)

        def differs(c: str) -> bool:
            r = guarded(comp.run_real, c)
            return not agree(c, model_of(c, r), r)

        small = shrink_case(comp, c0, differs)
        found = None
        srng = random.Random(f"{seed}/{pid}/search")
        pool = [small] + [cases[i] for i in unexplained[:20]]
        n_search = 1500 if tier == "quick" else 10000
        for _ in range(n_search):
            base = srng.choice(pool)
            cand = comp.mutate(srng, base)
            searched += 1
            sigs = [s for s in search_monitor(cand) if s not in known_sigs]
            if sigs:
                found = (cand, sigs[0])
                break
        if found:
            cand, sig = found
            cand = shrink_case(comp, cand, lambda c: sig in search_monitor(c))
            cand_real = guarded(comp.run_real, cand)
            p = write_replay(pid, "violation", {
                "property": pid, "kind": "property-fails-on-implementation", "signature": sig, "case": cand,
                "found_by": "failing-input search after correspondence disagreement", "disagreeing_case": small,
                "implementation_output": cand_real,
                "model_output": model_of(cand, cand_real)})
            violations.append((sig, p, True))
        else:
            p = write_replay(pid, "correspondence", {
                "property": pid, "kind": "correspondence-broken",
                "what_no_longer_checks": f"correspondence hwmodel {comp.LEAN_COMPONENT} ~ {', '.join(comp.ANCHORS)}; "
                                         f"theorems of {comp.PROPS_MODULE} are about a model the code no longer matches",
                "theorems": thms, "case": small, "original_case": c0,
                "implementation_output": guarded(comp.run_real, small),
                "model_output": model_of(small, guarded(comp.run_real, small)),
                "disagreeing_cases": len(unexplained), "search": f"{searched} neighbours + {len(cases)} explored cases: property monitor held on all"})
            violations.append(("correspondence", p, False))

    # 5c. regenerated proof obligations that no longer check: failing-input search, then the verdict table
    broken = [e for e in extra if e["status"] == "broken"]
    if broken and not violations:
        srng = random.Random(f"{seed}/{pid}/search-gen")
        found = None
        n_search = 1500 if tier == "quick" else 10000
        for _ in range(n_search):
            cand = comp.mutate(srng, srng.choice(cases))
            searched += 1
            sigs = [s_ for s_ in search_monitor(cand) if s_ not in known_sigs]
            if sigs:
                found = (cand, sigs[0])
                break
        if found:
            cand, sig = found
            cand = shrink_case(comp, cand, lambda c: sig in search_monitor(c))
            cand_real = guarded(comp.run_real, cand)
            p = write_replay(pid, "violation", {
                "property": pid, "kind": "property-fails-on-implementation", "signature": sig, "case": cand,
                "found_by": "failing-input search after a regenerated proof obligation broke",
                "broken_obligations": [e["name"] for e in broken], "implementation_output": cand_real,
                "model_output": model_of(cand, cand_real)})
            violations.append((sig, p, True))
        else:
            p = write_replay(pid, "obligation", {
                "property": pid, "kind": "proof-obligation-broken",
                "what_no_longer_checks": [e["name"] for e in broken], "detail": [e.get("detail", "")[:1500] for e in broken],
                "search": f"{searched} neighbours + {len(cases)} explored cases: property monitor held on all"})
            violations.append(("obligation", p, False))

    # 6. evidence
    samples = []
    for i in ([*range(min(2, len(cases)))] + [len(cases) // 2, len(cases) - 1])[:4]:
        if 0 <= i < len(cases):
            samples.append({"case": cases[i], "implementation": real_out[i], "model": model_out[i]})
    ev = {
        "property_id": pid, "tier": tier, "seed": seed, "level": "proof",
        "coverage": {
            "obligations": len(thms) + examples + sum(1 for e in extra if e["status"] != "skipped"),
            "discharged": len(thms) + examples + sum(1 for e in extra if e["status"] == "ok"),
            "regenerated_obligations": [{k: e.get(k) for k in ("name", "status", "note")} for e in extra],
            "theorems": {n: axioms[n] for n in thms}, "nonvacuity_examples": examples,
            "checker_cmd": checker_cmd, "leanchecker_rc": leanchecker,
            "trusted_base": ["Lean 4.33 kernel + elaborator", "axioms ⊆ {propext, Classical.choice, Quot.sound} (audited per theorem)",
                             "hand-written model tied to /repo by this correspondence run", *comp.TRUSTED],
            "evaluations": len(cases), "distinct_nontrivial": len(nontrivial), "rule": comp.RULE,
            "traces_validated_against_impl": len(cases) - len(disagreements),
            "disagreements_checked": len(disagreements), "monitor_failures": {k: len(v) for k, v in failures.items()},
            "known_findings_seen": sorted(printed_known), "search_neighbours": searched,
            "corpus_cases": corpus_n, "distribution": dict(dist.most_common(40)), "samples": samples,
            "repo": str(REPO), "processes": procs,
        },
        "assumptions": list(comp.ASSUMPTIONS),
        "wall_s": round(wall() - t0, 2), "violations": len(violations),
    }
    if not replay and not os.environ.get("VERIF_NO_EVIDENCE"):
        (VERIF / "evidence").mkdir(exist_ok=True)
        (VERIF / "evidence" / f"{pid}.json").write_text(json.dumps(ev, indent=1, ensure_ascii=False))
    else:
        for i, c in enumerate(cases):
            print(f"case: {c}\n  implementation: {real_out[i]}\n  model:          {model_out[i]}\n  monitor: {safe_monitor(comp, c, real_out[i]) or 'holds'}")
    for what, p, found in violations:
        tail = "" if found else " no-failing-input-found"
        print(f"VIOLATION property={pid} replay={p}{tail}")
    print(f"{pid} {tier}: {len(cases)} cases, {len(nontrivial)} non-trivial, {len(disagreements)} disagreements, "
          f"{sum(len(v) for v in failures.values())} monitor failures, {len(thms)} theorems audited, {ev['wall_s']}s")
    return 1 if violations else 0
