"""Translator for the one part of haiway where syntax *is* the semantics that matters: the cleanup structure of
`ScopeContext.__aenter__/__aexit__/__enter__/__exit__` (which step runs under which `finally`/`except`).  The AST of
/repo's current access.py is turned into terms of the Lean IR `Haiway.Proc.Proc`; the restoration obligations are then
re-stated about the *regenerated* terms and re-checked by Lean with a proof script that does not depend on the shape.

Outcome: ("ok", terms) | ("unrecognised", reason)  – an unrecognised shape is never an alarm by itself."""
from __future__ import annotations

import ast
import subprocess
from pathlib import Path

ATOMS = {  # (receiver attribute, method) -> atom
    ("_task_group_context", "__aenter__"): "groupEnter",
    ("_task_group_context", "__aexit__"): "groupExit",
    ("_disposables", "__aenter__"): "dispEnter",
    ("_disposables", "__aexit__"): "dispExit",
    ("_state_context", "__enter__"): "stateEnter",
    ("_state_context", "__exit__"): "stateExit",
    ("_metrics_context", "__enter__"): "metricsEnter",
    ("_metrics_context", "__exit__"): "metricsExit",
}


class Unrecognised(Exception):
    pass


def calls_in(node, handler_var=None):
    found = []
    for n in ast.walk(node):
        if isinstance(n, ast.Call) and isinstance(n.func, ast.Attribute):
            on_self_attr = isinstance(n.func.value, ast.Attribute) and isinstance(n.func.value.value, ast.Name) \
                and n.func.value.value.id == "self"
            if isinstance(n.func.value, ast.Name) and n.func.value.id == "self":
                # a helper method of the scope object: its body is elsewhere, the IR would silently lose its steps
                raise Unrecognised(f"helper method self.{n.func.attr}(...)")
            if n.func.attr in ("__enter__", "__exit__", "__aenter__", "__aexit__") and not (
                    on_self_attr and (n.func.value.attr, n.func.attr) in ATOMS):
                # a context manager entered / left through a name the IR does not know (renamed field, local alias)
                raise Unrecognised(f"{ast.unparse(n.func)}: enter/exit of an unrecognised receiver")
        if isinstance(n, ast.Call) and isinstance(n.func, ast.Attribute) and isinstance(n.func.value, ast.Attribute) \
                and isinstance(n.func.value.value, ast.Name) and n.func.value.value.id == "self":
            key = (n.func.value.attr, n.func.attr)
            if key in ATOMS:
                atom = ATOMS[key]
                if atom == "groupExit":
                    # which exception is handed to the group as the exit reason: the method's own `exc_val`
                    # variable, or the exception bound by the enclosing handler
                    val = next((k.value for k in n.keywords if k.arg in ("exc_val", "exc")), None)
                    if val is None and len(n.args) >= 2:
                        val = n.args[1]
                    if isinstance(val, ast.Name) and handler_var is not None and val.id == handler_var:
                        atom = "groupExitCaught"
                    elif not (isinstance(val, ast.Name) and val.id == "exc_val"):
                        raise Unrecognised("group exit called with an unrecognised exit reason")
                found.append((n.lineno, n.col_offset, atom))
    return [a for _, _, a in sorted(found)]


def rebinds_reason(s, handler_var) -> bool:
    """`exc_type, exc_val, exc_tb = type(exc), exc, exc.__traceback__` (any assignment making `exc_val` the caught one)"""
    if not isinstance(s, ast.Assign) or handler_var is None:
        return False
    names = [n.id for t in s.targets for n in ast.walk(t) if isinstance(n, ast.Name)]
    uses = [n.id for n in ast.walk(s.value) if isinstance(n, ast.Name)]
    return "exc_val" in names and handler_var in uses


def seq(ps):
    ps = [p for p in ps if p != "Proc.skip"]
    if not ps:
        return "Proc.skip"
    out = ps[-1]
    for p in reversed(ps[:-1]):
        out = f"(Proc.seq {p} {out})"
    return out


def stmts(body, hv=None):
    return seq([stmt(s, hv) for s in body])


def stmt(s, hv=None):
    if rebinds_reason(s, hv):
        return "(Proc.atom Atom.rebindReason)"
    if isinstance(s, (ast.Expr, ast.Assign, ast.AnnAssign, ast.Return, ast.AugAssign)):
        return seq([f"(Proc.atom Atom.{a})" for a in calls_in(s, hv)])
    if isinstance(s, ast.If):
        a, b = stmts(s.body, hv), stmts(s.orelse, hv)
        if a == "Proc.skip":
            return b
        if b == "Proc.skip" or b == a:
            return a
        return a if len(a) >= len(b) else b  # `if self._disposables is not None`: keep the richer branch
    if isinstance(s, ast.Try):
        p = stmts(s.body, hv)
        if s.orelse:
            raise Unrecognised("try/else")
        if s.handlers:
            if len(s.handlers) != 1:
                raise Unrecognised("several handlers")
            h = s.handlers[0]
            if not any(isinstance(x, ast.Raise) and x.exc is None for x in h.body):
                # a handler that swallows or replaces: not expressible in the IR
                raise Unrecognised("except handler without bare raise")
            if h.type is None or (isinstance(h.type, ast.Name) and h.type.id == "BaseException"):
                catches_all = "true"
            elif isinstance(h.type, ast.Name) and h.type.id == "Exception":
                catches_all = "false"
            else:
                raise Unrecognised("handler for an unrecognised exception class")
            p = f"(Proc.tryExcept {catches_all} {p} {stmts(h.body, h.name)})"
        if s.finalbody:
            p = f"(Proc.tryFinally {p} {stmts(s.finalbody, hv)})"
        return p
    if isinstance(s, (ast.Raise, ast.Pass, ast.Assert)):
        return "Proc.skip"
    raise Unrecognised(type(s).__name__)


def extract(path: Path) -> dict[str, str]:
    tree = ast.parse(path.read_text())
    cls = next((n for n in tree.body if isinstance(n, ast.ClassDef) and n.name == "ScopeContext"), None)
    if cls is None:
        raise Unrecognised("no class ScopeContext")
    out = {}
    for f in cls.body:
        if isinstance(f, (ast.AsyncFunctionDef, ast.FunctionDef)) and f.name in ("__aenter__", "__aexit__", "__enter__", "__exit__"):
            out[f.name] = stmts(f.body)
    if set(out) != {"__aenter__", "__aexit__", "__enter__", "__exit__"}:
        raise Unrecognised("methods missing: " + ",".join(sorted(out)))
    for name, term in out.items():
        if term == "Proc.skip":
            raise Unrecognised(f"{name}: no recognised step")
    return out


OBLIGATIONS = ["g_restored", "g_same_exception", "g_cleanup_all_run", "g_failed_enter_rolls_back", "g_exit_reason",
               "g_enter_rollback_reason",
               "g_restored_sync", "g_same_exception_sync"]


def lean_source(t: dict[str, str]) -> str:
    return f"""import Haiway.Model.Proc
/-! GENERATED from /repo's access.py by harness/extract_ir.py on every run of the C02 check; not committed. -/
namespace Haiway.Generated
open Haiway.Proc

def gAenter : Proc := {t['__aenter__']}
def gAexit : Proc := {t['__aexit__']}
def gSenter : Proc := {t['__enter__']}
def gSexit : Proc := {t['__exit__']}

theorem g_restored (φ : Faults) (body : Option Exc) (scramble : Ctx → Ctx) (m : M) :
    (block gAenter gAexit φ body scramble m).1.ctx = m.ctx := by
  unfold block gAenter gAexit
  simp only [run, runAtom]
  cases h1 : φ .dispEnter <;> cases h2 : φ .groupExit <;> cases h3 : φ .dispExit <;> cases h4 : φ .metricsExit <;>
    (try cases ‹Exc›) <;> (try cases ‹Exc›) <;> (try cases ‹Exc›) <;> (try cases ‹Exc›) <;> simp [Exc.isException]

theorem g_same_exception (φ : Faults) (body : Option Exc) (scramble : Ctx → Ctx) (m : M)
    (h : ∀ a, φ a = none) : (block gAenter gAexit φ body scramble m).2 = body := by
  unfold block gAenter gAexit
  simp [run, runAtom, h]

theorem g_cleanup_all_run (φ : Faults) (body : Option Exc) (scramble : Ctx → Ctx) (m : M)
    (hin : φ .dispEnter = none) :
    let l := (block gAenter gAexit φ body scramble m).1.log.drop m.log.length
    l.count .dispExit = 1 ∧ l.count .groupExit = 1 ∧ l.count .metricsExit = 1 ∧ l.count .stateExit = 1 := by
  unfold block gAenter gAexit
  simp only [run, runAtom, hin]
  cases h2 : φ .groupExit <;> cases h3 : φ .dispExit <;> cases h4 : φ .metricsExit <;> (try cases ‹Exc›) <;> (try cases ‹Exc›) <;>
    (try cases ‹Exc›) <;> simp [Exc.isException]

theorem g_failed_enter_rolls_back (φ : Faults) (body : Option Exc) (scramble : Ctx → Ctx) (m : M) (e : Exc)
    (hin : φ .dispEnter = some e) :
    let r := block gAenter gAexit φ body scramble m
    let l := r.1.log.drop m.log.length
    l.count .metricsEnter = 1 ∧ l.count .metricsExit = 1 ∧ l.count .dispExit = 0 ∧ r.2.isSome := by
  unfold block gAenter
  simp only [run, runAtom, hin]
  cases e <;> cases h2 : φ .groupExit <;> cases h4 : φ .metricsExit <;> simp [Exc.isException]

theorem g_exit_reason (φ : Faults) (body : Option Exc) (scramble : Ctx → Ctx) (m : M)
    (hin : φ .dispEnter = none) :
    let r := (block gAenter gAexit φ body scramble m).1
    r.dispSaw = some body ∧
    r.groupSaw = some (match φ .dispExit with | some d => some d | none => body) := by
  unfold block gAenter gAexit
  simp only [run, runAtom, hin]
  cases h2 : φ .groupExit <;> cases h3 : φ .dispExit <;> cases h4 : φ .metricsExit <;> (try cases ‹Exc›) <;> (try cases ‹Exc›) <;>
    simp [Exc.isException]

theorem g_enter_rollback_reason (φ : Faults) (body : Option Exc) (scramble : Ctx → Ctx) (m : M) (e : Exc)
    (hin : φ .dispEnter = some e) :
    (block gAenter gAexit φ body scramble m).1.groupSaw = some (some e) := by
  unfold block gAenter
  simp only [run, runAtom, hin]
  cases e <;> cases h2 : φ .groupExit <;> cases h4 : φ .metricsExit <;> simp [Exc.isException]

theorem g_restored_sync (φ : Faults) (body : Option Exc) (scramble : Ctx → Ctx) (m : M)
    (hg : ∀ c, (scramble c).group = c.group) :
    (block gSenter gSexit φ body scramble m).1.ctx = m.ctx := by
  unfold block gSenter gSexit
  cases h4 : φ .metricsExit <;> simp [run, runAtom, hg, h4]

theorem g_same_exception_sync (φ : Faults) (body : Option Exc) (scramble : Ctx → Ctx) (m : M)
    (h : φ .metricsExit = none) :
    (block gSenter gSexit φ body scramble m).2 = body := by
  unfold block gSenter gSexit
  simp [run, runAtom, h]

end Haiway.Generated
#print axioms Haiway.Generated.g_restored
#print axioms Haiway.Generated.g_same_exception
#print axioms Haiway.Generated.g_cleanup_all_run
#print axioms Haiway.Generated.g_failed_enter_rolls_back
#print axioms Haiway.Generated.g_exit_reason
#print axioms Haiway.Generated.g_enter_rollback_reason
#print axioms Haiway.Generated.g_restored_sync
#print axioms Haiway.Generated.g_same_exception_sync
"""


def check(repo: Path, lean_dir: Path) -> dict:
    """-> {status: ok|broken|unrecognised, terms, failed: [obligation names], detail}"""
    import os
    import re

    try:
        terms = extract(repo / "src" / "haiway" / "context" / "access.py")
    except (Unrecognised, OSError, SyntaxError) as exc:
        return {"status": "unrecognised", "detail": str(exc), "terms": {}, "failed": []}
    tmp = lean_dir / ".lake" / "generated"
    tmp.mkdir(parents=True, exist_ok=True)
    f = tmp / f"ScopeProcs_{os.getpid()}.lean"
    f.write_text(lean_source(terms))
    try:
        r = subprocess.run(["lake", "env", "lean", str(f)], cwd=lean_dir, capture_output=True, text=True, timeout=600)
    finally:
        f.unlink(missing_ok=True)
    out = r.stdout + r.stderr
    failed = []
    lines = lean_source(terms).splitlines()
    for m in re.finditer(r":(\d+):\d+: error", out):
        ln = int(m.group(1))
        # attribute the error to the enclosing theorem
        name = None
        for i in range(ln - 1, -1, -1):
            mm = re.match(r"theorem (\w+)", lines[i]) if i < len(lines) else None
            if mm:
                name = mm.group(1)
                break
        if name and name not in failed:
            failed.append(name)
    bad_axioms = [a for a in re.findall(r"depends on axioms: \[([^\]]*)\]", out.replace("\n", " "))
                  if not set(x.strip() for x in a.split(",") if x.strip()) <= {"propext", "Classical.choice", "Quot.sound"}]
    if r.returncode != 0 and not failed:
        failed = ["<elaboration>"]
    status = "ok" if r.returncode == 0 and not failed and not bad_axioms else "broken"
    return {"status": status, "terms": terms, "failed": failed, "detail": out[-1500:] if status != "ok" else ""}
