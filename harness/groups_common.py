"""Shared by C06 (spawned tasks never outlive their scope) and C07 (cancellation is never swallowed; the
cancellation check reports it): scope programs of `harness/scopeprog.py` (no disposables) run on the real haiway,
the observed event log projected onto the labels of the Lean LTS `Haiway.Groups` (`hwmodel groups` replays it),
and the two property monitors evaluated on the implementation's own log.

Observation = scopeprog's event log followed by one `Z|t|<state>` token per asyncio Task created by the program
(`ok`, `Cancelled`, exception class name, `pending`) read from the Task objects when the run is over.
"""
from __future__ import annotations

import json

from harness import scopeprog as sp

LEAN_COMPONENT = "groups"
ANCHORS = ["src/haiway/context/tasks.py", "src/haiway/context/access.py (ScopeContext.__aexit__, ctx.spawn, "
           "ctx.check_cancellation, ctx.cancel)"]
TRUSTED = ["CPython 3.12.1 asyncio.TaskGroup, Task.cancel/uncancel/cancelling and done-callback scheduling as modelled in "
           "Haiway/Model/Groups.lean (read from the CPython sources; exercised only through the correspondence runs)",
           "harness/scopeprog.py runner + harness/groups_common.py projection and monitors",
           "the replay search of Driver/Groups.lean (places the three silent labels between observed events)"]
ASSUMPTIONS = ["disposables enter only through their effect on the task group (a failing enter; the exit reason handed to the "
               "group after the cleanup); at most one raising enter / exit script per block (exception groups are C08)",
               "user code = the statement kinds of scopeprog: gates, raise, try/catch-all, spawn/create_task, "
               "check_cancellation, ctx.cancel; external actions happen only when the loop is quiescent",
               "a scope entered by a task created with plain create_task after the scope it was created in has "
               "completed is outside these checks (metrics bookkeeping, C09)"]

OUT = {"ok": "ok", "Boom": "e", "BaseBoom": "b", "Cancelled": "c"}
EXC = ("Boom", "BaseBoom")
# LAST - j (mod any number of options <= 12) picks the j-th option from the end = cancel of the j-th highest live task
LAST = 27720 - 1


# ------------------------------------------------------------------------------------------------
# running

def run_real(case: str) -> str:
    spec = json.loads(case)
    r = sp.Run()
    try:
        r.run(spec["prog"], spec.get("sched", []))
        finals = []
        for t, tk in sorted(r.tasks.items()):
            if not tk.done():
                f = "pending"
            elif tk.cancelled():
                f = "Cancelled"
            else:
                f = sp.out_name(tk.exception())
            finals.append(f"Z|{t}|{f}")
        return " ".join(r.log + finals)
    finally:
        r.close()


def events(out: str):
    return [tok.split("|") for tok in out.split()]


def ok_observation(out: str) -> bool:
    return bool(out) and not out.startswith("HANG") and "Z|0|" in out


# ------------------------------------------------------------------------------------------------
# projection onto the labels of Haiway.Groups

def blocks_of_disp(blocks) -> dict[int, int]:
    """disposable id -> the block it belongs to"""
    return {d[0]: b for b, st in blocks.items() for d in st[4]}


def model_input(case: str, out: str) -> str:
    if not ok_observation(out):
        return "unobserved." + out[:20].replace(" ", "_")
    blocks, _ = sp.index_program(json.loads(case)["prog"])
    toks = []
    entered = set()
    evs = events(out)
    # index of the event after which the disposables cleanup of a scope is over (all started `dex` have their `dexed`)
    done_after: dict[int, tuple[str, str]] = {}
    for i, e in enumerate(evs):
        if e[0] not in ("X", "Z") and e[1] == "bodyend" and blocks[int(e[2])][1] == "async" and blocks[int(e[2])][4]:
            started = finished = 0
            last = i
            for j in range(i + 1, len(evs)):
                x = evs[j]
                if x[0] != e[0]:
                    continue
                if x[1] == "left" and x[2] == e[2]:
                    break
                if x[1] == "dex":
                    started += 1
                elif x[1] == "dexed":
                    finished += 1
                    last = j
            if started == finished:
                done_after[last] = (e[0], e[2])
    for idx, e in enumerate(evs):
        who, k = e[0], e[1]
        if who == "X":
            toks.append(f"{'rel' if k == 'rel' else 'cancel'}.{e[2]}")
        elif who == "Z":
            toks.append(f"fin.{e[1]}.{'pending' if e[2] == 'pending' else OUT.get(e[2], '?' + e[2])}")
        elif k == "start":
            toks.append(f"start.{who}")
        elif k == "end":
            toks.append(f"end.{who}.{OUT.get(e[2], '?' + e[2])}")
        elif k in ("pre", "post", "probe", "repre", "repost"):
            grp = e[3].split("/")[2]
            if grp == "-" or grp.isdigit():
                toks.append(f"seen.{who}.{grp}")
        elif k == "enter":
            entered.add(e[2])
            kind = blocks[int(e[2])][1]
            toks.append(f"enter.{who}.{e[2]}.{'A' if kind == 'async' else 'S'}")
        elif k == "bodyend":
            blk = blocks[int(e[2])]
            if blk[1] == "async":
                if blk[4]:   # disposables: the group exit begins after their cleanup, with a reason the log does not show
                    toks.append(f"cleanup.{who}.{e[2]}")
                else:
                    toks.append(f"bodyend.{who}.{e[2]}.{OUT.get(e[3], '?' + e[3])}")
        elif k == "left":
            if e[2] not in entered:   # `__aenter__` raised: modelled only as delivery of a pending cancellation
                o = OUT.get(e[3], '?' + e[3])
                # the rollback of an enter interrupted by a cancellation (its `__aexit__` calls received the CancelledError)
                # during which a disposable's cleanup raised: the cancellation was delivered, then user code replaced it
                rolled_back_cancel = any(x[0] == who and x[1] == "dex" and x[3] == "Cancelled"
                                         and blocks_of_disp(blocks).get(int(x[2])) == int(e[2]) for x in evs[:idx])
                if o in ("e", "b") and rolled_back_cancel:
                    toks.append(f"enterfail.{who}.{e[2]}.c")
                    toks.append(f"raise.{who}.{o}")
                else:
                    toks.append(f"enterfail.{who}.{e[2]}.{o}")
            else:
                toks.append(f"left.{who}.{e[2]}.{OUT.get(e[3], '?' + e[3])}.{e[5]}")
        elif k == "await":
            toks.append(f"await.{who}.{e[2]}")
        elif k == "resume":
            toks.append(f"resume.{who}.{e[2]}.{'ok' if e[3] == 'ok' else 'c'}")
        elif k == "raise":
            toks.append(f"raise.{who}.{'e' if e[2] == 'exc' else 'b'}")
        elif k == "caught":
            toks.append(f"caught.{who}.{OUT.get(e[2], '?' + e[2])}")
        elif k in ("tryok", "hang", "den", "dened", "dex", "dexed", "dprobe", "reentered", "refail", "yraise", "spawnerr", "dexcall"):
            pass    # disposables themselves are C02/C08; here only their effect on the group (enterfail / cleanup)
        elif k == "spawn":
            toks.append(f"spawn.{who}.{e[2]}.{'s' if e[3] in ('spawn', 'factory') else 'c'}")
        elif k == "spawnfail":
            toks.append(f"spawnfail.{who}.{e[2]}")
        elif k == "check":
            toks.append(f"check.{who}.{e[2]}")
        elif k == "cancelself":
            toks.append(f"cancelself.{who}")
        else:
            toks.append(f"?{k}")
        if idx in done_after:
            toks.append("cleanupdone.%s.%s" % done_after[idx])
    return " ".join(toks)


def agree(case: str, model_out: str, real_out: str) -> bool:
    if foreign_defect(real_out):
        return True
    return model_out.startswith("ok")


def foreign_defect(out: str) -> bool:
    """metrics bookkeeping (C09) asserting when a scope is entered under a parent scope that already completed:
    not a behaviour of the task-group code; such runs are outside C06/C07 (see ASSUMPTIONS)."""
    return "AssertionError" in out


# ------------------------------------------------------------------------------------------------
# the log as a structure (shared by both monitors) – built from the events only, never from the Lean model

class View:
    def __init__(self, case: str, out: str):
        self.ev = events(out)
        self.blocks, _ = sp.index_program(json.loads(case)["prog"])
        ev = self.ev
        self.final = {int(e[1]): e[2] for e in ev if e[0] == "Z"}
        self.stack: dict[int, list[int]] = {0: []}      # entered async blocks per task (innermost last), evolving
        self.inherit: dict[int, int | None] = {0: None}
        self.member_of: dict[int, int | None] = {0: None}
        self.members: dict[int, list[int]] = {}
        self.spawn_pos: dict[int, int] = {0: -1}
        self.owner: dict[int, int] = {}
        self.visible_at: dict[int, int | None] = {}      # event index of a spawn -> group visible to the spawner
        self.stack_at: dict[int, list[int]] = {}         # event index -> async blocks the acting task is inside
        for i, e in enumerate(ev):
            if e[0] in ("X", "Z"):
                continue
            t = int(e[0])
            st = self.stack.setdefault(t, [])
            k = e[1]
            if k == "enter" and self.is_async(int(e[2])):
                st.append(int(e[2]))
                self.owner[int(e[2])] = t
            elif k == "left" and self.is_async(int(e[2])) and st and st[-1] == int(e[2]):
                self.stack_at[i] = list(st)
                st.pop()
            elif k in ("spawn", "spawnfail"):
                vis = st[-1] if st else self.inherit.get(t)
                self.visible_at[i] = vis
                if k == "spawn":
                    c = int(e[2])
                    self.inherit[c] = vis
                    self.spawn_pos[c] = i
                    self.stack.setdefault(c, [])
                    if e[3] in ("spawn", "factory") and vis is not None:
                        self.member_of[c] = vis
                        self.members.setdefault(vis, []).append(c)
                    else:
                        self.member_of[c] = None
            self.stack_at.setdefault(i, list(st))

    def is_async(self, b: int) -> bool:
        return self.blocks[b][1] == "async"

    def has_disp(self, b: int) -> bool:
        return bool(self.blocks[b][4])

    def exit_info(self, i: int):
        """for the `bodyend` event of an async block at index i: (block, index at which the group exit begins = after the
        disposables cleanup, whether the exit reason handed to the group is a failure/cancellation, cleanup complete?)"""
        e = self.ev[i]
        t, b = e[0], int(e[2])
        if not self.has_disp(b):
            return b, i, e[3] != "ok", True
        started = finished = 0
        last = i
        bad = e[3] != "ok"
        for j in range(i + 1, len(self.ev)):
            x = self.ev[j]
            if x[0] != t:
                continue
            if x[1] == "left" and x[2] == e[2]:
                break
            if x[1] == "dex":
                started += 1
            elif x[1] == "dexed":
                finished += 1
                last = j
                if x[3] != "ok":
                    bad = True
        if started == 0 and len(e) > 4 and e[4] == "1":
            bad = True     # a cancellation pending at the end of the body is delivered when the cleanup is awaited
        return b, last, bad, started == finished

    def phase(self, t: int, pos: int):
        """where task t is at event index pos: ("enter", b) inside the disposables enter of async block b, ("cleanup", b, i)
        while the disposables cleanup is awaited (i = index of the bodyend), ("exit", b, i) in the group exit, else None"""
        started = finished = 0
        for j in range(pos - 1, -1, -1):
            x = self.ev[j]
            if x[0] != str(t):
                continue
            k = x[1]
            if k == "dex":
                started += 1
            elif k == "dexed":
                finished += 1
            elif k == "bodyend" and self.is_async(int(x[2])):
                return ("cleanup" if started > finished else "exit", int(x[2]), j)
            elif k == "pre" and self.is_async(int(x[2])) and self.has_disp(int(x[2])):
                return ("enter", int(x[2]))
            elif k in ("den", "dened"):
                continue
            else:
                return None
        return None

    def task_events(self, t: int, lo: int = 0, hi: int | None = None):
        hi = len(self.ev) if hi is None else hi
        return [(i, self.ev[i]) for i in range(lo, hi) if self.ev[i][0] == str(t)]

    def last_event(self, t: int, before: int):
        for i in range(before - 1, -1, -1):
            if self.ev[i][0] == str(t):
                return i, self.ev[i]
        return None

    def ended_before(self, t: int, pos: int) -> bool:
        return any(e[1] == "end" for _i, e in self.task_events(t, 0, pos))

    def started_before(self, t: int, pos: int) -> bool:
        return any(e[1] == "start" for _i, e in self.task_events(t, 0, pos))

    def cancelled_resume_before(self, t: int, pos: int) -> bool:
        # a CancelledError was delivered to t before: at a gate of its own code, or while it waited inside a disposable's
        # __aenter__/__aexit__ (then the log shows the disposable / the block / a handler ending `Cancelled`)
        return any((e[1] == "resume" and e[3] == "cancelled")
                   or (e[1] in ("dened", "dexed") and e[3] == "Cancelled")
                   or (e[1] == "left" and e[3] == "Cancelled")
                   or (e[1] == "caught" and e[2] == "Cancelled")
                   for _i, e in self.task_events(t, 0, pos))

    def reaped_before(self, t: int, pos: int) -> bool:
        """the task ended and the loop has been quiescent since (so its done-callbacks have certainly run)"""
        ends = [i for i, e in self.task_events(t, 0, pos) if e[1] == "end"]
        return bool(ends) and any(self.ev[j][0] == "X" for j in range(ends[0], pos))

    def pending_members(self, b: int, pos: int) -> list[int]:
        """members of block b's group that exist and whose coroutine has not ended before event index pos"""
        return [m for m in self.members.get(b, []) if self.spawn_pos[m] < pos and not self.ended_before(m, pos)]


def _cancel_evidence(e) -> bool:
    """the event shows a CancelledError delivered to its task"""
    return ((e[1] == "resume" and e[3] == "cancelled") or (e[1] in ("dened", "dexed") and e[3] == "Cancelled")
            or (e[1] == "left" and e[3] == "Cancelled") or (e[1] == "caught" and e[2] == "Cancelled"))


def members_not_cancelled(v: View, b: int, pos: int, abort_later: bool = False) -> list[int]:
    """Members of b's group, pending at event index pos (the moment the group aborts), that are demonstrably *awaited
    instead of cancelled*: blocked on a gate, never cancelled before, and resumed normally afterwards; or not started
    yet and started afterwards.  (A member that had already been cancelled once and caught it is user code's business.)
    With `abort_later` the abort happens at the owner's next step after pos (a self-requested cancellation delivered when
    the exit suspends): members may still take their first step up to their first gate before it."""
    bad = []
    for m in v.pending_members(b, pos):
        if v.cancelled_resume_before(m, pos):
            continue
        if not v.started_before(m, pos):
            if abort_later:
                # the member's events from its first step to its first resumption at a gate: a cancellation delivered
                # earlier on (inside an `__aenter__`/`__aexit__` it awaited, or caught by its own code) counts
                for _i, e in v.task_events(m, pos):
                    if _cancel_evidence(e):
                        break
                    if e[1] == "resume":
                        if e[3] == "ok":
                            bad.append(m)
                        break
            elif any(e[1] == "start" for _i, e in v.task_events(m, pos)):
                bad.append(m)
            continue
        last = v.last_event(m, pos)
        if last is None or last[1][1] != "await":
            continue
        nxt = v.task_events(m, pos)
        if nxt and nxt[0][1][1] == "resume" and nxt[0][1][3] == "ok":
            bad.append(m)
    return bad


def members_awaited_after_failure(v: View, i: int) -> list[int]:
    """`bodyend` of an async block at index i: if the exit reason handed to the group – the body's outcome, or what the
    disposables cleanup replaced it by (a disposable raising; a cancellation delivered while the cleanup is awaited) – is a
    failure or a cancellation, the members still pending when the group exit begins must be cancelled, not awaited."""
    b, at, bad, complete = v.exit_info(i)
    if not bad or not complete:
        return []
    if v.has_disp(b):
        return members_not_cancelled(v, b, at + 1, abort_later=True)
    return members_not_cancelled(v, b, i)


# ------------------------------------------------------------------------------------------------
# C06 monitor

def monitor_c06(case: str, out: str) -> list[str]:
    if not ok_observation(out):
        return ["groups.no-observation:" + out[:24].replace(" ", "_")]
    if foreign_defect(out):
        return []
    v = View(case, out)
    fails = set()
    for i, e in enumerate(v.ev):
        if e[0] in ("X", "Z"):
            continue
        t = int(e[0])
        k = e[1]
        if k == "left" and v.is_async(int(e[2])):
            alive = set() if e[5] == "-" else {int(x) for x in e[5].split("+")}
            if alive & set(v.members.get(int(e[2]), [])):
                fails.add("groups.member-outlives-scope")
        elif k == "bodyend" and v.is_async(int(e[2])):
            if members_awaited_after_failure(v, i):
                fails.add("groups.members-awaited-after-body-failure" if e[3] != "ok"
                          else "groups.members-awaited-after-cleanup-failure")
        elif k == "spawnfail" and v.visible_at.get(i) is None:
            fails.add("spawn.refused-outside-any-scope")
        elif k == "spawnfail":
            # inside the body of an own, open scope none of whose members has failed the group accepts new tasks
            b = v.visible_at[i]
            if v.stack_at.get(i) and v.stack_at[i][-1] == b and not group_member_failed(v, b, i):
                fails.add("spawn.refused-in-open-scope")
        elif k == "spawn" and e[3] in ("spawn", "factory") and v.visible_at.get(i) is None:
            c = int(e[2])
            evs = v.task_events(c)
            if not any(x[1] == "start" for _j, x in evs):
                fails.add("spawn.detached-not-running")
            # a detached task is cancelled only by explicit requests on itself
            credit = 0
            for j in range(i, len(v.ev)):
                x = v.ev[j]
                if (x[0] == "X" and x[1] == "cancel" and x[2] == str(c)) or (x[0] == str(c) and x[1] == "cancelself"):
                    credit += 1
                elif x[0] == str(c) and x[1] == "resume" and x[3] == "cancelled":
                    if credit == 0 and not owns_failed_member(v, c, j):
                        fails.add("spawn.detached-cancelled-with-spawner")
                    credit = 0
    # leaving always terminates: a task stuck in a group exit although nobody waits on an unreleased gate
    hang = [int(e[0]) for e in v.ev if len(e) > 1 and e[1] == "hang"]
    if hang:
        lasts = {t: v.last_event(t, len(v.ev) - len(v.final) - len(hang)) for t in hang}
        at_gate = [t for t, l in lasts.items() if l and l[1][1] == "await"]
        in_exit = [t for t, l in lasts.items() if l and l[1][1] == "bodyend"]
        unstarted = [t for t, l in lasts.items() if l is None]
        if in_exit and not at_gate and not unstarted:
            fails.add("groups.exit-hangs")
    return sorted(fails)


def group_member_failed(v: View, b: int, pos: int) -> bool:
    return any(e[1] == "end" and e[2] not in ("ok", "Cancelled")
               for m in v.members.get(b, []) for _i, e in v.task_events(m, 0, pos))


def owns_failed_member(v: View, t: int, pos: int) -> bool:
    """a member of a group owned by t ended with an error before pos (TaskGroup then cancels its parent itself)"""
    for b, o in v.owner.items():
        if o == t:
            for m in v.members.get(b, []):
                if any(e[1] == "end" and e[2] not in ("ok", "Cancelled") for _i, e in v.task_events(m, 0, pos)):
                    return True
    return False


# ------------------------------------------------------------------------------------------------
# C07 monitor

def cancel_requests(v: View):
    """(event index, task) of every cancellation request reaching a live, started task"""
    for i, e in enumerate(v.ev):
        if e[0] == "X" and e[1] == "cancel":
            t = int(e[2])
            if v.started_before(t, i) and not v.ended_before(t, i):
                yield i, t
        elif e[0] not in ("X", "Z") and e[1] == "cancelself":
            yield i, int(e[0])


def excused(v: View, t: int, pos: int) -> bool:
    """user code of t catches the cancellation, or replaces it by raising, after the request"""
    for _i, e in v.task_events(t, pos + 1):
        if e[1] == "caught" and e[2] == "Cancelled":
            return True
        if e[1] == "raise":
            return True
        if e[1] in ("dened", "dexed") and e[3] not in ("ok", "Cancelled"):
            return True     # a disposable of t raising while the scope is entered / cleaned up
    return False


def exit_reason(v: View, i: int) -> str:
    """the exit reason the group is handed for the `bodyend` at index i, as far as the log shows it"""
    e = v.ev[i]
    if not v.has_disp(int(e[2])):
        return e[3]
    outs = []
    for j in range(i + 1, len(v.ev)):
        x = v.ev[j]
        if x[0] == e[0] and x[1] == "left" and x[2] == e[2]:
            break
        if x[0] == e[0] and x[1] == "dexed" and x[3] != "ok":
            outs.append(x[3])
    if "Cancelled" in outs or (len(e) > 4 and e[4] == "1"):
        return "Cancelled"
    return outs[0] if outs else e[3]


def delivery_point(v: View, t: int, pos: int):
    """where the request of event index pos reaches t:
    ("exit", b, exit reason of b, index of its bodyend) – while t waits in the group exit of async block b;
    ("cleanup", b, index of the bodyend) – while the disposables cleanup of b is awaited;
    ("enter", b) – while the disposables of b are entered;  ("gate",) – at a gate;
    None – t ends before any suspension ("cancelled right before the coroutine stops")."""
    if v.ev[pos][0] == "X":
        ph = v.phase(t, pos)
        if ph is None:
            return ("gate",)
        if ph[0] == "exit":
            return ("exit", ph[1], exit_reason(v, ph[2]), ph[2])
        return ph
    for i, e in v.task_events(t, pos + 1):
        if e[1] == "resume":
            return ("gate",)
        if e[1] == "pre" and v.is_async(int(e[2])) and v.has_disp(int(e[2])):
            return ("enter", int(e[2]))
        if e[1] == "bodyend" and v.is_async(int(e[2])):
            b = int(e[2])
            if v.has_disp(b):
                return ("cleanup", b, i)
            # the exit suspends iff members are still registered (pending, or ended during this very step burst)
            if any(v.spawn_pos[m] < i and not v.reaped_before(m, i) for m in v.members.get(b, [])):
                return ("exit", b, e[3], i)
    return None


def monitor_c07(case: str, out: str) -> list[str]:
    if not ok_observation(out):
        return ["groups.no-observation:" + out[:24].replace(" ", "_")]
    if foreign_defect(out):
        return []
    v = View(case, out)
    fails = set()
    for pos, t in cancel_requests(v):
        if excused(v, t, pos):
            continue
        where = delivery_point(v, t, pos)
        kind = where[0] if where else None
        in_exit = (where[1], where[2], where[3]) if kind == "exit" else None
        if v.final.get(t) != "Cancelled":
            if kind == "cleanup":
                fails.add("groups.cancel-lost.disposables-cleanup")
            elif in_exit is None:
                fails.add("groups.cancel-lost.outside-exit-wait")
            else:
                b, body_out, _at = in_exit
                errs = [i for m in v.members.get(b, []) for i, e in v.task_events(m)
                        if e[1] == "end" and e[2] not in ("ok", "Cancelled")]
                if body_out in EXC:
                    fails.add("groups.cancel-absorbed.aborting-after-body-exception")
                elif body_out == "ok" and errs and min(errs) > pos:
                    fails.add("groups.cancel-absorbed.member-error-while-cancelled")
                elif body_out == "ok" and errs:
                    fails.add("groups.cancel-absorbed.aborting-after-member-error")
                else:
                    fails.add("groups.cancel-swallowed.exit-wait")
        # the tasks it spawned in those scopes are cancelled too
        if in_exit is not None and members_not_cancelled(v, in_exit[0], max(pos, in_exit[2]) + 1, v.ev[pos][0] != "X"):
            fails.add("groups.members-not-cancelled.exit-wait")
        if kind == "cleanup":
            # the cancellation becomes the scope's exit reason: when the cleanup is over the group must abort
            b, at, _bad, complete = v.exit_info(where[2])
            if complete and members_not_cancelled(v, b, max(pos, at) + 1, abort_later=True):
                fails.add("groups.members-not-cancelled.cleanup")
        for i, e in v.task_events(t, pos + 1):
            if e[1] == "bodyend" and v.is_async(int(e[2])) and members_awaited_after_failure(v, i):
                fails.add("groups.members-not-cancelled.body")
    # the cancellation check
    for i, e in enumerate(v.ev):
        if e[0] in ("X", "Z") or e[1] != "check":
            continue
        t = int(e[0])
        raised, asked = e[2] == "1", e[3] == "1"
        if asked and not raised:
            fails.add("check.silent-after-cancel-request")
        if raised and not asked and v.member_of.get(t) is None and not owns_failed_member(v, t, i):
            fails.add("check.raises-without-any-cancel-request")
    return sorted(fails)


# ------------------------------------------------------------------------------------------------
# generation helpers

def no_disposables(case: str) -> bool:
    blocks, _ = sp.index_program(json.loads(case)["prog"])
    return all(not b[4] for b in blocks.values())


def modelled_disposables(case: str) -> bool:
    """at most one raising enter script and one raising exit script per block (several failures come out of
    `Disposables` as an exception group, which is C08's subject and not an outcome of this model)"""
    blocks, _ = sp.index_program(json.loads(case)["prog"])
    if any(i < 0 for b in blocks.values() for d in b[4] for i, _tag in d[3]):
        return False   # a yielded iterable raising part-way: a failed enter after every disposable entered (C08 / C02)
    return all(sum(d[1] == "raise" for d in b[4]) <= 1 and sum(d[2] == "raise" for d in b[4]) <= 1 for b in blocks.values())


def gen(rng, depth=3, p_raise=0.07, p_cancel=0.3, p_disp=0.0) -> str:
    while True:
        c = sp.gen_case(rng, depth=depth, p_disp=p_disp, p_raise=p_raise, p_fault=0.5 if p_disp else 0.0, p_cancel=p_cancel)
        if modelled_disposables(c):
            return c


def sweep(case: str, steps: int = 7, width: int = 3):
    """the same program with one cancellation injected at schedule step k on the j-th highest live task (all other
    steps release the first pending gate; after the list is exhausted the remaining gates are released in order)"""
    prog = json.loads(case)["prog"]
    for k in range(steps):
        for j in range(width):
            yield json.dumps({"prog": prog, "sched": [0] * k + [LAST - j]}, separators=(",", ":"))


def pairs(case: str, steps: int = 5, width: int = 2):
    prog = json.loads(case)["prog"]
    for k in range(steps):
        for k2 in range(0, 3):
            for j in range(width):
                for j2 in range(width):
                    yield json.dumps({"prog": prog, "sched": [0] * k + [LAST - j] + [0] * k2 + [LAST - j2]},
                                     separators=(",", ":"))


def _a(b, body, disps=None):
    return ["block", "async", b, [], disps or [], body]


_SLOW = [["try", [["await", 1]]], ["await", 2]]          # a member that swallows one cancellation and waits again
DIRECTED = [
    # member pending at a normal body end; cancellation while the exit waits (swallowed on the pinned tree)
    [_a(1, [["spawn", 1, "spawn", [["await", 1]]]]), ["probe", 1], ["await", 9]],
    # body raises while a member is slow to die; cancellation arriving during that wait (CPython absorbs it)
    [_a(1, [["spawn", 1, "spawn", _SLOW], ["await", 3], ["raise", "exc"]]), ["probe", 1], ["await", 9]],
    # member raising an ordinary error while being cancelled
    [_a(1, [["spawn", 1, "spawn", [["awaitx", 1]]]]), ["await", 9]],
    # member failing while the exit waits / while the body runs; another member slow to die
    [_a(1, [["spawn", 1, "spawn", _SLOW], ["spawn", 2, "spawn", [["await", 3], ["raise", "exc"]]]]), ["await", 9]],
    [_a(1, [["spawn", 1, "spawn", _SLOW], ["spawn", 2, "spawn", [["await", 3], ["raise", "base"]]],
            ["try", [["await", 4]]]]), ["check"], ["await", 9]],
    # spawns from nested sync scope / update, transitively from members, nested async scopes
    [_a(1, [["block", "sync", 2, [], [], [["spawn", 1, "spawn", [["await", 1], ["spawn", 3, "spawn", [["await", 4]]]]]]],
            ["block", "upd", 4, [], [], [["spawn", 4, "spawn", [["await", 5]]]]],
            _a(3, [["spawn", 2, "spawn", [["await", 2]]], ["await", 3]])]), ["check"]],
    # plain create_task inside a scope: not a member, inherits the group, outlives the scope, later spawn is refused
    [_a(1, [["spawn", 1, "create", [["spawn", 2, "spawn", [["await", 1]]], ["await", 2], ["spawn", 3, "spawn", [["probe", 1]]],
                                    _a(2, [["spawn", 4, "spawn", [["await", 3]]]])]]]), ["await", 9]],
    # outside any scope: detached; the spawner failing must not touch it
    [["spawn", 1, "spawn", [["await", 1], _a(1, [["spawn", 2, "spawn", [["await", 2]]]])]], ["await", 3], ["raise", "exc"]],
    # ctx.cancel() on oneself: before the exit, with and without members; the check before/after
    [["check"], _a(1, [["spawn", 1, "spawn", [["await", 1]]], ["cancelself"], ["check"]]), ["probe", 1]],
    [_a(1, [["spawn", 1, "spawn", [["await", 1]]], ["cancelself"]]), ["await", 9]],
    [_a(1, [["cancelself"]]), ["check"], ["await", 9]],
    # member failing: the group cancels the body; user code catching that; the check afterwards
    [["check"], _a(1, [["spawn", 1, "spawn", [["raise", "exc"]]], ["try", [["await", 1]]], ["check"], ["await", 2]]), ["check"]],
    # body cancelled from outside with blocked and not-yet-started members; member spawning while the group exits
    [_a(1, [["await", 1], ["spawn", 1, "spawn", [["await", 2]]], ["spawn", 2, "spawn", [["await", 3]]], ["raise", "base"]])],
    [_a(1, [["spawn", 1, "spawn", [["await", 1], ["spawn", 2, "spawn", [["await", 2]]], ["await", 3],
                                    ["spawn", 3, "spawn", [["probe", 1]]]]]]), ["await", 9]],
    # a member that swallows its cancellation and spawns again while the group shuts down (must be refused, not detached)
    [_a(1, [["spawn", 1, "spawn", [["try", [["await", 1]]], ["spawn", 2, "spawn", [["await", 2]]], ["await", 3]]],
            ["await", 4], ["raise", "exc"]]), ["await", 9]],
    # a scope left through a genuine cancellation that user code recovers from: the next spawn is detached (outside any
    # scope) / joins the enclosing scope's group – never refused
    [["try", [_a(1, [["spawn", 1, "spawn", [["await", 1]]], ["await", 2]])]], ["spawn", 2, "spawn", [["await", 3]]], ["await", 4]],
    [_a(5, [["try", [_a(1, [["spawn", 1, "spawn", [["await", 1]]], ["await", 2]])]], ["spawn", 2, "spawn", [["await", 3]]],
            ["await", 4]]), ["await", 9]],
    [_a(5, [["try", [_a(1, [["spawn", 1, "spawn", [["await", 1]]], ["cancelself"], ["await", 2]])]],
            ["spawn", 2, "spawn", [["await", 3]]], ["await", 4]])],
    # disposables: slow cleanup (gate) while a member is blocked and the body has returned – the cancellation of the
    # scope's task landing during the cleanup is the group's exit reason; cleanup raising; slow / failing enter
    [_a(1, [["spawn", 1, "spawn", [["await", 1]]]], [[1, "ok", ["wait", 5], []]]), ["await", 9]],
    [_a(1, [["spawn", 1, "spawn", [["await", 1]]], ["await", 2]], [[1, "ok", ["wait", 5], []], [2, "ok", "ok", []]]), ["await", 9]],
    [_a(1, [["spawn", 1, "spawn", [["await", 1]]], ["spawn", 2, "spawn", [["try", [["await", 2]]], ["await", 3]]]],
        [[1, "ok", "raise", []], [2, "ok", ["wait", 5], []]]), ["await", 9]],
    [_a(1, [["spawn", 1, "spawn", [["await", 1]]], ["cancelself"]], [[1, "ok", ["wait", 5], []]]), ["await", 9]],
    [["try", [_a(1, [["spawn", 1, "spawn", [["await", 1]]]], [[1, ["wait", 5], "ok", []], [2, "ok", ["wait", 6], []]])]],
     ["spawn", 2, "spawn", [["await", 3]]], ["await", 9]],
    [_a(2, [["try", [_a(1, [["spawn", 1, "spawn", [["await", 1]]]], [[1, "raise", "ok", []], [2, ["wait", 5], "ok", []]])]],
            ["spawn", 2, "spawn", [["await", 3]]]]), ["await", 9]],
    # two nested async scopes, members in both, cancellation in the inner exit wait
    [_a(1, [["spawn", 1, "spawn", [["await", 5]]], _a(2, [["spawn", 2, "spawn", _SLOW]]), ["await", 4]]), ["await", 9]],
    # a member that is cancelled while it waits inside a disposable's cleanup, catches that, and goes on; a second request on
    # the owner then does not re-cancel it (TaskGroup aborts once) – user code's business, not a lost cancellation
    # (false alarm of the first monitor, which only recognised cancellations delivered at a gate of the member's own code)
    [_a(12, [["spawn", 1, "spawn", [_a(2, [], [[1, ["wait", 1], "ok", []]])]],
             ["spawn", 2, "spawn", [["try", [_a(8, [], [[5, "ok", ["wait", 5], []]])]], ["await", 7]]]])],
    # a disposable whose `__aexit__` returns True (asks to suppress): no say in a scope – the body's failure / cancellation is
    # still the group's exit reason, the blocked member is cancelled, leaving terminates
    [_a(1, [["spawn", 1, "spawn", [["await", 1]]], ["raise", "exc"]], [[1, "ok", "swallow", []]]), ["await", 9]],
    [["try", [_a(1, [["spawn", 1, "spawn", [["await", 1]]], ["await", 2]], [[1, "ok", "swallow", []], [2, "ok", "ok", []]])]],
     ["await", 9]],
    # ctx.spawn of a callable that raises a LookupError of its own before it hands over the coroutine: the spawn fails, nothing
    # is started – in particular no detached task that would outlive the scope
    [_a(1, [["spawn", 1, "factory", [["await", 1]]], ["probe", 1]]), ["probe", 2], ["await", 9]],
    [_a(1, [["spawn", 1, "spawn", [["await", 1]]], ["spawn", 2, "factory", [["await", 2]]]]), ["await", 9]],
    # scope objects constructed ahead of their `async with` (`hold`): before the enclosing scope exists and entered inside
    # it – spawns in the enclosing body after the inner block still join the enclosing group; constructed inside a scope
    # that has ended and entered outside any scope – a spawn afterwards is detached, never refused
    [["hold", 2], _a(1, [["spawn", 1, "spawn", [["await", 1]]], _a(2, [["spawn", 2, "spawn", [["await", 2]]]]),
                         ["spawn", 3, "spawn", [["await", 3]]], ["probe", 1],
                         ["block", "upd", 3, [], [], [["spawn", 4, "spawn", [["await", 4]]]]]]), ["probe", 2], ["await", 9]],
    [_a(1, [["hold", 2], ["probe", 1]]), _a(2, [["spawn", 1, "spawn", [["await", 1]]]]), ["spawn", 2, "spawn", [["await", 2]]],
     ["probe", 2], ["await", 9]],
    [_a(1, [["hold", 3], _a(2, [["spawn", 1, "spawn", [["await", 1]]]]), _a(3, [["spawn", 2, "spawn", [["await", 2]]]]),
            ["spawn", 3, "spawn", [["await", 3]]], ["probe", 1]]), ["await", 9]],
]


def _gates(prog, acc):
    for st in prog:
        if st[0] in ("await", "awaitx"):
            acc.append(st[1])
        elif st[0] == "try":
            _gates(st[1], acc)
        elif st[0] == "spawn":
            _gates(st[3], acc)
        elif st[0] == "block":
            for d in st[4]:
                acc += [x[1] for x in d[1:3] if isinstance(x, list)]
            _gates(st[5], acc)
    return acc


for _p in DIRECTED:   # a gate is one future: two waiters on it would be cancelled together (harness artefact)
    _g = _gates(_p, [])
    assert len(_g) == len(set(_g)), _p


def directed(maxlen: int, width: int = 6):
    """every schedule of length <= maxlen over the first `width` options, for every directed program"""
    import itertools

    for prog in DIRECTED:
        for n in range(0, maxlen + 1):
            for sched in itertools.product(range(width), repeat=n):
                yield json.dumps({"prog": prog, "sched": list(sched)}, separators=(",", ":"))


def mutate(rng, case: str) -> str:
    spec = json.loads(case)
    sched = list(spec.get("sched", []))
    r = rng.random()
    if r < 0.4 and sched:
        sched[rng.randrange(len(sched))] = rng.choice([rng.randrange(0, 3), LAST - rng.randrange(0, 4)])
    elif r < 0.8:
        sched.insert(rng.randint(0, len(sched)), rng.choice([rng.randrange(0, 3), LAST - rng.randrange(0, 4)]))
    else:
        return gen(rng, p_raise=0.1)
    return json.dumps({"prog": spec["prog"], "sched": sched}, separators=(",", ":"))


def shrink(case: str):
    return sp.shrink(case)


def classify_common(case: str, out: str):
    if not ok_observation(out):
        yield "obs:none"
        return
    ev = events(out)
    ntasks = sum(1 for e in ev if e[0] == "Z")
    yield f"tasks:{ntasks}"
    kinds = set()
    for e in ev:
        if e[0] == "X":
            kinds.add("X:" + e[1])
        elif e[0] != "Z":
            if e[1] in ("spawn",):
                kinds.add("spawn:" + e[3])
            elif e[1] in ("spawnfail", "cancelself", "check", "caught", "raise", "hang"):
                kinds.add(e[1])
            elif e[1] == "resume" and e[3] == "cancelled":
                kinds.add("resume:cancelled")
            elif e[1] in ("bodyend", "left"):
                kinds.add(f"{e[1]}:{e[3] if e[3] in OUT else 'other'}")
    yield from sorted(kinds)
    for e in ev:
        if e[0] == "Z":
            yield "final:" + (e[2] if e[2] in OUT or e[2] == "pending" else "other")
