"""Local workaround used by comp_retry / comp_throttle (see their `setup()`).

`harness/vloop.py` replaces `time.monotonic` by a virtual clock that stands still in the parent
process.  `multiprocessing.connection.wait(..., timeout=0)` (used by `Queue.empty()` inside
`multiprocessing.pool`'s worker-handler thread) loops `while True: select(0); timeout = deadline -
time.monotonic(); if timeout < 0: return` – with a frozen clock `timeout` stays exactly 0 and the
thread spins forever, so `Pool.__exit__` never returns (thorough tier, 16 processes).  The pool
machinery gets a private `time` shim with the real clock; the library under test still sees the
virtual one.
"""
from __future__ import annotations

import types

from harness import vloop

_done = False


def use_real_clock_in_multiprocessing() -> None:
    global _done
    if _done:
        return
    import multiprocessing.connection as mpc
    import multiprocessing.pool as mpp

    shim = types.SimpleNamespace(monotonic=vloop.real_monotonic, sleep=vloop._REAL_SLEEP)
    for mod in (mpc, mpp):
        real = getattr(mod, "time", None)
        if real is not None:
            ns = types.SimpleNamespace(**{k: getattr(real, k) for k in dir(real) if not k.startswith("__")})
            ns.monotonic = shim.monotonic
            ns.sleep = shim.sleep
            mod.time = ns
    _done = True
