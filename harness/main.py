"""Entry point of every registered check: ./check <Cxx> [--tier quick|thorough] [--replay FILE]"""
from __future__ import annotations

import argparse
import importlib
import os
import sys
import traceback
from pathlib import Path

sys.path.insert(0, str(Path(__file__).resolve().parent.parent))

from harness import core  # noqa: E402

def discover() -> dict[str, str]:
    """property id -> component module (every harness/comp_*.py declares `PID = "Cxx"`)."""
    import re

    found = {}
    for f in sorted(Path(__file__).resolve().parent.glob("comp_*.py")):
        m = re.search(r'^PID\s*=\s*"(C\d+)"', f.read_text(), re.M)
        if m:
            found[m.group(1)] = f"harness.{f.stem}"
    return found


COMPONENTS = discover()


def main() -> int:
    ap = argparse.ArgumentParser()
    ap.add_argument("pid")
    ap.add_argument("--tier", default=os.environ.get("VERIF_TIER", "quick"), choices=["quick", "thorough"])
    ap.add_argument("--replay")
    a = ap.parse_args()
    seed = int(os.environ.get("VERIF_SEED", "0") or 0)
    if a.pid not in COMPONENTS:
        print(f"unknown property {a.pid}", file=sys.stderr)
        return 2
    try:
        comp = importlib.import_module(COMPONENTS[a.pid])
        return core.run_check(comp, a.tier, seed, a.replay)
    except core.Infra as exc:
        print(f"INFRASTRUCTURE ERROR ({a.pid}): {exc}", file=sys.stderr)
        return 2
    except Exception:  # noqa: BLE001
        traceback.print_exc()
        return 2


if __name__ == "__main__":
    sys.exit(main())
