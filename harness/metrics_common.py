"""Shared by C09 (completion), C10 (metrics), C19 (logs): the scope-event case language, its spec-level
replay (validity, lexical nesting, drain), and the runner that drives the real haiway through the public API.

A case is a space separated token list (one token = one atomic step of one task, followed by running the
virtual loop to quiescence):

  vm=<view merge>                                   header, used by C10 only
  churn=<n>                                         header (C19): before the events n short-lived outermost scopes are opened and
                                                    left one after another, nothing keeps them alive; their identifiers and
                                                    trace ids are collected (uniqueness over time, not only among live scopes)
  +<dt>                                             the clock advances by dt (integer seconds)
  <t>:o:<s|a>:<n|s|a>[:<name>:<logger>:<trace>]     task t: `with` / `async with` ctx.scope(...): construct + enter;
                                                    second field = completion callback none / sync / async
  <t>:m:<s|a>:<n|s|a>[:<name>:<logger>:<trace>]     held = ctx.scope(...)   (replaces a previously held object)
  <t>:n                                             enter the held scope object
  <t>:x   <t>:X                                     leave the innermost block normally / by a body exception
  <t>:r:<ty>:<merge>:<val>                          ctx.record(M<ty>(items=(val,)), merge=<merge>)
  <t>:l:<d|i|w|e>:<0|1>:<fmt>:<args>                ctx.log_<level>(fmt, *args, exception=... if 1); args all of the form
                                                    k<key>=<arg> = ONE mapping argument {key: arg, ...} (`%(key)s` formats)
  <t>:s   <t>:c                                     ctx.spawn(new task) / asyncio create_task(new task)
  <t>:e                                             task t returns
  <t>:k                                             task t is cancelled from outside (Task.cancel()) while it is suspended in a
                                                    body or blocked in a scope exit: CancelledError unwinds all its blocks
  <t>:G                                             the gate of the scope task t is entering opens (see kind g)
  <t>:T                                             task t tries ctx.scope(...) in a thread that has no event loop, in a copy of its
                                                    context (RuntimeError expected), and goes on
block kinds r / g (with `o` only) = async scope with a disposable whose __aenter__ raises / waits on a gate: the enter
fails (r; or g when the task is cancelled meanwhile) and is rolled back - the scope counts as left at once - or completes
when the gate opens (g + G).
block kind `d` = async scope with a disposable whose __aexit__ raises (unless the exit reason is a cancellation):
the caller catches the cleanup error and continues; the scope's ctx.spawn members are cancelled by the task group.
strings: `_` stands for a space, no `:` `,` or blank inside; args: comma separated i<nat> / s<chars>.
Tasks are numbered in creation order (0 = the initial task, started without any context), scopes in
construction order.  After the last token the clock advances by 5 (final phase).

`normalize` appends the *drain*: every live task, highest number first, leaves its open blocks and returns,
so every valid prefix of events is a complete program.
"""
from __future__ import annotations

import asyncio
import logging
import re
import sys
from dataclasses import dataclass, field

from harness import vloop


REC_MERGES = ["rep", "sum", "cat", "first", "boom"]
VIEW_MERGES = ["rep", "sum", "cat", "first", "skipnew"]
LEVELS = {"d": "DEBUG", "i": "INFO", "w": "WARNING", "e": "ERROR"}


def dec(s: str) -> str:
    return s.replace("_", " ")


def enc(s: str) -> str:
    return s.replace(" ", "_")


# ------------------------------------------------------------------------------------------------
# parsing

@dataclass
class Ev:
    kind: str                      # tick open make enter exit record log spawn end
    t: int = 0
    dt: int = 0
    is_async: bool = False
    disp: bool = False
    enter_mode: str = ""          # "" normal, "r" disposable raises in __aenter__, "g" waits on a gate
    cb: str = "n"
    name: str = "n"
    logger: int | None = None
    trace: str | None = None
    exc: bool = False
    ty: int = 0
    merge: str = "rep"
    val: int = 0
    level: str = "i"
    fmt: str = ""
    args: tuple = ()
    member: bool = False


_NAT = re.compile(r"^\d+$")


def _nat(s: str) -> int | None:
    return int(s) if _NAT.match(s) else None


def parse_args(s: str):
    if s == "":
        return ()
    out = []
    items = {}
    for a in s.split(","):
        if a.startswith("i") and _nat(a[1:]) is not None:
            out.append(int(a[1:]))
        elif a.startswith("s"):
            out.append(dec(a[1:]))
        elif a.startswith("k") and "=" in a:          # k<key>=i<nat> / k<key>=s<chars>: an item of the single mapping argument
            key, val = a[1:].split("=", 1)
            if val.startswith("i") and _nat(val[1:]) is not None:
                items[key] = int(val[1:])
            elif val.startswith("s"):
                items[key] = dec(val[1:])
            else:
                return None
        else:
            return None
    if items:
        return None if out else (items,)              # never a mixture
    return tuple(out)


def parse_tok(tok: str) -> Ev | None:
    if tok.startswith("+"):
        n = _nat(tok[1:])
        return None if n is None else Ev("tick", dt=n)
    f = tok.split(":")
    if len(f) < 2 or _nat(f[0]) is None:
        return None
    t, op, rest = int(f[0]), f[1], f[2:]
    if op in ("o", "m"):
        kinds = ("s", "a", "d", "r", "g") if op == "o" else ("s", "a", "d")
        if len(rest) not in (2, 5) or rest[0] not in kinds or rest[1] not in ("n", "s", "a"):
            return None
        ev = Ev("open" if op == "o" else "make", t=t, is_async=rest[0] != "s", disp=rest[0] == "d",
                enter_mode=rest[0] if rest[0] in ("r", "g") else "", cb=rest[1])
        if len(rest) == 5:
            ev.name = dec(rest[2])
            if rest[3] != "":
                if _nat(rest[3]) is None:
                    return None
                ev.logger = int(rest[3])
            ev.trace = dec(rest[4]) if rest[4] != "" else None
        return ev
    if op == "n" and not rest:
        return Ev("enter", t=t)
    if op in ("x", "X") and not rest:
        return Ev("exit", t=t, exc=op == "X")
    if op == "r" and len(rest) == 3:
        ty, v = _nat(rest[0]), _nat(rest[2])
        if ty is None or v is None or rest[1] not in REC_MERGES:
            return None
        return Ev("record", t=t, ty=ty, merge=rest[1], val=v)
    if op == "l" and len(rest) == 4:
        args = parse_args(rest[3])
        if rest[0] not in LEVELS or rest[1] not in ("0", "1") or args is None:
            return None
        if rest[0] == "i" and rest[1] == "1":
            return None
        return Ev("log", t=t, level=rest[0], exc=rest[1] == "1", fmt=dec(rest[2]), args=args)
    if op in ("s", "c") and not rest:
        return Ev("spawn", t=t, member=op == "s")
    if op == "e" and not rest:
        return Ev("end", t=t)
    if op == "k" and not rest:
        return Ev("cancel", t=t)
    if op == "G" and not rest:
        return Ev("release", t=t)
    if op == "T" and not rest:
        return Ev("thread", t=t)
    return None


def parse_case(case: str):
    """-> (view merge, [Ev], [token]) or None"""
    vm = "sum"
    evs, toks = [], []
    for tok in case.split():
        if tok.startswith("vm="):
            vm = tok[3:]
            if vm not in VIEW_MERGES:
                return None
            continue
        if tok.startswith("churn="):
            if _nat(tok[6:]) is None:
                return None
            continue
        ev = parse_tok(tok)
        if ev is None:
            return None
        evs.append(ev)
        toks.append(tok)
    return vm, evs, toks


# ------------------------------------------------------------------------------------------------
# spec-level replay: tasks with block stacks, lexical nesting, group membership (independent of the Lean model)

@dataclass
class SScope:
    sid: int
    lex: int | None               # the scope that was current where it was constructed
    is_async: bool
    disp: bool
    cb: str
    name: str
    logger: int | None
    trace: str | None
    task: int
    ev_made: int
    ev_entered: int | None = None
    ev_left: int | None = None
    exc: bool = False


@dataclass
class STask:
    inherited: int | None = None
    inh_group: int | None = None
    frames: list = field(default_factory=list)      # own entered scopes, outermost first
    pending: int | None = None
    alive: bool = True
    blocked: bool = False
    member_of: int | None = None
    entering: int | None = None


class Replay:
    """Replays events; `ok` turns False at the first event that is not enabled."""

    def __init__(self):
        self.tasks: list[STask] = [STask()]
        self.scopes: list[SScope] = []
        self.ok = True
        self.k = -1
        self.innermost_at: dict[int, int | None] = {}     # event index -> innermost scope of the acting task

    def cur(self, t: int) -> int | None:
        tk = self.tasks[t]
        return tk.frames[-1] if tk.frames else tk.inherited

    def group(self, t: int) -> int | None:
        tk = self.tasks[t]
        for sid in reversed(tk.frames):
            if self.scopes[sid].is_async:
                return sid
        return tk.inh_group

    def live_members(self, g: int) -> bool:
        return any(tk.alive and tk.member_of == g for tk in self.tasks)

    def can_act(self, t: int) -> bool:
        return t < len(self.tasks) and self.tasks[t].alive and not self.tasks[t].blocked

    def _construct(self, ev: Ev) -> int:
        sid = len(self.scopes)
        self.scopes.append(SScope(sid, self.cur(ev.t), ev.is_async, ev.disp, ev.cb, ev.name, ev.logger, ev.trace, ev.t, self.k))
        return sid

    def _enter(self, t: int, sid: int) -> None:
        self.scopes[sid].ev_entered = self.k
        self.tasks[t].frames.append(sid)

    def _finish_exit(self, t: int) -> None:
        sid = self.tasks[t].frames.pop()
        self.scopes[sid].ev_left = self.k
        self.tasks[t].blocked = False

    def _kill(self, t: int) -> None:
        """CancelledError unwinds task t: every block is left (an async block first cancels and joins its
        ctx.spawn members), the task ends"""
        tk = self.tasks[t]
        if tk.entering is not None:               # cancelled inside __aenter__: rolled back, the scope counts as left
            self.scopes[tk.entering].ev_entered = self.scopes[tk.entering].ev_left = self.k
            tk.entering = None
        while tk.frames:
            sid = tk.frames[-1]
            if self.scopes[sid].is_async:
                self._kill_members(sid)
            self._finish_exit(t)
        tk.alive = False
        tk.pending = None
        tk.blocked = False

    def _kill_members(self, g: int) -> None:
        for u, utk in enumerate(self.tasks):
            if utk.alive and utk.member_of == g:
                self._kill(u)

    def _release_owner(self, g: int | None) -> None:
        if g is not None and not self.live_members(g):
            for o, otk in enumerate(self.tasks):
                if otk.blocked and otk.entering is None and otk.frames and otk.frames[-1] == g:
                    self._finish_exit(o)
                    break

    def step(self, ev: Ev) -> bool:
        self.k += 1
        if not self.ok:
            return False
        if ev.kind == "tick":
            return True
        t = ev.t
        if ev.kind == "cancel":
            if t >= len(self.tasks) or not self.tasks[t].alive:
                self.ok = False
                return False
            self._kill(t)
            self._release_owner(self.tasks[t].member_of)
            return True
        if ev.kind == "release":
            if t >= len(self.tasks) or not self.tasks[t].alive or self.tasks[t].entering is None:
                self.ok = False
                return False
            tk = self.tasks[t]
            sid, tk.entering, tk.blocked = tk.entering, None, False
            self._enter(t, sid)
            return True
        if not self.can_act(t):
            self.ok = False
            return False
        tk = self.tasks[t]
        self.innermost_at[self.k] = self.cur(t)
        if ev.kind == "thread":
            return True
        if ev.kind == "open" and ev.enter_mode == "r":
            sid = self._construct(ev)
            self.scopes[sid].ev_entered = self.scopes[sid].ev_left = self.k       # rolled back at once
        elif ev.kind == "open" and ev.enter_mode == "g":
            tk.entering = self._construct(ev)
            tk.blocked = True
        elif ev.kind == "open":
            self._enter(t, self._construct(ev))
        elif ev.kind == "make":
            tk.pending = self._construct(ev)
        elif ev.kind == "enter":
            if tk.pending is None:
                self.ok = False
                return False
            sid, tk.pending = tk.pending, None
            self._enter(t, sid)
        elif ev.kind == "exit":
            if not tk.frames:
                self.ok = False
                return False
            sid = tk.frames[-1]
            if self.scopes[sid].disp:
                self._kill_members(sid)          # the cleanup error aborts the task group
                self.scopes[sid].exc = True
                self._finish_exit(t)
            elif self.scopes[sid].is_async and self.live_members(sid):
                if ev.exc:
                    self.ok = False
                    return False
                tk.blocked = True
            else:
                self.scopes[sid].exc = ev.exc
                self._finish_exit(t)
        elif ev.kind == "spawn":
            g = self.group(t)
            if ev.member and g is not None and self.scopes[g].ev_left is not None:
                self.ok = False
                return False
            self.tasks.append(STask(inherited=self.cur(t), inh_group=g, member_of=g if ev.member else None))
        elif ev.kind == "end":
            if tk.frames:
                self.ok = False
                return False
            tk.alive = False
            tk.pending = None
            self._release_owner(tk.member_of)
        return True

    def clone(self) -> "Replay":
        r = Replay.__new__(Replay)
        r.tasks = [STask(tk.inherited, tk.inh_group, list(tk.frames), tk.pending, tk.alive, tk.blocked, tk.member_of, tk.entering)
                   for tk in self.tasks]
        r.scopes = [SScope(**s.__dict__) for s in self.scopes]
        r.ok, r.k, r.innermost_at = self.ok, self.k, dict(self.innermost_at)
        return r

    # lexical nesting ---------------------------------------------------------------------------
    def lex_ancestors(self, sid: int):
        p = self.scopes[sid].lex
        while p is not None:
            yield p
            p = self.scopes[p].lex

    def lex_descendants(self, sid: int) -> list[int]:
        return [c.sid for c in self.scopes if sid in self.lex_ancestors(c.sid)]


def replay(evs) -> Replay:
    r = Replay()
    for ev in evs:
        r.step(ev)
    return r


def valid(case: str) -> bool:
    p = parse_case(case)
    if p is None:
        return False
    return replay(p[1]).ok


def normalize(case: str) -> str | None:
    """Append the drain; None if the case is not valid."""
    p = parse_case(case)
    if p is None:
        return None
    r = replay(p[1])
    if not r.ok:
        return None
    extra = []
    progress = True
    while progress:
        progress = False
        for t in range(len(r.tasks) - 1, -1, -1):
            tk = r.tasks[t]
            while tk.alive and (not tk.blocked or tk.entering is not None):
                tok = f"{t}:G" if tk.entering is not None else f"{t}:x" if tk.frames else f"{t}:e"
                r.step(parse_tok(tok))
                if not r.ok:
                    return None
                extra.append(tok)
                progress = True
    if any(tk.alive for tk in r.tasks):
        return None
    return " ".join(case.split() + extra)


# ------------------------------------------------------------------------------------------------
# random event sequences

KINDS = ["s", "a"]
CBS = ["s", "a", "s", "a", "n"]


def sample_events(rng, max_scopes: int, degenerate: bool = False, extra=None, open_tok=None,
                  max_tasks: int = 4, max_steps: int = 60, tick_w: float = 0.6, faults: float = 0.0) -> str | None:
    """One random valid event sequence (drained).  At each step an enabled event is drawn with weights biased
    towards building a tree first and towards leaving parents early.  `extra(rng, replay, t)` may add
    component specific events for task t (records, log calls) as (weight, token) pairs; `open_tok(rng, t, held)`
    overrides the scope-construction token."""
    r = Replay()
    toks: list[str] = []
    nsc = 0
    mk = open_tok or (lambda rng, t, held: f"{t}:{'m' if held else 'o'}:{rng.choice(KINDS)}:{rng.choice(CBS)}")
    for _ in range(max_steps):
        opts: list[tuple[float, str]] = []
        live = [t for t, tk in enumerate(r.tasks) if tk.alive and not tk.blocked]
        if faults:
            # fault knob: cancel a task that is suspended in a body or blocked in an exit; blocks with a failing cleanup
            for t, tk in enumerate(r.tasks):
                if tk.alive and (tk.frames or tk.blocked):
                    opts.append((faults * (2.0 if tk.blocked else 0.6), f"{t}:k"))
                if tk.alive and tk.entering is not None:
                    opts.append((faults * 2.0, f"{t}:G"))
        if not live and not opts:
            break
        for t in live:
            tk = r.tasks[t]
            if nsc < max_scopes:
                opts.append((3.0, mk(rng, t, False)))
                if degenerate:
                    opts.append((1.2, mk(rng, t, True)))
                if faults:
                    for kind, w in (("d", 2.0), ("r", 0.8), ("g", 1.2)):
                        f = mk(rng, t, False).split(":")
                        f[2] = kind
                        opts.append((w * faults, ":".join(f)))
            if faults and r.cur(t) is not None:
                opts.append((0.5 * faults, f"{t}:T"))
            if tk.pending is not None:
                opts.append((1.5, f"{t}:n"))
            if tk.frames:
                sid = tk.frames[-1]
                opts.append((2.0, f"{t}:x"))
                if r.scopes[sid].disp or not (r.scopes[sid].is_async and r.live_members(sid)):
                    opts.append((0.5, f"{t}:X"))
            else:
                opts.append((0.8 if nsc < max_scopes else 3.0, f"{t}:e"))
            if len(r.tasks) < max_tasks and r.cur(t) is not None:
                g = r.group(t)
                if g is None or r.scopes[g].ev_left is None:
                    opts.append((1.0, f"{t}:s"))
                opts.append((1.4, f"{t}:c"))
            if extra is not None:
                opts.extend(extra(rng, r, t))
        if tick_w:
            opts.append((tick_w, f"+{rng.randint(1, 3)}"))
        tok = rng.choices([o[1] for o in opts], weights=[o[0] for o in opts])[0]
        ev = parse_tok(tok)
        r.step(ev)
        if not r.ok:
            break
        toks.append(tok)
        if ev.kind in ("open", "make"):
            nsc += 1
        if nsc >= max_scopes and rng.random() < 0.05:
            break
    return normalize(" ".join(toks))


# ------------------------------------------------------------------------------------------------
# the real code

class Boom(Exception):
    pass


class MergeBoom(ValueError):
    pass


class DispBoom(Exception):
    pass


class EnterBoom(Exception):
    pass


class FailingEnter:
    async def __aenter__(self):
        raise EnterBoom("cannot enter")

    async def __aexit__(self, et, ev, tb):
        return None


class GatedEnter:
    def __init__(self, gate):
        self.gate = gate

    async def __aenter__(self):
        await self.gate
        return None

    async def __aexit__(self, et, ev, tb):
        return None


class FailingCleanup:
    """a disposable (test double handed to ctx.scope) whose cleanup raises - unless the scope is being cancelled"""

    async def __aenter__(self):
        return None

    async def __aexit__(self, et, ev, tb):
        if et is not None and issubclass(et, asyncio.CancelledError):
            return None
        raise DispBoom("cleanup failed")


_CLASSES = None


class _FalsyCallable:
    def __init__(self, f):
        self.f = f

    def __call__(self, *a, **k):
        return self.f(*a, **k)

    def __len__(self):
        return 0


def metric_classes():
    global _CLASSES
    if _CLASSES is None:
        from haiway import State

        class M0(State):
            items: tuple[int, ...]

        class M1(State):
            """a metric whose instances may be falsy (empty / even totals): presence is never decided by truthiness"""

            items: tuple[int, ...]

            def __bool__(self) -> bool:
                return sum(self.items) % 2 == 1

        class M2(State):
            items: tuple[int, ...]

        _CLASSES = [M0, M1, M2]
    return _CLASSES


def rec_merge(name: str):
    if name == "rep":
        return lambda a, b: b
    if name == "sum":
        return lambda a, b: type(b)(items=(sum(a.items) + sum(b.items),))
    if name == "cat":
        return lambda a, b: type(b)(items=tuple(a.items) + tuple(b.items))
    if name == "first":
        return lambda a, b: a

    def boom(a, b):
        raise MergeBoom("merge failed")

    return boom


def view_merge(name: str):
    from haiway import MISSING
    from haiway.types import is_missing

    if name == "rep":
        return lambda a, b: b
    if name == "sum":
        return lambda a, b: b if is_missing(a) else type(b)(items=(sum(a.items) + sum(b.items),))
    if name == "cat":
        return lambda a, b: b if is_missing(a) else type(b)(items=tuple(a.items) + tuple(b.items))
    if name == "first":
        return lambda a, b: b if is_missing(a) else a
    return lambda a, b: MISSING if is_missing(a) else type(b)(items=tuple(a.items) + tuple(b.items))   # skipnew


def show_val(v) -> str:
    cls = metric_classes()
    try:
        i = cls.index(type(v))
    except ValueError:
        return f"?{type(v).__name__}"
    return f"{i}({'.'.join(str(x) for x in v.items)})"


class Capture(logging.Handler):
    """Collects records while armed; a record whose message cannot be produced is *lost* the way the standard
    handlers lose it: through `handleError`."""

    def __init__(self, run, origin: str):
        super().__init__(level=logging.DEBUG)
        self.run = run
        self.origin = origin

    def emit(self, record):
        if not self.run.armed:
            return
        try:
            text = record.getMessage()
        except Exception:
            self.handleError(record)
            return
        self.run.captured.append((self.origin, record.name, record.levelname, record.exc_info, text))

    def handleError(self, record):
        self.run.captured.append((self.origin, record.name, record.levelname, record.exc_info, None))


class Run:
    """One case on the real library.  Observations are collected per event index."""

    def __init__(self, vm: str, evs):
        self.vm = vm
        self.evs = evs
        self.k = -1
        self.notes: dict[int, list[str]] = {}
        self.fired: dict[int, list] = {}           # event -> [(sid, observation dict)]
        self.metrics: dict[int, object] = {}       # sid -> ScopeMetrics seen by the callback
        self.count: dict[int, int] = {}
        self.logs: dict[int, list] = {}
        self.rec: dict[int, str] = {}
        self.puppets: list[Puppet] = []
        self.nscopes = 0
        self.armed = False
        self.late_level = False
        self.captured: list = []
        self.loggers: dict[int, logging.Logger] = {}
        self.desync: str | None = None
        self.gates: dict[int, asyncio.Future] = {}

    def note(self, s: str) -> None:
        self.notes.setdefault(self.k, []).append(s)

    def logger(self, k: int) -> logging.Logger:
        if k not in self.loggers:
            # stand-alone: no parent, no propagation; in a `late_level` run the loggers are quiet (WARNING) while scopes are
            # built / entered / left and opened up (DEBUG) only around each log call: what a logger lets through is decided
            # by its level at the time of the call, not at the time the scope was made
            lg = logging.Logger(f"L{k}", level=logging.WARNING if getattr(self, "late_level", False) else logging.DEBUG)
            lg.addHandler(Capture(self, f"L{k}"))
            self.loggers[k] = lg
        return self.loggers[k]

    def on_complete(self, sid: int, m) -> None:
        self.count[sid] = self.count.get(sid, 0) + 1
        self.metrics[sid] = m
        cls = metric_classes()
        obs = {"ic": None, "time": None}
        try:
            obs["ic"] = bool(m.is_completed)
            obs["time"] = m.time
            obs["read"] = [m.read(c) for c in cls]
            obs["plain"] = list(m.metrics())
            if sid % 2 == 0:
                # another reader asked for a *different* merged view first (reads are pure: one view must not colour another,
                # whether or not the scope has completed)
                list(m.metrics(merge=view_merge("first" if self.vm != "first" else "cat")))
            obs["view"] = list(m.metrics(merge=view_merge(self.vm)))
        except BaseException as exc:  # noqa: BLE001
            obs["error"] = type(exc).__name__
        self.fired.setdefault(self.k, []).append((sid, obs))

    def make_scope(self, ev: Ev):
        from haiway import ctx

        sid = self.nscopes
        self.nscopes += 1
        # the application re-seeds the global pseudo random generator whenever it likes (reproducible sampling per request):
        # identifiers and fresh trace ids must not come from it
        import random
        random.seed(20240229)
        kw = {}
        if ev.logger is not None:
            kw["logger"] = self.logger(ev.logger)
        if ev.trace is not None:
            kw["trace_id"] = ev.trace
        if ev.cb == "s":
            def cb(m, sid=sid):
                self.on_complete(sid, m)
            if sid % 2:
                # a callable object that is also an (empty) collection: whether a completion callback was given must not be
                # decided by its truth value
                cb = _FalsyCallable(cb)
            kw["completion"] = cb
        elif ev.cb == "a":
            async def acb(m, sid=sid):
                self.on_complete(sid, m)
            kw["completion"] = acb
        if ev.disp:
            kw["disposables"] = [FailingCleanup()]
        elif ev.enter_mode == "r":
            kw["disposables"] = [FailingEnter()]
        elif ev.enter_mode == "g":
            self.gates[sid] = asyncio.get_running_loop().create_future()
            kw["disposables"] = [GatedEnter(self.gates[sid])]
        return sid, ctx.scope(ev.name, **kw)


class Puppet:
    def __init__(self, run: Run, tid: int):
        self.run = run
        self.tid = tid
        self.waiting: asyncio.Future | None = None
        self.pending = None
        self.done = False

    async def next(self) -> Ev:
        self.waiting = asyncio.get_running_loop().create_future()
        try:
            return await self.waiting
        finally:
            self.waiting = None

    async def main(self) -> None:
        try:
            await self.body(top=True)
        except asyncio.CancelledError:
            pass                                  # cancelled from outside or as a member of an aborted group
        except BaseException as exc:  # noqa: BLE001
            self.run.note(f"task-died:{type(exc).__name__}")
        finally:
            self.done = True

    async def block(self, sid: int, sc, is_async: bool) -> None:
        state = {"entered": False, "boom": None}

        async def inner():
            state["entered"] = True
            try:
                await self.body(top=False)
            except Boom as exc:
                state["boom"] = exc
                raise
            finally:
                state["leaving"] = True

        try:
            if is_async:
                async with sc:
                    await inner()
            else:
                with sc:
                    await inner()
        except Boom as exc:
            if exc is not state["boom"]:
                self.run.note("raised:other-Boom")
        except (DispBoom, EnterBoom):
            pass                                  # the cleanup / enter error surfaces; the caller catches it and continues
        except asyncio.CancelledError:
            raise
        except BaseException as exc:  # noqa: BLE001
            where = "exit" if state["entered"] else "enter"
            self.run.note(f"{where}-raised:{type(exc).__name__}")

    async def body(self, top: bool) -> None:
        from haiway import ctx

        run = self.run
        while True:
            ev = await self.next()
            k = ev.kind
            if k == "open":
                sid, sc = run.make_scope(ev)
                self.entering_sid = sid
                await self.block(sid, sc, ev.is_async)
            elif k == "thread":
                import contextvars
                import threading

                seen: list[str] = []

                def attempt():
                    try:
                        ctx.scope("thr")
                        seen.append("constructed")
                    except BaseException as exc:  # noqa: BLE001
                        seen.append(type(exc).__name__)

                snapshot = contextvars.copy_context()
                th = threading.Thread(target=lambda: snapshot.run(attempt))
                th.start()
                th.join()
                if seen != ["RuntimeError"]:
                    run.note(f"thread-scope:{','.join(seen)}")
            elif k == "make":
                sid, sc = run.make_scope(ev)
                self.pending = (sid, sc, ev.is_async)
            elif k == "enter":
                sid, sc, is_async = self.pending
                self.pending = None
                await self.block(sid, sc, is_async)
            elif k == "exit":
                if ev.exc:
                    raise Boom("body")
                return
            elif k == "end":
                self.pending = None
                return
            elif k == "record":
                cls = metric_classes()[ev.ty]
                # one instance per (type, value) and run: a value recorded twice is the *same object* both times
                # (shared constants such as a module-level TICK are ordinary use; the fold must not depend on identity)
                pool = run.__dict__.setdefault("_metric_pool", {})
                metric = pool.setdefault((ev.ty, ev.val), cls(items=(ev.val,)))
                try:
                    if ev.merge == "rep":
                        ctx.record(metric)
                    else:
                        ctx.record(metric, merge=rec_merge(ev.merge))
                    run.rec[run.k] = "ok"
                except BaseException as exc:  # noqa: BLE001
                    run.rec[run.k] = f"raised:{type(exc).__name__}"
            elif k == "log":
                exc_obj = Boom("logged") if ev.exc else None
                run.captured = []
                run.armed = True
                if run.late_level:
                    for lg in [logging.getLogger(), *run.loggers.values()]:
                        lg.setLevel(logging.DEBUG)
                        lg._cache.clear()      # a stand-alone Logger is not in the manager's dict: setLevel does not reach its cache
                try:
                    fn = {"d": ctx.log_debug, "i": ctx.log_info, "w": ctx.log_warning, "e": ctx.log_error}[ev.level]
                    if ev.level == "i":
                        fn(ev.fmt, *ev.args)
                    elif exc_obj is not None:
                        fn(ev.fmt, *ev.args, exception=exc_obj)
                    else:
                        fn(ev.fmt, *ev.args)
                except BaseException as exc:  # noqa: BLE001
                    run.note(f"log-raised:{type(exc).__name__}")
                finally:
                    run.armed = False
                    if run.late_level:
                        for lg in [logging.getLogger(), *run.loggers.values()]:
                            lg.setLevel(logging.WARNING)
                            lg._cache.clear()
                def exc_flag(ei):
                    has = ei is not None and ei[0] is not None
                    if exc_obj is None:
                        return "X" if has else "0"
                    return "1" if has and ei[1] is exc_obj else "0"

                run.logs[run.k] = [(origin, name, lv, exc_flag(ei), text) for (origin, name, lv, ei, text) in run.captured]
            elif k == "spawn":
                child = Puppet(run, len(run.puppets))
                run.puppets.append(child)
                if ev.member:
                    child.task = ctx.spawn(child.main)
                else:
                    child.task = asyncio.get_running_loop().create_task(child.main())


def churn_of(case: str) -> int:
    for tok in case.split():
        if tok.startswith("churn="):
            return _nat(tok[6:]) or 0
    return 0


async def run_churn(n: int):
    """n outermost scopes, opened and left one after another, no reference kept: ([identifiers], [trace ids])"""
    from haiway import ctx

    idents, traces = [], []

    def done(m):
        idents.append(str(m.identifier))
        traces.append(str(m.trace_id))

    import gc

    for i in range(n):
        with ctx.scope("churn", completion=done):
            pass
        await asyncio.sleep(0)          # the completion callback runs; nothing refers to the scope any more
        if i % 40 == 39:
            gc.collect()                # … and its memory is handed back (the library's objects form reference cycles)
    return idents, traces


def run_case(case: str):
    """Drive the real library through a (valid) case.  Returns the Run (observations) or None if invalid."""
    p = parse_case(case)
    if p is None or not replay(p[1]).ok:
        return None
    vm, evs, _ = p
    run = Run(vm, evs)
    loop = vloop.new_loop()
    run.churn = None
    n_churn = churn_of(case)
    root = logging.getLogger()
    cap = Capture(run, "root")
    old_level, old_raise, old_hook = root.level, logging.raiseExceptions, sys.unraisablehook
    root.addHandler(cap)
    import zlib
    run.late_level = zlib.crc32(case.encode()) % 2 == 1      # half of the cases (a function of the case text: replays agree)
    root.setLevel(logging.WARNING if run.late_level else logging.DEBUG)
    logging.raiseExceptions = False
    sys.unraisablehook = lambda *_: None
    loop.set_exception_handler(lambda _l, ctxt: run.notes.setdefault(run.k, []).append(
        "loop-error:" + type(ctxt.get("exception")).__name__))
    try:
        if n_churn:
            try:
                run.churn = loop.run_until_complete(run_churn(n_churn))
            except BaseException as exc:  # noqa: BLE001
                run.churn = ([f"!{type(exc).__name__}"], [])
        p0 = Puppet(run, 0)
        run.puppets.append(p0)
        p0.task = loop.create_task(p0.main())
        loop.quiesce()
        for ev in list(evs) + [Ev("tick", dt=5)]:
            run.k += 1
            if ev.kind == "tick":
                vloop.CLOCK.now += ev.dt
                loop.quiesce()
                continue
            pup = run.puppets[ev.t] if ev.t < len(run.puppets) else None
            if ev.kind == "cancel" and pup is not None and not pup.done:
                pup.task.cancel()
                loop.quiesce()
                continue
            if ev.kind == "release" and pup is not None and not pup.done:
                gate = run.gates.get(getattr(pup, "entering_sid", -1))
                if gate is None or gate.done():
                    run.desync = f"desync@{run.k}"
                    break
                gate.set_result(None)
                loop.quiesce()
                continue
            if pup is None or pup.waiting is None or pup.waiting.done():
                run.desync = f"desync@{run.k}"
                break
            pup.waiting.set_result(ev)
            loop.quiesce()
        return run
    finally:
        root.removeHandler(cap)
        root.setLevel(old_level)
        logging.raiseExceptions = old_raise
        vloop.close_loop(loop)
        sys.unraisablehook = old_hook
        for ev in evs:
            if ev.kind in ("open", "make") and ev.name:
                logging.Logger.manager.loggerDict.pop(ev.name, None)


_HEX = re.compile(r"[0-9a-f]{32}")
_SYM = re.compile(r"@[ti]\d+|@U\d+|[0-9a-f]{32}")


def canon_ids(line: str) -> str:
    """uuid-like ids / model symbols -> placeholders in order of first appearance"""
    table: dict[str, str] = {}

    def sub(m):
        return table.setdefault(m.group(0), f"@U{len(table) + 1}")

    return _SYM.sub(sub, line)
