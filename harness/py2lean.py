"""Translator: the Python subset haiway's small methods are written in  ->  `Haiway.MiniPy.Stmt` terms (Lean).

The translation is purely syntactic (one AST node -> one IR constructor); everything semantic lives in the Lean
interpreter `Haiway/Model/MiniPy.lean` and in the per-class worlds of `Haiway/Bridge/*.lean`.  A construct outside the
subset raises `Unrecognised` – the caller records the method as `skipped`, never as an alarm.

A *target* says which method of which class in which file, how its parameters / the fields of `self` / the globals it
mentions are numbered, and which calls are externals (receiver text + method name -> external number and argument
expressions).  Everything else about a call (builtin container operations on a field or local the method owns) is
handled here uniformly."""
from __future__ import annotations

import ast
from dataclasses import dataclass, field

EXC_CLASSES = {
    "BaseException": 0, "Exception": 1, "CancelledError": 2, "RuntimeError": 3, "AssertionError": 4,
    "StopAsyncIteration": 5, "LookupError": 6, "AttributeError": 7, "MissingState": 8, "MissingContext": 9,
    "BaseExceptionGroup": 10, "TypeError": 11, "KeyError": 12, "ValueError": 13, "TimeoutError": 14,
}
CMP = {ast.Eq: 0, ast.NotEq: 1, ast.Lt: 2, ast.LtE: 3, ast.Gt: 4, ast.GtE: 5}
B = dict(excsonly=26, excsexcept=25, sub=24, delitem=20, movetoend=21, popfirst=22, pair=23, anyinst=17, add=18, isnumber=19, get=16, len=0, append=1, appendleft=2, extend=3, popleft=4, head=5, contains=6, getitem=7, setitem=8, isinstance=9,
         newexc=10, index1=11, values=12, concat=13, dictoftypes=14, type=15)


class Unrecognised(Exception):
    pass


@dataclass
class Target:
    file: str                      # path relative to the repository root
    cls: str | None                # class name (None: module-level function)
    method: str
    params: list[str]              # parameters other than self/cls, in the order the obligations number them
    fields: dict[str, int]         # self.<name> -> field number
    externals: dict[tuple[str, str], tuple[int, list[str]]] = field(default_factory=dict)
    # (receiver source text, method) -> (external number, argument sources: "@k" = k-th positional, "@name" = keyword,
    #  "$<python expr>" = that expression translated, e.g. "$self._waiting")
    globals_: dict[str, str] = field(default_factory=dict)      # global name -> Lean `Val` literal
    containers: set[str] = field(default_factory=set)           # receiver texts that are owned builtin containers
    inline_props: bool = True
    ext_functions: dict[str, tuple[int, int]] = field(default_factory=dict)  # free function name -> (external number, arity)
    method_externals: dict[str, tuple[int, list[str]]] = field(default_factory=dict)
    # method name -> (external number, argument sources; "$recv" = the receiver expression, whatever it is): dynamic dispatch on
    # an object held in a field, a local, a parameter or a helper's return value
    ext_attrs: dict[str, int] = field(default_factory=dict)     # attribute path (source text) read through an external, no arguments
    obj_attrs: dict[str, int] = field(default_factory=dict)     # attribute name read off an object held in a local -> external, [object]
    await_ext: int | None = None        # `await <expr>` of something that is not itself an external call -> this external, [expr]
    callables: dict[str, int] = field(default_factory=dict)     # parameter / local that is called: name -> external, args [callee, *args]
    self_names: tuple[str, ...] = ("self", "cls")
    expr_externals: dict[str, tuple[int, list[str]]] = field(default_factory=dict)
    # source text of a whole expression (e.g. a generator expression over other objects) -> (external number, argument sources)
    inline_self: set[str] = field(default_factory=set)   # methods inlined when called on `self` even if listed in method_externals
    nested_ids: dict[str, int] = field(default_factory=dict)    # name of a nested function -> identity of its function object
    with_externals: dict[str, tuple[int, int]] = field(default_factory=dict)   # receiver text of a `with` -> (enter, exit) externals
    closure: list[str] = field(default_factory=list)   # free variables of a nested function (the enclosing function's parameters), numbered first
    # "for.pre|body|post|iter|whole": the function must be `<pre>; for x in <iterable>: <body>; <post>` – one piece of it
    part: str | None = None             # "loop_body": the function must be `<name> = <int>; while True: <body>` – translate <body> only


class _Renamed(dict):
    """the caller's numbering of locals, seen from an inlined callee: its own names are kept apart by a tag"""

    def __init__(self, base: dict, tag: str):
        super().__init__()
        self.base, self.tag = base, tag

    def __contains__(self, name):
        return (self.tag + name) in self.base

    def __getitem__(self, name):
        return self.base[self.tag + name]

    def __setitem__(self, name, value):
        self.base[self.tag + name] = value

    def __len__(self):
        return len(self.base)


class Tr:
    def __init__(self, t: Target, cls_node: ast.ClassDef | None, fn: ast.FunctionDef | ast.AsyncFunctionDef):
        self.t, self.cls_node, self.fn = t, cls_node, fn
        self.locals: dict[str, int] = {p: i for i, p in enumerate(list(t.closure) + list(t.params))}
        self.tmp = 0
        self.alias: dict[str, str] = {}    # local name -> receiver text it was last assigned from (`w = self._waiting`)
        self.recv_texts = {r for (r, _m) in t.externals}

    # ---- helpers
    def local(self, name: str) -> int:
        if name not in self.locals:
            self.locals[name] = len(self.locals)
        return self.locals[name]

    def fresh(self) -> int:
        self.tmp += 1
        return self.local(f"$tmp{self.tmp}")

    def src(self, n: ast.AST) -> str:
        return ast.unparse(n)

    @staticmethod
    def lst(items: list[str]) -> str:
        out = "Expr.nil"
        for it in reversed(items):
            out = f"(Expr.cons {it} {out})"
        return out

    @staticmethod
    def seq(ss: list[str]) -> str:
        ss = [s for s in ss if s != "Stmt.pass"]
        if not ss:
            return "Stmt.pass"
        out = ss[-1]
        for s in reversed(ss[:-1]):
            out = f"(Stmt.seq {s} {out})"
        return out

    def prop_body(self, name: str) -> ast.expr | None:
        """`self.<name>` where <name> is a @property of the class whose body is a single `return <expr>`"""
        if not self.t.inline_props or self.cls_node is None:
            return None
        for f in self.cls_node.body:
            if isinstance(f, ast.FunctionDef) and f.name == name and any(
                    isinstance(d, ast.Name) and d.id == "property" for d in f.decorator_list):
                body = [s for s in f.body if not (isinstance(s, ast.Expr) and isinstance(s.value, ast.Constant))]
                if len(body) == 1 and isinstance(body[0], ast.Return) and body[0].value is not None:
                    return body[0].value
                raise Unrecognised(f"property {name}: body is not a single return")
        return None

    # ---- expressions: returns (pre-statements, expression)
    def expr(self, n: ast.expr) -> tuple[list[str], str]:
        if self.t.expr_externals and not isinstance(n, (ast.Constant, ast.Name)) and self.src(n) in self.t.expr_externals:
            num, spec = self.t.expr_externals[self.src(n)]
            pres, es = [], []
            for a in spec:
                p_, e_ = self.expr(ast.parse(a.lstrip("$"), mode="eval").body)
                pres += p_
                es.append(e_)
            return pres, f"(Expr.call {num} {self.lst(es)})"
        if isinstance(n, ast.Constant):
            v = n.value
            if v is None:
                return [], "(Expr.lit Val.none)"
            if isinstance(v, bool):
                return [], f"(Expr.lit (Val.bool {'true' if v else 'false'}))"
            if isinstance(v, int):
                return [], f"(Expr.lit (Val.int {v}))" if v >= 0 else f"(Expr.lit (Val.int ({v})))"
            if isinstance(v, str):
                return [], "(Expr.lit (Val.str 0))"
            raise Unrecognised(f"constant {v!r}")
        if isinstance(n, ast.JoinedStr):
            return [], "(Expr.lit (Val.str 0))"
        if isinstance(n, ast.Name):
            if n.id in self.t.globals_:
                return [], f"(Expr.lit {self.t.globals_[n.id]})"
            if n.id in EXC_CLASSES:
                return [], f"(Expr.lit (Val.cls {EXC_CLASSES[n.id]}))"
            if n.id in self.locals:
                return [], f"(Expr.loc {self.locals[n.id]})"
            if n.id == "self":
                return [], "(Expr.lit (Val.obj 4242))"      # the receiver's own identity
            raise Unrecognised(f"name {n.id}")
        if isinstance(n, ast.Attribute):
            if self.src(n) in self.t.ext_attrs:
                return [], f"(Expr.call {self.t.ext_attrs[self.src(n)]} Expr.nil)"
            if isinstance(n.value, ast.Name) and n.value.id in self.locals and n.attr in self.t.obj_attrs:
                return [], f"(Expr.call {self.t.obj_attrs[n.attr]} {self.lst([f'(Expr.loc {self.locals[n.value.id]})'])})"
            if isinstance(n.value, ast.Name) and n.value.id in self.t.self_names:
                if n.attr in self.t.fields:
                    return [], f"(Expr.fld {self.t.fields[n.attr]})"
                pb = self.prop_body(n.attr)
                if pb is not None:
                    return self.expr(pb)
            raise Unrecognised(f"attribute {self.src(n)}")
        if isinstance(n, ast.Await):
            p, e = self.expr(n.value)
            if self.t.await_ext is not None and not (isinstance(n.value, ast.Call) and e.startswith("(Expr.call ")):
                return p, f"(Expr.call {self.t.await_ext} {self.lst([e])})"
            return p, e
        if isinstance(n, ast.BinOp) and isinstance(n.op, (ast.Add, ast.Sub)):
            pa, ea = self.expr(n.left)
            pb_, eb = self.expr(n.right)
            if pb_:
                raise Unrecognised("effectful right operand")
            return pa, f"(Expr.call {B['add'] if isinstance(n.op, ast.Add) else B['sub']} {self.lst([ea, eb])})"
        if isinstance(n, ast.UnaryOp) and isinstance(n.op, ast.Not):
            p, e = self.expr(n.operand)
            return p, f"(Expr.not_ {e})"
        if isinstance(n, ast.BoolOp):
            ctor = "Expr.and_" if isinstance(n.op, ast.And) else "Expr.or_"
            pres, es = [], []
            for v in n.values:
                p, e = self.expr(v)
                if p and es:
                    raise Unrecognised("effectful operand after the first in and/or")
                pres += p
                es.append(e)
            out = es[-1]
            for e in reversed(es[:-1]):
                out = f"({ctor} {e} {out})"
            return pres, out
        if isinstance(n, ast.Compare):
            if len(n.ops) != 1:
                raise Unrecognised("chained comparison")
            op, (a, b) = n.ops[0], (n.left, n.comparators[0])
            pa, ea = self.expr(a)
            pb_, eb = self.expr(b)
            if pb_:
                raise Unrecognised("effectful right operand")
            if isinstance(op, ast.Is):
                return pa, f"(Expr.is_ {ea} {eb})"
            if isinstance(op, ast.IsNot):
                return pa, f"(Expr.not_ (Expr.is_ {ea} {eb}))"
            if isinstance(op, ast.In):
                return pa, f"(Expr.call {B['contains']} {self.lst([ea, eb])})"
            if isinstance(op, ast.NotIn):
                return pa, f"(Expr.not_ (Expr.call {B['contains']} {self.lst([ea, eb])}))"
            if type(op) in CMP:
                return pa, f"(Expr.cmp {CMP[type(op)]} {ea} {eb})"
            raise Unrecognised(f"comparison {type(op).__name__}")
        if isinstance(n, ast.Subscript):
            pv, ev = self.expr(n.value)
            if isinstance(n.slice, ast.Constant) and n.slice.value == 0:
                return pv, f"(Expr.call {B['head']} {self.lst([ev])})"
            if isinstance(n.slice, ast.Constant) and n.slice.value == 1 and type(n.slice.value) is int:
                return pv, f"(Expr.call {B['index1']} {self.lst([ev])})"
            ps, es = self.expr(n.slice)
            if ps:
                raise Unrecognised("effectful subscript")
            return pv, f"(Expr.call {B['getitem']} {self.lst([ev, es])})"
        if isinstance(n, ast.ListComp):
            # `[x for x in <xs> if isinstance(x, BaseException) and x is not <v>]` – the one comprehension of the subset
            g = n.generators[0] if len(n.generators) == 1 else None
            if g is not None and not g.is_async and isinstance(g.target, ast.Name) and isinstance(n.elt, ast.Name) \
                    and n.elt.id == g.target.id and len(g.ifs) == 1 and isinstance(g.ifs[0], ast.BoolOp) \
                    and isinstance(g.ifs[0].op, ast.And) and len(g.ifs[0].values) == 2:
                a, b = g.ifs[0].values
                t = g.target.id
                if isinstance(a, ast.Call) and isinstance(a.func, ast.Name) and a.func.id == "isinstance" and len(a.args) == 2 \
                        and not a.keywords and isinstance(a.args[0], ast.Name) and a.args[0].id == t \
                        and isinstance(a.args[1], ast.Name) and a.args[1].id == "BaseException" \
                        and isinstance(b, ast.Compare) and len(b.ops) == 1 and isinstance(b.ops[0], ast.IsNot) \
                        and isinstance(b.left, ast.Name) and b.left.id == t \
                        and t not in {x.id for x in ast.walk(b.comparators[0]) if isinstance(x, ast.Name)} \
                        and t not in {x.id for x in ast.walk(g.iter) if isinstance(x, ast.Name)}:
                    pxs, exs = self.expr(g.iter)
                    pv, ev = self.expr(b.comparators[0])
                    if pv:
                        raise Unrecognised("effectful comprehension")
                    return pxs, f"(Expr.call {B['excsexcept']} {self.lst([exs, ev])})"
            if g is not None and not g.is_async and isinstance(g.target, ast.Name) and isinstance(n.elt, ast.Name) \
                    and n.elt.id == g.target.id and len(g.ifs) == 1:
                a, t = g.ifs[0], g.target.id
                if isinstance(a, ast.Call) and isinstance(a.func, ast.Name) and a.func.id == "isinstance" and len(a.args) == 2 \
                        and not a.keywords and isinstance(a.args[0], ast.Name) and a.args[0].id == t \
                        and isinstance(a.args[1], ast.Name) and a.args[1].id == "BaseException" \
                        and t not in {x.id for x in ast.walk(g.iter) if isinstance(x, ast.Name)}:
                    pxs, exs = self.expr(g.iter)      # `[x for x in <xs> if isinstance(x, BaseException)]`
                    return pxs, f"(Expr.call {B['excsonly']} {self.lst([exs])})"
            raise Unrecognised("list comprehension of another shape")
        if isinstance(n, ast.NamedExpr):
            p, e = self.expr(n.value)
            self.note_alias(n.target, n.value)
            i = self.local(n.target.id)
            return p + [f"(Stmt.assign {i} {e})"], f"(Expr.loc {i})"
        if isinstance(n, ast.Dict) and not n.keys:
            return [], "(Expr.lit (Val.dict []))"      # the empty display `{}`
        if isinstance(n, (ast.List, ast.Tuple)):
            if all(isinstance(e, ast.Starred) for e in n.elts) and len(n.elts) == 2:
                pa, ea = self.expr(n.elts[0].value)
                pb_, eb = self.expr(n.elts[1].value)
                if pb_:
                    raise Unrecognised("effectful display")
                return pa, f"(Expr.call {B['concat']} {self.lst([ea, eb])})"
            pres, es = [], []
            for e in n.elts:
                if isinstance(e, ast.Starred):
                    raise Unrecognised("starred display")
                p, x = self.expr(e)
                if p and es:
                    raise Unrecognised("effectful display")
                pres += p
                es.append(x)
            return pres, self.lst(es)
        if isinstance(n, ast.Call):
            return self.call(n)
        if isinstance(n, ast.IfExp):
            pc, c = self.expr(n.test)
            pa, a = self.expr(n.body)
            pb_, b = self.expr(n.orelse)
            if pa or pb_:
                raise Unrecognised("effectful arm of a conditional expression")
            return pc, f"(Expr.cond {c} {a} {b})"
        raise Unrecognised(type(n).__name__)

    def args_of(self, n: ast.Call, spec: list[str]) -> tuple[list[str], list[str]]:
        pres, out = [], []
        if spec == ["*"]:
            if any(isinstance(a, ast.Starred) for a in n.args) or any(k.arg is None for k in n.keywords):
                raise Unrecognised(f"call {self.src(n)}: starred arguments")
            for node in list(n.args) + [k.value for k in n.keywords]:
                p, e = self.expr(node)
                if p and out:
                    raise Unrecognised("effectful argument")
                pres += p
                out.append(e)
            return pres, out
        for a in spec:
            if a.startswith("$"):
                node = ast.parse(a[1:], mode="eval").body
            elif "|" in a:
                kwname, pos = a[1:].split("|")
                kw = [k for k in n.keywords if k.arg == kwname]
                if kw:
                    node = kw[0].value
                elif int(pos) < len(n.args):
                    node = n.args[int(pos)]
                else:
                    raise Unrecognised(f"call {self.src(n)}: argument {kwname} missing")
            elif a[1:].isdigit():
                k = int(a[1:])
                if k >= len(n.args):
                    raise Unrecognised(f"call {self.src(n)}: positional argument {k} missing")
                node = n.args[k]
            else:
                kw = [k for k in n.keywords if k.arg == a[1:]]
                if kw:
                    node = kw[0].value
                else:
                    raise Unrecognised(f"call {self.src(n)}: keyword {a[1:]} missing")
            p, e = self.expr(node)
            if p and out:
                raise Unrecognised("effectful argument")
            pres += p
            out.append(e)
        return pres, out

    def call(self, n: ast.Call) -> tuple[list[str], str]:
        f = n.func
        if isinstance(f, ast.Name):
            if f.id in self.t.ext_functions and isinstance(self.t.ext_functions[f.id][1], list) \
                    and self.t.ext_functions[f.id][1] != ["*all"]:
                num, spec = self.t.ext_functions[f.id]
                pres, es = self.args_of(n, spec)
                return pres, f"(Expr.call {num} {self.lst(es)})"
            if f.id == "cast" and len(n.args) == 2:
                return self.expr(n.args[1])
            if f.id == "copy" and len(n.args) == 1 and not n.keywords and self.src(n.args[0]) in self.t.containers:
                return self.expr(n.args[0])      # containers are values here: a shallow copy is the value itself
            if f.id == "list" and len(n.args) == 1 and not n.keywords and isinstance(n.args[0], ast.Call) \
                    and isinstance(n.args[0].func, ast.Attribute) and n.args[0].func.attr == "values" \
                    and self.src(n.args[0].func.value) in self.t.containers:
                return self.expr(n.args[0])      # `list(d.values())`: the values, in the dict's order
            if f.id == "len" and len(n.args) == 1:
                p, e = self.expr(n.args[0])
                return p, f"(Expr.call {B['len']} {self.lst([e])})"
            if f.id == "isinstance" and len(n.args) == 2:
                p, e = self.expr(n.args[0])
                p2, c = self.expr(n.args[1])
                return p + p2, f"(Expr.call {B['isinstance']} {self.lst([e, c])})"
            if f.id == "any" and len(n.args) == 1 and not n.keywords and isinstance(n.args[0], ast.GeneratorExp):
                g = n.args[0]
                if len(g.generators) == 1 and not g.generators[0].ifs and not g.generators[0].is_async \
                        and isinstance(g.generators[0].target, ast.Name) and isinstance(g.elt, ast.Call) \
                        and isinstance(g.elt.func, ast.Name) and g.elt.func.id == "isinstance" and len(g.elt.args) == 2 \
                        and not g.elt.keywords and isinstance(g.elt.args[1], ast.Name) \
                        and g.elt.args[1].id == g.generators[0].target.id \
                        and g.generators[0].target.id not in {x.id for x in ast.walk(g.elt.args[0]) if isinstance(x, ast.Name)}:
                    p, e = self.expr(g.elt.args[0])
                    p2, ys = self.expr(g.generators[0].iter)
                    if p or p2:
                        raise Unrecognised("effectful generator expression")
                    return [], f"(Expr.call {B['anyinst']} {self.lst([e, ys])})"
                raise Unrecognised("any(...) of another shape")
            if f.id == "type" and len(n.args) == 1:
                p, e = self.expr(n.args[0])
                return p, f"(Expr.call {B['type']} {self.lst([e])})"
            if f.id in EXC_CLASSES:
                for a in list(n.args) + [k.value for k in n.keywords]:
                    for sub in ast.walk(a):
                        if isinstance(sub, (ast.Call, ast.Await)):
                            raise Unrecognised("call inside exception arguments")
                return [], f"(Expr.call {B['newexc']} {self.lst([f'(Expr.lit (Val.cls {EXC_CLASSES[f.id]}))'])})"
            if f.id in self.t.callables and f.id in self.locals:
                pres, es = [], [f"(Expr.loc {self.locals[f.id]})"]
                if any(isinstance(a, ast.Starred) for a in n.args) or any(k.arg is None for k in n.keywords):
                    # `f(*args, **kwargs)`: the argument tuple / dict are handed on as they are
                    for a in n.args:
                        if not (isinstance(a, ast.Starred) and isinstance(a.value, ast.Name) and a.value.id in self.locals):
                            raise Unrecognised("mixed starred call")
                        es.append(f"(Expr.loc {self.locals[a.value.id]})")
                    for k in n.keywords:
                        if not (k.arg is None and isinstance(k.value, ast.Name) and k.value.id in self.locals):
                            raise Unrecognised("mixed starred call")
                        es.append(f"(Expr.loc {self.locals[k.value.id]})")
                    return pres, f"(Expr.call {self.t.callables[f.id]} {self.lst(es)})"
                if n.keywords:
                    raise Unrecognised("keyword arguments to a callable parameter")
                for a in n.args:
                    p, e = self.expr(a)
                    if p:
                        raise Unrecognised("effectful argument")
                    es.append(e)
                return pres, f"(Expr.call {self.t.callables[f.id]} {self.lst(es)})"
            if f.id in self.t.ext_functions and self.t.ext_functions[f.id][1] == ["*all"]:
                # every argument in order; `*name` / `**name` hand the local's tuple / dict on as ONE item each
                num, es = self.t.ext_functions[f.id][0], []
                for a in n.args:
                    if isinstance(a, ast.Starred):
                        if not (isinstance(a.value, ast.Name) and a.value.id in self.locals):
                            raise Unrecognised("starred argument that is not a local")
                        es.append(f"(Expr.loc {self.locals[a.value.id]})")
                    else:
                        pa, ea = self.expr(a)
                        if pa:
                            raise Unrecognised("effectful argument")
                        es.append(ea)
                for k in n.keywords:
                    if not (k.arg is None and isinstance(k.value, ast.Name) and k.value.id in self.locals):
                        raise Unrecognised("keyword argument in a pass-through call")
                    es.append(f"(Expr.loc {self.locals[k.value.id]})")
                return [], f"(Expr.call {num} {self.lst(es)})"
            if f.id in self.t.ext_functions and isinstance(self.t.ext_functions[f.id][1], list):
                num, spec = self.t.ext_functions[f.id]
                pres, es = self.args_of(n, spec)
                return pres, f"(Expr.call {num} {self.lst(es)})"
            if f.id in self.t.ext_functions:
                num, arity = self.t.ext_functions[f.id]
                if len(n.args) != arity or n.keywords:
                    raise Unrecognised(f"call {self.src(n)}: arity")
                pres, es = [], []
                for a in n.args:
                    p, e = self.expr(a)
                    if p and es:
                        raise Unrecognised("effectful argument")
                    pres += p
                    es.append(e)
                return pres, f"(Expr.call {num} {self.lst(es)})"
            raise Unrecognised(f"call of {f.id}")
        if isinstance(f, ast.Attribute):
            recv, meth = self.src(f.value), f.attr
            if recv in self.t.self_names and (recv, meth) not in self.t.externals and (
                    meth not in self.t.method_externals or meth in self.t.inline_self):
                return self.inline(n, meth)
            if recv in self.alias and (self.alias[recv], meth) in self.t.externals:
                num, spec = self.t.externals[(self.alias[recv], meth)]
                spec = [("$" + recv) if a == "$" + self.alias[recv] else a for a in spec]   # the local's own value is passed
                pres, es = self.args_of(n, spec)
                return pres, f"(Expr.call {num} {self.lst(es)})"
            if (recv, meth) in self.t.externals:
                num, spec = self.t.externals[(recv, meth)]
                pres, es = self.args_of(n, spec)
                return pres, f"(Expr.call {num} {self.lst(es)})"
            if recv not in self.t.containers and meth in self.t.method_externals:
                num, spec = self.t.method_externals[meth]
                pr, er = self.expr(f.value)
                pres, es = self.args_of(n, [a for a in spec if a != "$recv"])
                it = iter(es)
                full = [er if a == "$recv" else next(it) for a in spec]
                return pr + pres, f"(Expr.call {num} {self.lst(full)})"
            if recv in self.t.containers:
                pr, er = self.expr(f.value)
                if meth == "popleft" and not n.args:
                    tmp = self.fresh()
                    upd = self.store(f.value, f"(Expr.call {B['index1']} {self.lst([f'(Expr.loc {tmp})'])})")
                    return pr + [f"(Stmt.assign {tmp} (Expr.call {B['popleft']} {self.lst([er])}))", upd], \
                        f"(Expr.call {B['head']} {self.lst([f'(Expr.loc {tmp})'])})"
                if meth == "values" and not n.args:
                    return pr, f"(Expr.call {B['values']} {self.lst([er])})"
                if meth == "get" and len(n.args) in (1, 2) and not n.keywords:
                    pres, es = list(pr), [er]
                    for a in n.args:
                        p, e = self.expr(a)
                        if p:
                            raise Unrecognised("effectful argument")
                        es.append(e)
                    return pres, f"(Expr.call {B['get']} {self.lst(es)})"
            raise Unrecognised(f"call {recv}.{meth}")
        raise Unrecognised(f"call {self.src(n)}")

    def inline(self, n: ast.Call, meth: str) -> tuple[list[str], str]:
        """`self.<meth>(args)` with <meth> a method of the same class: the callee's body is translated in place, its
        parameters and locals renamed apart, `return` ending the inlined body only (`Stmt.scoped`)"""
        if self.cls_node is None:
            raise Unrecognised(f"call self.{meth}")
        fns = [x for x in self.cls_node.body if isinstance(x, (ast.FunctionDef, ast.AsyncFunctionDef)) and x.name == meth]
        if len(fns) != 1:
            raise Unrecognised(f"call self.{meth}: no such method")
        fn = fns[0]
        if any(isinstance(d, ast.Name) and d.id in ("staticmethod", "classmethod", "property") for d in fn.decorator_list):
            raise Unrecognised(f"call self.{meth}: decorated")
        self.depth = getattr(self, "depth", 0) + 1
        if self.depth > 4:
            raise Unrecognised("inlining depth")
        a = fn.args
        if a.vararg or a.kwarg:
            raise Unrecognised(f"call self.{meth}: variadic callee")
        params = [x.arg for x in a.posonlyargs + a.args][1:]
        kwonly = [x.arg for x in a.kwonlyargs]
        defaults = dict(zip(reversed(params), reversed(a.defaults))) if a.defaults else {}
        kwdefaults = {k: d for k, d in zip(kwonly, a.kw_defaults) if d is not None}
        given: dict[str, ast.expr] = {}
        if len(n.args) > len(params):
            raise Unrecognised(f"call self.{meth}: too many arguments")
        for name, arg in zip(params, n.args):
            given[name] = arg
        for kw in n.keywords:
            if kw.arg is None or kw.arg in given or kw.arg not in params + kwonly:
                raise Unrecognised(f"call self.{meth}: keyword {kw.arg}")
            given[kw.arg] = kw.value
        pres: list[str] = []
        vals: dict[str, str] = {}
        for name in params + kwonly:
            node = given.get(name, defaults.get(name, kwdefaults.get(name)))
            if node is None:
                raise Unrecognised(f"call self.{meth}: argument {name} missing")
            p, e = self.expr(node)
            pres += p
            vals[name] = e
        saved = self.locals
        tag = f"${meth}{self.depth}_{len(saved)}$"
        self.locals = _Renamed(saved, tag)
        try:
            binds = [f"(Stmt.assign {self.local(name)} {e})" for name, e in vals.items()]
            body = self.stmts(fn.body)
        finally:
            self.locals = saved
            self.depth -= 1
        dst = self.fresh()
        return pres + binds + [f"(Stmt.scoped {dst} {body})"], f"(Expr.loc {dst})"

    def note_alias(self, target: ast.expr, value: ast.expr) -> None:
        if isinstance(target, ast.Name):
            txt = self.src(value)
            if txt in self.recv_texts:
                self.alias[target.id] = txt
            elif isinstance(value, ast.Name) and value.id in self.alias:
                self.alias[target.id] = self.alias[value.id]
            else:
                self.alias.pop(target.id, None)

    def store(self, target: ast.expr, e: str) -> str:
        if isinstance(target, ast.Name):
            return f"(Stmt.assign {self.local(target.id)} {e})"
        if isinstance(target, ast.Attribute) and isinstance(target.value, ast.Name) and target.value.id in self.t.self_names \
                and target.attr in self.t.fields:
            return f"(Stmt.setFld {self.t.fields[target.attr]} {e})"
        raise Unrecognised(f"assignment target {self.src(target)}")

    def for_parts(self, s: ast.For) -> tuple[list[str], tuple[int, str], str]:
        """`for <name> in <iterable>: <body>` over an iterable that evaluates to a list value:
        (statements evaluating the iterable's effectful parts, (loop variable, iterable expression), body)"""
        if s.orelse:
            raise Unrecognised("for … else")
        pre, it = self.expr(s.iter)
        if isinstance(s.target, ast.Name):
            v = self.local(s.target.id)
            return pre, (v, it), self.stmts(s.body)
        if isinstance(s.target, ast.Tuple) and len(s.target.elts) == 2 and all(isinstance(e, ast.Name) for e in s.target.elts):
            # `for a, b in pairs:` – the pair goes to a fresh local, `a` and `b` are read off it
            v = self.fresh()
            a, b = (self.local(e.id) for e in s.target.elts)
            unpack = [f"(Stmt.assign {a} (Expr.call {B['head']} {self.lst([f'(Expr.loc {v})'])}))",
                      f"(Stmt.assign {b} (Expr.call {B['index1']} {self.lst([f'(Expr.loc {v})'])}))"]
            return pre, (v, it), self.seq(unpack + [self.stmts(s.body)])
        raise Unrecognised("for loop of another shape")

    def loop_step(self, w: ast.While) -> str:
        p, c = self.expr(w.test)
        return self.seq(p + [f"(Stmt.ite {c} {self.stmts(w.body)} Stmt.brk)"])

    def with_parts(self, s: ast.AsyncWith | ast.With) -> tuple[str, str]:
        """`[async] with <receiver>:` for a receiver listed in `with_externals`: (enter, exit) statements; the body runs under
        `try … finally exit` (the exception details handed to `__aexit__` are not modelled: the managers of the subset ignore them)"""
        if len(s.items) != 1 or s.items[0].optional_vars is not None:
            raise Unrecognised("with statement of another shape")
        recv = self.src(s.items[0].context_expr)
        if recv not in self.t.with_externals:
            raise Unrecognised(f"with {recv}")
        en, ex = self.t.with_externals[recv]
        return f"(Stmt.expr (Expr.call {en} Expr.nil))", f"(Stmt.expr (Expr.call {ex} Expr.nil))"

    # ---- statements
    def stmts(self, body: list[ast.stmt]) -> str:
        return self.seq([self.stmt(s) for s in body])

    def stmt(self, s: ast.stmt) -> str:
        if isinstance(s, ast.Pass):
            return "Stmt.pass"
        if isinstance(s, ast.Expr):
            if isinstance(s.value, ast.Constant):
                return "Stmt.pass"  # docstring
            v = s.value.value if isinstance(s.value, ast.Await) else s.value
            if isinstance(v, ast.Call) and isinstance(v.func, ast.Attribute):
                recv, meth = self.src(v.func.value), v.func.attr
                if recv in self.t.containers and (recv, meth) not in self.t.externals:
                    pr, er = self.expr(v.func.value)
                    if meth in ("append", "appendleft", "extend") and len(v.args) == 1 and not v.keywords:
                        pa, ea = self.expr(v.args[0])
                        return self.seq(pr + pa + [self.store(v.func.value, f"(Expr.call {B[meth]} {self.lst([er, ea])})")])
                    if meth == "popleft" and not v.args:
                        p, _e = self.expr(v)
                        return self.seq(p)
                    if meth == "move_to_end" and len(v.args) == 1 and not v.keywords:
                        pa, ea = self.expr(v.args[0])
                        return self.seq(pr + pa + [self.store(v.func.value, f"(Expr.call {B['movetoend']} {self.lst([er, ea])})")])
                    if meth == "popitem" and not v.args and len(v.keywords) == 1 and v.keywords[0].arg == "last" \
                            and isinstance(v.keywords[0].value, ast.Constant) and v.keywords[0].value.value is False:
                        return self.seq(pr + [self.store(v.func.value, f"(Expr.call {B['popfirst']} {self.lst([er])})")])
                    raise Unrecognised(f"container method {meth}")
            p, e = self.expr(s.value)
            return self.seq(p + [f"(Stmt.expr {e})"])
        if isinstance(s, (ast.Assign, ast.AnnAssign)):
            if isinstance(s, ast.AnnAssign):
                if s.value is None:
                    return "Stmt.pass"
                targets, value = [s.target], s.value
            else:
                targets, value = s.targets, s.value
            if len(targets) != 1:
                raise Unrecognised("multiple assignment targets")
            tg = targets[0]
            if isinstance(tg, ast.Subscript):
                recv = self.src(tg.value)
                if recv not in self.t.containers:
                    raise Unrecognised(f"subscript store into {recv}")
                pr, er = self.expr(tg.value)
                pk, ek = self.expr(tg.slice)
                pv, ev = self.expr(value)
                return self.seq(pr + pk + pv + [self.store(tg.value, f"(Expr.call {B['setitem']} {self.lst([er, ek, ev])})")])
            if isinstance(tg, ast.Name) and isinstance(value, (ast.Name, ast.Attribute)) and self.src(value) in self.t.containers:
                # `xs = self._items` makes a second name for ONE container; the interpreter's containers are values
                raise Unrecognised(f"aliasing of the container {self.src(value)}")
            p, e = self.expr(value)
            self.note_alias(tg, value)
            return self.seq(p + [self.store(tg, e)])
        if isinstance(s, ast.Return):
            if s.value is None:
                return "(Stmt.ret (Expr.lit Val.none))"
            p, e = self.expr(s.value)
            return self.seq(p + [f"(Stmt.ret {e})"])
        if isinstance(s, ast.Raise):
            if s.exc is None:
                return "Stmt.reraise"
            p, e = self.expr(s.exc)
            return self.seq(p + [f"(Stmt.raise {e})"])
        if isinstance(s, ast.Assert):
            p, e = self.expr(s.test)
            return self.seq(p + [f"(Stmt.assert_ {e})"])
        if isinstance(s, ast.If):
            p, c = self.expr(s.test)
            return self.seq(p + [f"(Stmt.ite {c} {self.stmts(s.body)} {self.stmts(s.orelse)})"])
        if isinstance(s, ast.Delete):
            if len(s.targets) != 1 or not isinstance(s.targets[0], ast.Subscript) \
                    or self.src(s.targets[0].value) not in self.t.containers:
                raise Unrecognised(f"del {self.src(s)}")
            tg = s.targets[0]
            pr, er = self.expr(tg.value)
            pk, ek = self.expr(tg.slice)
            return self.seq(pr + pk + [self.store(tg.value, f"(Expr.call {B['delitem']} {self.lst([er, ek])})")])
        if isinstance(s, ast.While):
            if s.orelse:
                raise Unrecognised("while … else")
            if isinstance(s.test, ast.Constant) and s.test.value is True:
                return f"(Stmt.loop fuel {self.stmts(s.body)})"
            # `while c: body`  =  `while True: (body if c else break)`
            return f"(Stmt.loop fuel {self.loop_step(s)})"
        if isinstance(s, ast.For):
            pre, head, body = self.for_parts(s)
            return self.seq(pre + [f"(Stmt.forEach {head[0]} {head[1]} {body})"])
        if isinstance(s, (ast.FunctionDef, ast.AsyncFunctionDef)):
            # a nested function definition: the name is bound to a function object (identity = order of definition); its body is
            # a target of its own (`outer.inner`)
            if s.name not in self.t.nested_ids:
                raise Unrecognised(f"nested function {s.name}")
            return f"(Stmt.assign {self.local(s.name)} (Expr.lit (Val.obj {self.t.nested_ids[s.name]})))"
        if isinstance(s, (ast.AsyncWith, ast.With)):
            en, ex = self.with_parts(s)
            return f"(Stmt.seq {en} (Stmt.try_ {self.stmts(s.body)} Stmt.noHandler Stmt.pass {ex}))"
        if isinstance(s, ast.Continue):
            return "Stmt.cont"
        if isinstance(s, ast.Break):
            return "Stmt.brk"
        if isinstance(s, ast.AugAssign):
            if not (isinstance(s.op, ast.Add) and isinstance(s.target, ast.Name) and s.target.id in self.locals):
                raise Unrecognised(f"augmented assignment {self.src(s)}")
            p, e = self.expr(s.value)
            return self.seq(p + [f"(Stmt.assign {self.locals[s.target.id]} (Expr.call {B['add']} "
                                 f"{self.lst([f'(Expr.loc {self.locals[s.target.id]})', e])}))"])
        if isinstance(s, ast.Match):
            return self.match(s)
        if isinstance(s, ast.Try):
            hs = "Stmt.noHandler"
            for h in reversed(s.handlers):
                if h.type is None:
                    cs = [0]
                elif isinstance(h.type, ast.Name) and h.type.id in EXC_CLASSES:
                    cs = [EXC_CLASSES[h.type.id]]
                elif isinstance(h.type, ast.Tuple) and h.type.elts and all(
                    isinstance(e, ast.Name) and e.id in EXC_CLASSES for e in h.type.elts
                ):
                    # `except (A, B) as e: body` = `except A as e: body` followed by `except B as e: body`
                    cs = [EXC_CLASSES[e.id] for e in h.type.elts]
                else:
                    raise Unrecognised(f"handler for {self.src(h.type)}")
                bind = f"(some {self.local(h.name)})" if h.name else "none"
                body = self.stmts(h.body)
                for c in reversed(cs):
                    hs = f"(Stmt.handler {c} {bind} {body} {hs})"
            return f"(Stmt.try_ {self.stmts(s.body)} {hs} {self.stmts(s.orelse)} {self.stmts(s.finalbody)})"
        raise Unrecognised(type(s).__name__)


NUMBER_CLASSES = {"int", "float"}


def _match(self, s: ast.Match) -> str:
    """`match <subject>: case …` as a chain of tests on the subject's value, first matching case wins; patterns of the
    subset: `None`, class patterns without arguments over int/float (alone or in an or-pattern) with an optional `as`
    binding, a capture name, the wildcard"""
    p, e = self.expr(s.subject)
    subj = self.fresh()
    out = "Stmt.pass"      # no case matched: the statement does nothing
    for case in reversed(s.cases):
        if case.guard is not None:
            raise Unrecognised("guarded case")
        pat = case.pattern
        bind = None
        if isinstance(pat, ast.MatchAs) and pat.pattern is not None:
            bind, pat = pat.name, pat.pattern
        for name in (bind, pat.name if isinstance(pat, ast.MatchAs) else None):
            if name:
                self.local(name)      # bound before the case body is translated
        body = self.stmts(case.body)
        loc = f"(Expr.loc {subj})"
        if isinstance(pat, ast.MatchSingleton) and pat.value is None:
            test = f"(Expr.is_ {loc} (Expr.lit Val.none))"
        elif isinstance(pat, ast.MatchAs) and pat.pattern is None:
            # capture (or `_`): always matches
            pre = [f"(Stmt.assign {self.local(pat.name)} {loc})"] if pat.name else []
            out = self.seq(pre + [body])
            continue
        else:
            alts = pat.patterns if isinstance(pat, ast.MatchOr) else [pat]
            if not all(isinstance(a, ast.MatchClass) and isinstance(a.cls, ast.Name) and a.cls.id in NUMBER_CLASSES
                       and not a.patterns and not a.kwd_patterns for a in alts):
                raise Unrecognised(f"case pattern {ast.unparse(case.pattern)}")
            if {a.cls.id for a in alts} != NUMBER_CLASSES:
                raise Unrecognised(f"case pattern {ast.unparse(case.pattern)}: not exactly int() | float()")
            test = f"(Expr.call {B['isnumber']} {self.lst([loc])})"
        pre = [f"(Stmt.assign {self.local(bind)} {loc})"] if bind else []
        out = f"(Stmt.ite {test} {self.seq(pre + [body])} {out})"
    return self.seq(p + [f"(Stmt.assign {subj} {e})", out])


Tr.match = _match


def find(tree: ast.Module, cls: str | None, method: str):
    scope = tree.body
    cls_node = None
    if cls is not None:
        cls_node = next((n for n in tree.body if isinstance(n, ast.ClassDef) and n.name == cls), None)
        if cls_node is None:
            raise Unrecognised(f"no class {cls}")
        scope = cls_node.body
    *outer, method = method.split(".")
    for name in outer:      # nested function: `outer.inner`
        encl = [n for n in scope if isinstance(n, (ast.FunctionDef, ast.AsyncFunctionDef)) and n.name == name]
        if len(encl) != 1:
            raise Unrecognised(f"{cls}.{name}: {len(encl)} definitions")
        scope = encl[0].body
    fns = [n for n in scope if isinstance(n, (ast.FunctionDef, ast.AsyncFunctionDef)) and n.name == method
           and not any(isinstance(d, ast.Name) and d.id == "overload" for d in n.decorator_list)]
    if len(fns) != 1:
        raise Unrecognised(f"{cls}.{method}: {len(fns)} definitions")
    return cls_node, fns[0]


EXC_ORIGIN = {"CancelledError": {"asyncio", "asyncio.exceptions"}, "MissingState": {"haiway.context.types"},
              "MissingContext": {"haiway.context.types"}}


def check_exception_names(tree: ast.Module) -> None:
    """the exception class names of the subset must mean what the interpreter takes them to mean: builtins not shadowed
    at module level, the others imported from their home module (a `CancelledError` from `concurrent.futures` is another class)"""
    for node in tree.body:
        names = []
        if isinstance(node, ast.ImportFrom):
            names = [(a.asname or a.name, node.module or "", a.name) for a in node.names]
        elif isinstance(node, ast.Import):
            names = [(a.asname or a.name.split(".")[0], a.name, None) for a in node.names]
        elif isinstance(node, (ast.ClassDef, ast.FunctionDef, ast.AsyncFunctionDef)):
            names = [(node.name, "<local definition>", None)]
        elif isinstance(node, (ast.Assign, ast.AnnAssign)):
            tg = node.targets if isinstance(node, ast.Assign) else [node.target]
            names = [(x.id, "<assignment>", None) for x in tg if isinstance(x, ast.Name)]
        for bound, module, orig in names:
            if bound in EXC_CLASSES:
                if bound not in EXC_ORIGIN or module not in EXC_ORIGIN[bound] or orig != bound:
                    raise Unrecognised(f"exception class name {bound} is bound by the module to {module}.{orig}")


def desugar_dictcomp(fn, t):
    """`<target> = {K: V for x in IT}` (one generator, no condition, a plain name as its variable, used nowhere else in the
    function) is the three statements `$dc = {}` / `for x in IT: $dc[K] = V` / `<target> = $dc` – the definition of a dict
    comprehension; the fresh dict is an owned container, never named again after the store (so value semantics are exact)."""
    out, k = [], 0
    for s in fn.body:
        value = s.value if isinstance(s, (ast.Assign, ast.AnnAssign)) else None
        if isinstance(value, ast.DictComp):
            g = value.generators
            if len(g) != 1 or g[0].ifs or g[0].is_async or not isinstance(g[0].target, ast.Name):
                raise Unrecognised(f"dict comprehension shape: {ast.unparse(value)}")
            var = g[0].target.id
            inside = sum(1 for n in ast.walk(value) if isinstance(n, ast.Name) and n.id == var)
            total = sum(1 for n in ast.walk(fn) if isinstance(n, (ast.Name, ast.arg)) and getattr(n, "id", getattr(n, "arg", None)) == var)
            if total != inside:
                raise Unrecognised(f"comprehension variable {var} is also a name of the function")
            if any(isinstance(n, ast.Name) and n.id == var for n in ast.walk(g[0].iter)):
                raise Unrecognised("comprehension variable inside its own iterable")
            tmp = f"__dc{k}"
            k += 1
            t.containers.add(tmp)
            new = ast.parse(f"{tmp} = {{}}\nfor {var} in {ast.unparse(g[0].iter)}:\n    {tmp}[{ast.unparse(value.key)}] = {ast.unparse(value.value)}\n").body
            tgt = s.target if isinstance(s, ast.AnnAssign) else (s.targets[0] if len(s.targets) == 1 else None)
            if tgt is None:
                raise Unrecognised("multiple assignment targets")
            new.append(ast.Assign(targets=[tgt], value=ast.Name(id=tmp, ctx=ast.Load())))
            for n in new:
                ast.fix_missing_locations(n)
            out.extend(new)
        else:
            out.append(s)
    fn.body = out


def translate(repo, t: Target) -> tuple[str, dict[str, int]]:
    """-> (Lean term of type Stmt, numbering of the locals)"""
    from pathlib import Path

    tree = ast.parse((Path(repo) / t.file).read_text())
    check_exception_names(tree)
    cls_node, fn = find(tree, t.cls, t.method)
    desugar_dictcomp(fn, t)
    a = fn.args
    names = [x.arg for x in a.posonlyargs + a.args + a.kwonlyargs]
    if a.vararg:
        names.append(a.vararg.arg)
    if a.kwarg:
        names.append(a.kwarg.arg)
    if names and names[0] in t.self_names:
        names = names[1:]
    if names != t.params:
        raise Unrecognised(f"{t.cls}.{t.method}: parameters {names} (expected {t.params})")
    tr = Tr(t, cls_node, fn)
    body = [x for x in fn.body if not (isinstance(x, ast.Expr) and isinstance(x.value, ast.Constant))]
    if t.part == "loop_body":
        # `<counter>: int = 0` then `while True: <body>` and nothing else; the counter is numbered right after the parameters
        if not (len(body) == 2 and isinstance(body[0], (ast.Assign, ast.AnnAssign)) and isinstance(body[1], ast.While)):
            raise Unrecognised(f"{t.method}: not `<counter> = 0; while True: …`")
        init = body[0]
        tg = init.target if isinstance(init, ast.AnnAssign) else (init.targets[0] if len(init.targets) == 1 else None)
        if not (isinstance(tg, ast.Name) and isinstance(init.value, ast.Constant) and init.value.value == 0
                and type(init.value.value) is int):
            raise Unrecognised(f"{t.method}: the counter is not initialised with the literal 0")
        w = body[1]
        if not (isinstance(w.test, ast.Constant) and w.test.value is True) or w.orelse:
            raise Unrecognised(f"{t.method}: loop other than `while True:`")
        tr.local(tg.id)
        term = tr.stmts(w.body)
        locs = dict(tr.locals)
        locs["$counter"] = tr.locals[tg.id]
        return term, locs
    if t.part is not None and t.part.startswith("locked_loop."):
        # `[async] with <lock>: <pre…>; while <test>: <body>; <post…>` then `return <tail>`; one of the five pieces
        if not (len(body) == 2 and isinstance(body[0], (ast.AsyncWith, ast.With)) and isinstance(body[1], ast.Return)):
            raise Unrecognised(f"{t.method}: not `with lock: …` followed by `return …`")
        inner = body[0].body
        loops = [i for i, x in enumerate(inner) if isinstance(x, ast.While)]
        if len(loops) != 1 or inner[loops[0]].orelse:
            raise Unrecognised(f"{t.method}: not exactly one top-level loop inside the `with`")
        tr.with_parts(body[0])     # the receiver must be the lock
        k = loops[0]
        pieces = {"pre": tr.stmts(inner[:k]), "step": tr.loop_step(inner[k]), "post": tr.stmts(inner[k + 1:]),
                  "tail": tr.stmt(body[1])}      # translated in program order: the numbering of the locals is that of the whole
        return pieces[t.part.split(".")[1]], dict(tr.locals)
    if t.part == "while.step":
        # the one top-level `while <test>: <body>` of the function, as one iteration `<body> if <test> else break`
        loops = [x for x in body if isinstance(x, ast.While)]
        if len(loops) != 1 or loops[0].orelse:
            raise Unrecognised(f"{t.method}: not exactly one top-level while loop")
        return tr.loop_step(loops[0]), dict(tr.locals)
    if t.part is not None and t.part.startswith("for."):
        # `<pre…>; for <x> in <iterable>: <body>; <post…>` with exactly one top-level `for`; one of the pieces, or the whole
        # assembled as `seq <pre> (seq (forEach x <iterable> <body>) <post>)`
        loops = [i for i, x in enumerate(body) if isinstance(x, ast.For)]
        if len(loops) != 1:
            raise Unrecognised(f"{t.method}: not exactly one top-level for loop")
        k = loops[0]
        pre = tr.stmts(body[:k])
        ipre, (v, it), lbody = tr.for_parts(body[k])
        if ipre:
            raise Unrecognised(f"{t.method}: effectful iterable")
        post = tr.stmts(body[k + 1:])
        pieces = {"pre": pre, "body": lbody, "post": post,
                  "whole": f"(Stmt.seq {pre} (Stmt.seq (Stmt.forEach {v} {it} {lbody}) {post}))", "iter": f"(Stmt.ret {it})"}
        locs = dict(tr.locals)
        locs["$loopvar"] = v
        return pieces[t.part.split(".")[1]], locs
    term = tr.stmts(body)
    return term, dict(tr.locals)
