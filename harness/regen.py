"""Regenerated proof obligations: on every run the methods listed below are translated from /repo's *current* source
into `Haiway.MiniPy` terms (harness/py2lean.py), written into a scratch Lean file together with one theorem per
obligation – the statement is a committed `def … (p : Stmt) : Prop` in `lean/Haiway/Bridge/*.lean`, instantiated with the
regenerated term – and Lean re-checks them.  The proof scripts split only on the obligation's own quantified variables
and then evaluate the interpreter on the closed term, so they do not depend on the term's shape.

status per obligation:  ok | broken (Lean rejects it) | skipped (a method it needs is outside the translated subset)
A result is cached under the hash of the generated Lean text and of the bridge/model sources it imports (the text is a
function of the repository's source, so a changed method is always re-checked)."""
from __future__ import annotations

import hashlib
import json
import os
import re
import subprocess
from pathlib import Path

from harness.py2lean import Target, Unrecognised, translate

ALLOWED = {"propext", "Classical.choice", "Quot.sound"}


def _cv(cls):
    return {(f"{cls}._context", "set"): (100, ["@0"]), (f"{cls}._context", "reset"): (101, ["@0"]),
            (f"{cls}._context", "get"): (102, [])}


_CTX_FIELDS = {"_state": 0, "_metrics": 0, "_group": 0, "_token": 1}
_EXIT_PARAMS = ["exc_type", "exc_val", "exc_tb"]
_MG = {"MISSING": "(Val.obj 4242)", "Missing": "(Val.cls 90)"}
_SF = {"_state": 0, "_defaults": 1}
_QF = {"_loop": 0, "_queue": 1, "_waiting": 2, "_finish_reason": 3}
_QX = {("self._loop", "create_future"): (116, [])}
_QM = {"done": (110, ["$recv"]), "set_result": (111, ["$recv", "@0"]), "set_exception": (112, ["$recv", "@0"]),
       "cancelled": (113, ["$recv"]), "exception": (114, ["$recv"]), "result": (115, ["$recv"])}   # methods of asyncio.Future

# group -> {"import": bridge module, "open": namespaces, "defs": {lean name: Target}, "obligations": [(name, needs, statement, script)]}
_CACHE_SCRIPT = r'''intro limit expiration s k ok args{HOK}
  unfold {DEF}
  cases hf : Cache.find s.table k with
  | none =>
    have hset := assocSet_imgL_absent {KD} s.table k
    by_cases hl : limit < s.table.length + 1
    · have hl' : ((limit : Int) < (s.table.length : Int) + 1) := by omega
      cases ok <;> cache_eval
    · have hl' : ¬ ((limit : Int) < (s.table.length : Int) + 1) := by omega
      cases ok <;> cache_eval
  | some e =>
    have hek : e.key = k := by
      have := List.find?_some hf; simpa using this
    {HEOK}
    have hfe := find_erase s.table k
    have hset := assocSet_imgL_absent {KD} (Cache.erase s.table k) k
    rcases hx : e.expire with _ | x
    · cases heo : e.ok <;> cache_eval
    · by_cases hx0 : x = 0
      · subst hx0; cases heo : e.ok <;> cache_eval
      · have hx0' : ¬ ((x : Int) = 0) := by omega
        by_cases hlt : x < s.now
        · have hlt' : ((x : Int) < (s.now : Int)) := by omega
          by_cases hl : limit < (Cache.erase s.table k).length + 1
          · have hl' : ((limit : Int) < ((Cache.erase s.table k).length : Int) + 1) := by omega
            cases ok <;> cache_eval
          · have hl' : ¬ ((limit : Int) < ((Cache.erase s.table k).length : Int) + 1) := by omega
            cases ok <;> cache_eval
        · have hlt' : ¬ ((x : Int) < (s.now : Int)) := by omega
          cases heo : e.ok <;> cache_eval'''

_TIMEOUT_FX = {("future", "done"): (241, []), ("future", "cancel"): (243, []), ("future", "set_result"): (244, ["@0"]),
               ("future", "set_exception"): (246, ["@0"]), ("task", "cancelled"): (242, []), ("task", "result"): (245, []),
               ("task", "cancel"): (247, []), ("timeout_handle", "cancel"): (240, [])}

GROUPS = {
    "contexts": {
        "import": "Haiway.Bridge.Contexts", "open": "Haiway.MiniPy Haiway.Bridge.Contexts",
        "defs": {
            "gStateEnter": Target("src/haiway/context/state.py", "StateContext", "__enter__", [], _CTX_FIELDS, _cv("StateContext")),
            "gStateExit": Target("src/haiway/context/state.py", "StateContext", "__exit__", _EXIT_PARAMS, _CTX_FIELDS, _cv("StateContext")),
            "gMetricsEnter": Target("src/haiway/context/metrics.py", "MetricsContext", "__enter__", [], _CTX_FIELDS,
                                    {**_cv("MetricsContext"), ("self._metrics", "log"): (106, []), ("self._metrics", "_finish"): (105, [])},
                                    ext_attrs={"self._metrics._finished": 107, "self._metrics.time": 108},
                                    globals_={"INFO": "(Val.int 20)"}),
            "gMetricsExit": Target("src/haiway/context/metrics.py", "MetricsContext", "__exit__", _EXIT_PARAMS, _CTX_FIELDS,
                                   {**_cv("MetricsContext"), ("self._metrics", "log"): (106, []), ("self._metrics", "_finish"): (105, [])},
                                   ext_attrs={"self._metrics._finished": 107, "self._metrics.time": 108},
                                   globals_={"INFO": "(Val.int 20)"}),
            "gGroupEnter": Target("src/haiway/context/tasks.py", "TaskGroupContext", "__aenter__", [], _CTX_FIELDS,
                                  {**_cv("TaskGroupContext"), ("self._group", "__aenter__"): (103, [])}),
            "gGroupExit": Target("src/haiway/context/tasks.py", "TaskGroupContext", "__aexit__", _EXIT_PARAMS, _CTX_FIELDS,
                                 {**_cv("TaskGroupContext"), ("self._group", "__aexit__"): (104, ["@exc"])}),
        },
        "obligations": [
            *[(f"{k}_enter_sets", [f"g{K}Enter"], f"EnterSets g{K}Enter",
               f"intro value args w h1 h2\n  unfold g{K}Enter\n  minipy_eval\n  all_goals (try (intros; first | contradiction | simp_all | omega))")
              for k, K in (("state", "State"), ("metrics", "Metrics"), ("group", "Group"))],
            *[(f"{k}_enter_refuses_reentrance", [f"g{K}Enter"], f"EnterRefusesReentrance g{K}Enter",
               f"intro value k args w\n  unfold g{K}Enter\n  minipy_eval")
              for k, K in (("state", "State"), ("metrics", "Metrics"), ("group", "Group"))],
            *[(f"{k}_exit_resets", [f"g{K}Exit"], f"ExitResets g{K}Exit",
               f"intro old v k args w h1 h2\n  unfold g{K}Exit\n  minipy_eval")
              for k, K in (("state", "State"), ("metrics", "Metrics"), ("group", "Group"))],
            *[(f"{k}_exit_refuses_unbalanced", [f"g{K}Exit"], f"ExitRefusesUnbalanced g{K}Exit",
               f"intro v args w\n  unfold g{K}Exit\n  minipy_eval")
              for k, K in (("state", "State"), ("metrics", "Metrics"), ("group", "Group"))],
            *[(f"{k}_round_trip", [f"g{K}Enter", f"g{K}Exit"], f"RoundTrip g{K}Enter g{K}Exit",
               f"intro value args args' w scr h1 h2 h3\n  unfold g{K}Enter g{K}Exit\n  minipy_eval")
              for k, K in (("state", "State"), ("metrics", "Metrics"), ("group", "Group"))],
            ("metrics_exit_finishes", ["gMetricsExit"], "MetricsExitFinishes gMetricsExit",
             "intro old v k args w h1\n  unfold gMetricsExit\n  minipy_eval"),
            ("group_exit", ["gGroupExit"], "GroupExit gGroupExit",
             "intro old v k args w h1\n  unfold gGroupExit\n  cases hge : w.groupExit with\n  | none => minipy_eval\n  | some e =>\n"
             "    cases e with\n    | exc c n => by_cases hc : c = 2 <;> minipy_eval\n    | _ => minipy_eval"),
        ],
    },
    "scopestate": {
        "import": "Haiway.Bridge.ScopeStateEndToEnd", "open": "Haiway.MiniPy Haiway.Bridge.ScopeState Haiway.ScopeState",
        "defs": {
            "gState": Target("src/haiway/context/state.py", "ScopeState", "state", ["state", "default"], _SF, {},
                             containers={"self._state", "self._defaults"}, callables={"state": 120}),
            "gUpdated": Target("src/haiway/context/state.py", "ScopeState", "updated", ["state"], _SF,
                               {("self", "__class__"): (121, ["@0"])}, containers={"self._state", "self._defaults"}),
            "gCurrent": Target("src/haiway/context/state.py", "StateContext", "current", ["state", "default"], {},
                               {("cls._context", "get"): (102, [])},
                               method_externals={"state": (122, ["$recv", "@0", "@default|1"])}),
            "gCtxUpdated": Target("src/haiway/context/state.py", "StateContext", "updated", ["state"], {},
                                  {("cls._context", "get"): (102, [])}, method_externals={"updated": (123, ["$recv", "@state|0"])},
                                  ext_functions={"cls": (124, ["@state|0"]), "ScopeState": (121, ["@0"])}),
        },
        "obligations": [
            ("state_lookup", ["gState"], "StateLookup gState",
             "intro emb d c ty dflt w\n  unfold gState\n"
             "  cases hf : find d ty <;> cases dflt <;> cases hc : cacheFind c ty <;> cases hok : w.ctorOk <;>\n"
             "    cases hx : w.ctorFailsWithException <;> ss_eval <;> (try simp_all [assocSet_cacheOfE_new])"),
            ("updated_refines", ["gUpdated"], "UpdatedRefines gUpdated",
             "intro d xs c w hb\n  unfold gUpdated\n  cases xs <;> ss_eval"),
            # C01's nesting law restated of the regenerated terms (chains of `updated`, lookup on `stateOf frames`)
            ("state_c01", ["gUpdated", "gState"], "NestingProps gUpdated gState",
             "exact nestingProps_of_refines updated_refines state_lookup"),
            ("current_refines", ["gCurrent"], "CurrentRefines gCurrent",
             "intro ty dflt w hl\n  unfold gCurrent\n"
             "  cases hv : w.var <;> cases hr : w.stateResult\n"
             "  case none.inl => ss_eval'\n  case some.inl => ss_eval'\n"
             "  case none.inr e => obtain ⟨c, n, rfl, hs⟩ := hl e hr; ss_eval'\n"
             "  case some.inr e => obtain ⟨c, n, rfl, hs⟩ := hl e hr; ss_eval'"),
            ("context_updated_refines", ["gCtxUpdated"], "ContextUpdatedRefines gCtxUpdated",
             "intro xs w hb hu\n  unfold gCtxUpdated\n  cases hv : w.var <;> ss_eval"),
        ],
    },
    "missing": {
        "import": "Haiway.Bridge.Missing", "open": "Haiway.MiniPy Haiway.Bridge.Missing",
        "defs": {
            "gMetaCall": Target("src/haiway/types/missing.py", "MissingType", "__call__", [], {"_instance": 0},
                                {("super()", "__call__"): (130, [])}),
            **{f"g{n}": Target("src/haiway/types/missing.py", "Missing", m, ps, {}, {}, globals_=_MG)
               for n, m, ps in (("Bool", "__bool__", []), ("Eq", "__eq__", ["value"]), ("Reduce", "__reduce__", []),
                                ("GetAttr", "__getattr__", ["name"]), ("SetAttr", "__setattr__", ["__name", "__value"]),
                                ("DelAttr", "__delattr__", ["__name"]))},
            **{f"g{n}": Target("src/haiway/types/missing.py", None, m, ps, {}, {}, globals_=_MG)
               for n, m, ps in (("IsMissing", "is_missing", ["check"]), ("NotMissing", "not_missing", ["check"]),
                                ("WhenMissing", "when_missing", ["check", "value"]))},
        },
        "obligations": [
            ("meta_call_singleton", ["gMetaCall"], "MetaCallSingleton gMetaCall",
             "unfold gMetaCall\n  refine ⟨?_, ?_⟩\n  · intro args w\n    simp [Val.same]; missing_eval\n  · intro k args w\n    missing_eval; simp [Val.same]"),
            ("bool_false", ["gBool"], "BoolFalse gBool", "intro args w\n  unfold gBool\n  missing_eval"),
            ("eq_is_identity", ["gEq"], "EqIsIdentity gEq", "intro v w\n  unfold gEq\n  missing_eval"),
            ("reduce_calls_type", ["gReduce"], "ReduceCallsType gReduce", "intro args w\n  unfold gReduce\n  missing_eval"),
            *[(f"{n.lower()}_refused", [f"g{n}"], f"RaisesAttributeError g{n}", f"intro args w\n  unfold g{n}\n  missing_eval")
              for n in ("GetAttr", "SetAttr", "DelAttr")],
            ("is_missing_identity", ["gIsMissing"], "IsMissingIdentity gIsMissing", "intro v w\n  unfold gIsMissing\n  missing_eval"),
            ("not_missing_identity", ["gNotMissing"], "NotMissingIdentity gNotMissing", "intro v w\n  unfold gNotMissing\n  missing_eval"),
            ("when_missing_identity", ["gWhenMissing"], "WhenMissingIdentity gWhenMissing",
             "intro v d w\n  unfold gWhenMissing\n  by_cases h : v.same theMissing = true <;> missing_eval"),
        ],
    },
    "metrics": {
        "import": "Haiway.Bridge.MetricsEndToEnd", "open": "Haiway.MiniPy Haiway.Bridge.Metrics",
        "defs": {
            "gRecord": Target("src/haiway/context/metrics.py", "ScopeMetrics", "record", ["metric", "merge"],
                              {"_metrics": 0, "_completed": 1}, {}, containers={"self._metrics"},
                              method_externals={"done": (110, ["$recv"])}, ext_functions={"type": (140, ["@0"])},
                              callables={"merge": 141}),
            "gCtxRecord": Target("src/haiway/context/metrics.py", "MetricsContext", "record", ["metric", "merge"], {},
                                 {("cls._context", "get"): (102, []), ("cls", "log_error"): (151, [])},
                                 method_externals={"record": (150, ["$recv", "@0", "@merge|1"])}),
        },
        "obligations": [
            ("record_refines", ["gRecord"], "RecordRefines gRecord",
             "intro emb s v mergeFn w hm he\n  unfold gRecord\n"
             "  cases hc : w.completed <;> cases hg : get s (w.tyOf (emb v))\n"
             "  case false.some cur =>\n"
             "    simp (config := { zeta := true }) only [hg, Bool.false_eq_true, ↓reduceIte]\n"
             "    intro hn\n"
             "    have hcn := hn cur\n"
             "    rcases ho : w.mergeBy mergeFn (emb cur) (emb v) with nv | e\n"
             "    · cases hcv : emb cur <;> first | exact absurd hcv hcn | (rw [hcv] at ho; metrics_eval <;> try simp_all)\n"
             "    · obtain ⟨c, n, rfl⟩ := he _ _ _ e ho\n"
             "      cases hcv : emb cur <;> first | exact absurd hcv hcn | (rw [hcv] at ho; metrics_eval <;> try simp_all)\n"
             "  all_goals first\n"
             "    | (intro hn; rename_i cur; have hcn := hn cur; cases hcv : emb cur <;>\n"
             "        first | exact absurd hcv hcn | (metrics_eval <;> try simp_all))\n"
             "    | (metrics_eval <;> try simp_all)"),
            # C10's fold law restated of the regenerated term (lock step with Metrics.recordAll over whole histories)
            ("record_c10", ["gRecord"], "HistoryProps gRecord", "exact historyProps_of_refines record_refines"),
            ("ctx_record_refines", ["gCtxRecord"], "CtxRecordRefines gCtxRecord",
             "intro metric mergeFn w hr hl he\n  unfold gCtxRecord\n"
             "  cases hv : w.var <;> cases ho : w.recordOut\n"
             "  case none.inl => metrics_eval\n  case some.inl => metrics_eval\n"
             "  case none.inr e => obtain ⟨c, n, rfl⟩ := he e ho; metrics_eval\n"
             "  case some.inr e => obtain ⟨c, n, rfl⟩ := he e ho; by_cases hs : isSub c cException = true <;> metrics_eval <;> simp_all"),
        ],
    },
    "view": {
        "import": "Haiway.Bridge.MetricsViewEndToEnd", "open": "Haiway.MiniPy Haiway.Bridge.Metrics",
        "defs": {
            name: Target("src/haiway/context/metrics.py", "ScopeMetrics", "metrics", ["merge"], {"_metrics": 0}, {},
                         containers={"self._metrics", "metrics"},
                         ext_functions={"type": (140, ["@0"]), "not_missing": (142, ["@0"])}, callables={"merge": 141},
                         globals_={"MISSING": "(Val.obj 999)"},
                         expr_externals={"chain.from_iterable((nested.metrics(merge=merge) for nested in self._nested))": (143, [])},
                         part="for." + part)
            for name, part in (("gViewPre", "pre"), ("gViewBody", "body"), ("gViewPost", "post"), ("gView", "whole"))
        },
        "obligations": [
            ("view_pre", ["gViewPre"], "PreOK gViewPre {gViewPre.metrics}",
             "intro own mergeFn st h0 hf\n  unfold gViewPre\n"
             "  by_cases ht : mergeFn.truthy = true\n"
             "  · simp only [ht, ↓reduceIte]\n"
             "    refine ⟨?_, ⟨?_, ?_, ?_⟩, ?_⟩ <;> view_eval'\n"
             "  · have hfal : mergeFn.truthy = false := by simpa using ht\n"
             "    simp only [hfal, Bool.false_eq_true, ↓reduceIte]\n"
             "    view_eval'"),
            ("view_step", ["gViewBody"], "StepOK gViewBody {gViewBody.$loopvar} {gViewBody.metrics}",
             "intro own acc mergeFn x st hl hx\n  obtain ⟨h0, hacc, hself⟩ := hl\n  unfold gViewBody\n"
             "  rcases ho : st.world.mergeBy mergeFn ((getV acc (st.world.tyOf x)).getD missingV) x with v | e\n"
             "  · by_cases hv : v.same missingV = true\n"
             "    · simp only [viewStep, ho, hv]; view_step_eval\n"
             "    · have hv' : v.same missingV = false := by simpa using hv\n"
             "      simp only [viewStep, ho, hv']; view_step_eval\n"
             "  · simp only [viewStep, ho]; view_step_eval"),
            ("view_post", ["gViewPost"], "PostOK gViewPost {gViewPost.metrics}",
             "intro acc st hacc\n  unfold gViewPost\n  view_eval"),
            ("view_refines", ["gViewPre", "gViewBody", "gViewPost", "gView"], "ViewRefines gView",
             "exact view_of_parts (pre := gViewPre) (body := gViewBody) (post := gViewPost) rfl view_pre\n"
             "    (by intro st; view_eval) view_step view_post (by decide) (by decide)"),
            # C10's merged-view law restated of the regenerated term (values of Metrics.mergeInto)
            ("view_c10", ["gViewPre", "gViewBody", "gViewPost", "gView"], "ViewProps gView", "exact viewProps_of_refines view_refines"),
        ],
    },
    "ssinit": {
        "import": "Haiway.Bridge.ScopeStateInit", "open": "Haiway.MiniPy Haiway.Bridge.ScopeStateInit Haiway.Bridge.ScopeState",
        "defs": {
            name: Target("src/haiway/context/state.py", "ScopeState", "__init__", ["state"], _SF, {},
                         ext_functions={"type": (125, ["@0"]), "freeze": (126, ["@0"])}, part="for." + part)
            for name, part in (("gSSPre", "pre"), ("gSSBody", "body"), ("gSSPost", "post"), ("gSSInit", "whole"))
        },
        "obligations": [
            ("ssinit_parts", ["gSSPre", "gSSBody", "gSSPost"], "PartsOK gSSPre gSSBody gSSPost {gSSBody.__dc0} {gSSBody.$loopvar}",
             "have hstep : StepOK gSSBody {gSSBody.__dc0} {gSSBody.$loopvar} := by\n"
             "    intro d n st hd hn\n    unfold gSSBody\n    ssinit_eval\n"
             "  first\n"
             "  | (refine ⟨false, ?_, hstep, ?_⟩\n"
             "     · intro st; unfold gSSPre; ssinit_eval\n"
             "     · intro v st hv hb; unfold gSSPost; ssinit_eval)\n"
             "  | (refine ⟨true, ?_, hstep, ?_⟩\n"
             "     · intro st; unfold gSSPre; ssinit_eval\n"
             "     · intro v st hv hb; have hb' := hb rfl; unfold gSSPost; ssinit_eval)"),
            ("ssinit_builds", ["gSSPre", "gSSBody", "gSSPost", "gSSInit"], "InitBuilds gSSInit",
             "exact init_of_parts (pre := gSSPre) (body := gSSBody) (post := gSSPost) rfl ssinit_parts\n"
             "    (by intro st; ssinit_eval) (by decide)"),
            # the step the scope-state end-to-end chain assumed (`mk`), now of the regenerated constructor
            ("ssinit_closes_chain", ["gSSPre", "gSSBody", "gSSPost", "gSSInit"], "ClosesChain gSSInit",
             "exact closesChain_of_builds ssinit_builds"),
            # C01's replacement clause of the regenerated constructor: the entry of a class is the LAST instance of it supplied
            ("ssinit_last_wins", ["gSSPre", "gSSBody", "gSSPost", "gSSInit"], "LastWins gSSInit",
             "exact lastWins_of_builds ssinit_builds"),
        ],
    },
    "spawn": {
        "import": "Haiway.Bridge.Spawn", "open": "Haiway.MiniPy Haiway.Bridge.Spawn",
        "defs": {
            "gRun": Target("src/haiway/context/tasks.py", "TaskGroupContext", "run", ["function", "args", "kwargs"], {},
                           {("cls._context", "get"): (102, [])},
                           method_externals={"create_task": (160, ["$recv", "@0", "@context"])},
                           ext_functions={"get_event_loop": (162, []), "copy_context": (163, [])},
                           callables={"function": 161}),
        },
        "obligations": [
            ("run_spawns", ["gRun"], "RunSpawns gRun",
             "intro args w h1 h2 h3 he hg hc\n  unfold gRun\n"
             "  rcases hv : w.var with _ | g <;> rcases ho : w.callOut with coro | e <;> (try (obtain ⟨c, n, rfl⟩ := he e ho)) <;>\n"
             "    cases hr : w.groupRefuses <;> (try (obtain ⟨k, rfl⟩ := hg g hv)) <;> spawn_eval <;> (try simp_all)"),
        ],
    },
    "retry": {
        "import": "Haiway.Bridge.RetryEndToEnd", "open": "Haiway Haiway.MiniPy Haiway.Bridge.Retry",
        "defs": {
            **{name: Target("src/haiway/helpers/retries.py", None, f"{outer}.wrapped", ["args", "kwargs"], {},
                            {("ctx", "log_error"): (170, ["*"])},
                            ext_functions={"getattr": (173, 3), "repr": (174, 1), sleeper: (171, 1)},
                            callables={"function": 161, "make_delay": 172},
                            closure=["function", "limit", "delay", "catching"], part=part)
               for outer, sleeper, base in (("_wrap_sync", "sleep_sync", "gSync"), ("_wrap_async", "sleep", "gAsync"))
               for name, part in ((base + "Body", "loop_body"), (base, None))},
        },
        "obligations": [
            *[ob for base, tag in (("gSync", "sync"), ("gAsync", "async")) for ob in (
                (f"retry_{tag}_step", [base + "Body"], "RetryStep {%sBody.$counter} %sBody" % (base, base),
                 "intro limit cats d outs a t s hinv\n  obtain ⟨h1, h2, h3, h4, h5, h6, h7, h8⟩ := hinv\n"
                 f"  unfold {base}Body\n"
                 "  rcases ho : outs a with v | ⟨c, n⟩\n  · retry_eval\n"
                 "  · cases hc : isSub (toPy c) 2 <;> cases he : isSub (toPy c) 1 <;> cases hany : catches cats (toPy c) <;>\n"
                 "      by_cases hal : a < limit <;> cases d <;> retry_eval"),
                (f"retry_{tag}_refines", [base + "Body", base], f"RetryRefines {base}",
                 "exact refines_of_step (iAtt := {%sBody.$counter}) (by decide) (fun _ => rfl) retry_%s_step" % (base, tag)),
                (f"retry_{tag}_c14", [base + "Body", base], f"WrapperProps {base}", f"exact props_of_refines retry_{tag}_refines"),
            )],
        ],
    },
    "cache": {
        "import": "Haiway.Bridge.CacheEndToEnd", "open": "Haiway Haiway.MiniPy Haiway.Bridge.Cache",
        "defs": {
            "gSyncCall": Target("src/haiway/helpers/caching.py", "_SyncCache", "__call__", ["args", "kwargs"], {"_cached": 1, "_limit": 2},
                                {("self", "_function"): (180, ["$args", "$kwargs"]), ("self", "_next_expire_time"): (181, [])},
                                ext_functions={"_make_key": (182, []), "monotonic": (183, []),
                                               "_CacheEntry": (23, ["@value|0", "@expire|1"])},
                                containers={"self._cached"}),
            "gSyncMethod": Target("src/haiway/helpers/caching.py", "_SyncCache", "__method_call__", ["__method_self", "args", "kwargs"],
                                  {"_cached": 1, "_limit": 2},
                                  {("self", "_function"): (180, ["$args", "$kwargs"]), ("self", "_next_expire_time"): (181, [])},
                                  ext_functions={"_make_key": (182, []), "monotonic": (183, []),
                                                 "_CacheEntry": (23, ["@value|0", "@expire|1"])},
                                  containers={"self._cached"}),
            "gAsyncCall": Target("src/haiway/helpers/caching.py", "_AsyncCache", "__call__", ["args", "kwargs"], {"_cached": 1, "_limit": 2},
                                 {("self", "_function"): (190, ["$args", "$kwargs"]), ("self", "_next_expire_time"): (181, [])},
                                 ext_functions={"_make_key": (182, []), "monotonic": (183, []), "get_running_loop": (187, []),
                                                "shield": (185, ["@0"]), "_CacheEntry": (23, ["@value|0", "@expire|1"])},
                                 method_externals={"create_task": (184, ["$recv", "@0"])},
                                 containers={"self._cached"}),
            "gAsyncMethod": Target("src/haiway/helpers/caching.py", "_AsyncCache", "__method_call__", ["__method_self", "args", "kwargs"],
                                   {"_cached": 1, "_limit": 2},
                                   {("self", "_function"): (190, ["$args", "$kwargs"]), ("self", "_next_expire_time"): (181, [])},
                                   ext_functions={"_make_key": (182, []), "monotonic": (183, []), "get_running_loop": (187, []),
                                                  "shield": (185, ["@0"]), "_CacheEntry": (23, ["@value|0", "@expire|1"])},
                                   method_externals={"create_task": (184, ["$recv", "@0"])},
                                   containers={"self._cached"}),
        },
        "obligations": [
            ("sync_call_refines", ["gSyncCall"], "CallRefines gSyncCall", _CACHE_SCRIPT.replace("{DEF}", "gSyncCall").replace("{KD}", ".sync")
             .replace("{HOK}", " hok").replace("{HEOK}", "have heok : e.ok = true := hok e (List.mem_of_find?_eq_some hf)")),
            ("sync_method_refines", ["gSyncMethod"], "CallRefines gSyncMethod", _CACHE_SCRIPT.replace("{DEF}", "gSyncMethod").replace("{KD}", ".sync")
             .replace("{HOK}", " hok").replace("{HEOK}", "have heok : e.ok = true := hok e (List.mem_of_find?_eq_some hf)")),
            ("async_call_refines", ["gAsyncCall"], "AsyncCallRefines gAsyncCall", _CACHE_SCRIPT.replace("{DEF}", "gAsyncCall").replace("{KD}", ".async")
             .replace("{HOK}", "").replace("{HEOK}", "skip")),
            ("async_method_refines", ["gAsyncMethod"], "AsyncCallRefines gAsyncMethod", _CACHE_SCRIPT.replace("{DEF}", "gAsyncMethod").replace("{KD}", ".async")
             .replace("{HOK}", "").replace("{HEOK}", "skip")),
            ("sync_call_c12", ["gSyncCall"], "HistoryProps .sync false gSyncCall",
             "exact historyProps_of_step (stepRefines_sync sync_call_refines)"),
            ("sync_method_c12", ["gSyncMethod"], "HistoryProps .sync false gSyncMethod",
             "exact historyProps_of_step (stepRefines_sync sync_method_refines)"),
            ("async_call_c12", ["gAsyncCall"], "HistoryProps .async true gAsyncCall",
             "exact historyProps_of_step (stepRefines_async async_call_refines)"),
            ("async_method_c12", ["gAsyncMethod"], "HistoryProps .async true gAsyncMethod",
             "exact historyProps_of_step (stepRefines_async async_method_refines)"),
        ],
    },
    "throttle": {
        "import": "Haiway.Bridge.ThrottleEndToEnd", "open": "Haiway Haiway.MiniPy Haiway.Bridge.Throttle",
        "defs": {
            name: Target("src/haiway/helpers/throttling.py", "_AsyncThrottle", "__call__", ["args", "kwargs"],
                         {"_entries": 1, "_limit": 2, "_period": 3}, {("self", "_function"): (204, ["$args", "$kwargs"])},
                         ext_functions={"monotonic": (202, []), "sleep": (203, ["@0"])}, containers={"self._entries"},
                         with_externals={"self._lock": (200, 201)}, part="locked_loop." + part)
            for name, part in (("gPre", "pre"), ("gStep", "step"), ("gPost", "post"), ("gTail", "tail"))
        },
        "obligations": [
            ("throttle_pre", ["gPre"], "PreOK {gPre.time_now} gPre", "intro s; unfold gPre; throttle_eval"),
            ("throttle_tail", ["gTail"], "TailOK gTail", "intro s; unfold gTail\n  cases hf : s.world.fnOut <;> throttle_eval"),
            ("throttle_step", ["gStep"], "CleanStep {gStep.time_now} gStep",
             "intro s es P now h1 h3 hn\n  unfold gStep\n  cases es with\n"
             "  | nil => refine ⟨?_, ?_⟩ <;> throttle_eval\n"
             "  | cons e rest =>\n    by_cases hle : e + P ≤ now\n"
             "    · have hle' : ((e : Int) + (P : Int) ≤ (now : Int)) := by omega\n      refine ⟨?_, ?_⟩ <;> throttle_eval\n"
             "    · have hle' : ¬ ((e : Int) + (P : Int) ≤ (now : Int)) := by omega\n      refine ⟨?_, ?_⟩ <;> throttle_eval"),
            ("throttle_post", ["gPost"], "PostOK {gPost.time_now} gPost",
             "intro s es limit P now hl h1 h2 h3 hn hc\n  unfold gPost\n  by_cases hfull : limit ≤ es.length\n"
             "  · have hfull' : ((limit : Int) ≤ (es.length : Int)) := by omega\n    cases es with\n"
             "    | nil => simp at hfull; omega\n    | cons e rest =>\n"
             "      have hfull'' : ((limit : Int) ≤ (rest.length : Int) + 1) := by simp only [List.length_cons] at hfull; omega\n"
             "      have hfull3 : limit ≤ rest.length + 1 := by simpa using hfull\n"
             "      have hfull4 : ¬ (rest.length + 1 < limit) := by omega\n"
             "      have ht : ((e : Int) + (P : Int)).toNat = e + P := by omega\n"
             "      have hm : now + (e + P - now) = max now (e + P) := by omega\n      throttle_eval\n"
             "  · have hfull' : ¬ ((limit : Int) ≤ (es.length : Int)) := by omega\n    throttle_eval"),
            ("throttle_refines", ["gPre", "gStep", "gPost", "gTail"], "CriticalRefines (assemble gPre gStep gPost gTail)",
             "exact critical_of_parts throttle_pre throttle_step throttle_post throttle_tail"),
            ("throttle_c15", ["gPre", "gStep", "gPost", "gTail"], "ArrivalProps (assemble gPre gStep gPost gTail)",
             "exact arrivalProps_of_refines throttle_refines"),
        ],
    },
    "stateobj": {
        "import": "Haiway.Bridge.StateObj", "open": "Haiway.MiniPy Haiway.Bridge.StateObj",
        "defs": {
            "gSetattr": Target("src/haiway/state/structure.py", "State", "__setattr__", ["name", "value"], {}),
            "gDelattr": Target("src/haiway/state/structure.py", "State", "__delattr__", ["name"], {}),
            "gCopy": Target("src/haiway/state/structure.py", "State", "__copy__", [], {}),
            "gDeepcopy": Target("src/haiway/state/structure.py", "State", "__deepcopy__", ["memo"], {}),
            "gValidated": Target("src/haiway/state/structure.py", "StateAttribute", "validated", ["value"], {"default": 1},
                                 {("self", "validator"): (210, ["@0"])}, globals_={"MISSING": "(Val.obj 900)"}),
        },
        "obligations": [
            ("setattr_refused", ["gSetattr"], "Refuses gSetattr", "intro args fld w\n  unfold gSetattr\n  stateobj_eval"),
            ("delattr_refused", ["gDelattr"], "Refuses gDelattr", "intro args fld w\n  unfold gDelattr\n  stateobj_eval"),
            ("copy_is_self", ["gCopy"], "ReturnsSelf gCopy", "intro args fld w\n  unfold gCopy\n  stateobj_eval"),
            ("deepcopy_is_self", ["gDeepcopy"], "ReturnsSelf gDeepcopy", "intro args fld w\n  unfold gDeepcopy\n  stateobj_eval"),
            ("validated_once", ["gValidated"], "Validated gValidated",
             "intro v dflt validator\n  unfold gValidated\n"
             "  cases hs : v.same theMissing with\n  | false => cases hv : validator v <;> stateobj_eval\n"
             "  | true => cases hv : validator dflt <;> stateobj_eval"),
        ],
    },
    "stateinit": {
        "import": "Haiway.Bridge.StateInit", "open": "Haiway.MiniPy Haiway.Bridge.StateInit",
        "defs": {
            name: Target("src/haiway/state/structure.py", "State", "__init__", ["kwargs"], {},
                         {("object", "__setattr__"): (232, ["@1", "@2"])}, containers={"kwargs"},
                         method_externals={"validated": (231, ["$recv", "@0"])}, globals_={"MISSING": "(Val.obj 900)"},
                         expr_externals={"self.__ATTRIBUTES__.items()": (230, [])}, part="for." + part)
            for name, part in (("gInitBody", "body"), ("gInit", "whole"))
        },
        "obligations": [
            ("init_step", ["gInitBody"], "StepOK gInitBody {gInitBody.$loopvar}",
             "intro kw n a st hk ht\n  unfold gInitBody\n"
             "  rcases hv : st.world.validate a ((assocGet kw n).getD theMissing) with v | e <;> stateinit_eval"),
            ("init_refines", ["gInitBody", "gInit"], "InitRefines gInit",
             "exact init_of_step (body := gInitBody) rfl (by intro st; stateinit_eval) init_step (by decide)"),
        ],
    },
    "adopt": {
        "import": "Haiway.Bridge.Adopt", "open": "Haiway Haiway.MiniPy Haiway.Bridge.Adopt",
        "defs": {
            "gAdoptStep": Target("src/haiway/context/metrics.py", "ScopeMetrics", "__init__",
                                 ["trace_id", "scope", "logger", "parent", "completion"], {},
                                 {("parent._completed", "done"): (240, ["$parent"])}, obj_attrs={"_parent": 241, "_finished": 242}, part="while.step"),
        },
        "obligations": [
            ("adopt_step", ["gAdoptStep"], "AdoptStep gAdoptStep {gAdoptStep.parent}",
             "intro p st hp\n  unfold gAdoptStep\n  cases p with\n  | none => adopt_eval\n"
             "  | some q => cases hc : st.world.completed q <;> adopt_eval"),
            ("adopt_refines", ["gAdoptStep"], "AdoptRefines gAdoptStep {gAdoptStep.parent}", "exact adopt_of_step adopt_step"),
        ],
    },
    "wrap": {
        "import": "Haiway.Bridge.Wrap", "open": "Haiway.MiniPy Haiway.Bridge.Wrap",
        "defs": {
            name: Target("src/haiway/helpers/asynchrony.py", "_ExecutorWrapper", meth, params,
                         {"_function": 0, "_loop": 1, "_executor": 2}, {},
                         ext_functions={"copy_context": (163, []), "get_running_loop": (252, []), "partial": (250, ["*all"])},
                         obj_attrs={"run": 251}, method_externals={"run_in_executor": (253, ["$recv", "@0", "@1", "@2"])})
            for name, meth, params in (("gExecCall", "__call__", ["args", "kwargs"]),
                                       ("gExecMethodCall", "__method_call__", ["__method_self", "args", "kwargs"]))
        },
        "obligations": [
            ("executor_call_wires", ["gExecCall"], "CallWires gExecCall none",
             "intro fn loopField executor kwargs args w hl hlf\n  unfold gExecCall\n"
             "  rcases hlf with rfl | ⟨k, rfl⟩ <;> cases ho : w.outcome <;> wrap_eval"),
            ("executor_method_call_wires", ["gExecMethodCall"], "∀ recv, CallWires gExecMethodCall (some recv)",
             "intro recv fn loopField executor kwargs args w hl hlf\n  unfold gExecMethodCall\n"
             "  rcases hlf with rfl | ⟨k, rfl⟩ <;> cases ho : w.outcome <;> wrap_eval"),
        ],
    },
    "logscope": {
        "import": "Haiway.Bridge.LogScope", "open": "Haiway.MiniPy Haiway.Bridge.LogScope",
        "defs": {
            "gMetricsScope": Target("src/haiway/context/metrics.py", "MetricsContext", "scope", ["name", "trace_id", "logger", "completion"], {},
                                    {("cls._context", "get"): (102, [])},
                                    ext_functions={"ScopeMetrics": (260, ["@trace_id", "@scope", "@logger", "@parent", "@completion"]),
                                                   "cls": (263, ["@0"])},
                                    obj_attrs={"trace_id": 261, "_logger": 262}),
        },
        "obligations": [
            ("scope_inherits", ["gMetricsScope"], "ScopeInherits gMetricsScope",
             "intro name traceId logger completion w hb hw\n  unfold gMetricsScope\n"
             "  cases hv : w.var <;> by_cases ht : traceId.truthy = true <;> by_cases hl : logger.truthy = true <;> logscope_eval"),
        ],
    },
    "dispexit": {
        "import": "Haiway.Bridge.DispExit", "open": "Haiway.MiniPy Haiway.Bridge.DispExit",
        "defs": {
            "gDispExit": Target("src/haiway/context/disposables.py", "Disposables", "__aexit__", ["exc_type", "exc_val", "exc_tb"], {},
                                ext_functions={"BaseExceptionGroup": (271, ["@1"])},
                                expr_externals={"gather(*[disposable.__aexit__(exc_type, exc_val, exc_tb) for disposable in "
                                                "self._disposables], return_exceptions=True)": (270, [])}),
            # the rollback of a failed / interrupted enter: the same handling of the gathered results (`raise … from exception`: the
            # cause is not part of the interpreter's exceptions – C08's monitor checks reachability of the errors dynamically)
            "gDispose": Target("src/haiway/context/disposables.py", "Disposables", "_dispose", ["disposables", "exception"], {},
                               ext_functions={"BaseExceptionGroup": (271, ["@1"])},
                               expr_externals={"gather(*[disposable.__aexit__(type(exception), exception, exception.__traceback__) "
                                               "for disposable in disposables], return_exceptions=True)": (270, [])}),
        },
        "obligations": [
            ("exit_errors_surface", ["gDispExit"], "ExitSurfaces gDispExit",
             "intro excType excVal excTb w hg\n  unfold gDispExit\n"
             "  cases h : excsExcept w.results excVal with\n"
             "  | nil => dispexit_eval\n"
             "  | cons e rest =>\n"
             "    obtain ⟨c, n, rfl⟩ := head_is_exc h\n"
             "    cases rest with\n"
             "    | nil => dispexit_eval\n"
             "    | cons e2 rest2 => dispexit_eval"),
            ("rollback_errors_surface", ["gDispose"], "ExitSurfaces gDispose",
             "intro excType excVal excTb w hg\n  unfold gDispose\n"
             "  cases h : excsExcept w.results excVal with\n"
             "  | nil => dispexit_eval\n"
             "  | cons e rest =>\n"
             "    obtain ⟨c, n, rfl⟩ := head_is_exc h\n"
             "    cases rest with\n"
             "    | nil => dispexit_eval\n"
             "    | cons e2 rest2 => dispexit_eval"),
        ],
    },
    "cancel": {
        "import": "Haiway.Bridge.Cancel", "open": "Haiway.MiniPy Haiway.Bridge.Cancel",
        "defs": {
            name: Target("src/haiway/context/access.py", "ctx", meth, [], {}, {},
                         ext_functions={"current_task": (280, [])},
                         method_externals={"cancelling": (281, ["$recv"]), "cancel": (282, ["$recv"]),
                                           "cancelled": (283, ["$recv"]), "uncancel": (284, ["$recv"])})
            for name, meth in (("gCheckCancellation", "check_cancellation"), ("gCancel", "cancel"))
        },
        "obligations": [
            ("check_reports", ["gCheckCancellation"], "CheckReports gCheckCancellation",
             "intro w loc fld hl\n  unfold gCheckCancellation\n"
             "  cases ht : w.task with\n  | none => cancel_eval\n"
             "  | some t =>\n    by_cases hc : w.cancelling > 0\n"
             "    · have := pos_cast hc; cancel_eval\n"
             "    · have h0 : w.cancelling = 0 := by omega\n      cancel_eval"),
            ("cancel_asks", ["gCancel"], "CancelAsks gCancel",
             "intro w loc fld hl\n  unfold gCancel\n  cases ht : w.task <;> cancel_eval"),
        ],
    },
    "completion": {
        "import": "Haiway.Bridge.Completion", "open": "Haiway.MiniPy Haiway.Bridge.Completion",
        "defs": {
            name: Target("src/haiway/context/metrics.py", "ScopeMetrics", meth, [], {"_finished": 1, "_parent": 2, "_timestamp": 3},
                         {("self._completed", "done"): (220, []), ("self._completed", "set_result"): (221, ["@0"])},
                         ext_functions={"monotonic": (222, [])}, method_externals={"_complete_if_able": (225, ["$recv"])},
                         inline_self={"_complete_if_able"},
                         expr_externals={"any((not nested.is_completed for nested in self._nested))": (223, [])})
            for name, meth in (("gCompleteIfAble", "_complete_if_able"), ("gFinish", "_finish"))
        },
        "obligations": [
            ("complete_if_able_one_level", ["gCompleteIfAble"], "CompleteIfAble gCompleteIfAble",
             "intro finished done nestedOpen now created parent args\n  unfold gCompleteIfAble\n"
             "  cases finished <;> cases done <;> cases nestedOpen <;> cases parent <;> completion_eval"),
            ("finish_one_level", ["gFinish"], "Finish gFinish",
             "intro finished done nestedOpen now created parent args\n  unfold gFinish\n"
             "  cases finished <;> cases done <;> cases nestedOpen <;> cases parent <;> completion_eval"),
        ],
    },
    "timeout": {
        "import": "Haiway.Bridge.Timeout", "open": "Haiway Haiway.MiniPy Haiway.Bridge.Timeout",
        "defs": {
            **{name: Target("src/haiway/helpers/timeouted.py", "_AsyncTimeout", "__call__." + fn, params, {}, _TIMEOUT_FX, closure=clo)
               for name, fn, params, clo in (("gOnTimeout", "on_timeout", ["future"], []),
                                             ("gOnCompletion", "on_completion", ["task"], ["future", "timeout_handle"]),
                                             ("gOnResult", "on_result", ["future"], ["task"]))},
            "gCall": Target("src/haiway/helpers/timeouted.py", "_AsyncTimeout", "__call__", ["args", "kwargs"], {"_timeout": 1},
                            {("self", "_function"): (250, ["$args", "$kwargs"]), ("loop", "create_future"): (251, []),
                             ("loop", "create_task"): (252, ["@0"]), ("loop", "call_later"): (253, ["@0", "@1", "@2"]),
                             ("task", "add_done_callback"): (254, ["$task", "@0"]),
                             ("future", "add_done_callback"): (255, ["$future", "@0"])},
                            ext_functions={"get_running_loop": (256, [])}, await_ext=257,
                            nested_ids={"on_timeout": 3001, "on_completion": 3002, "on_result": 3003}),
        },
        "obligations": [
            ("on_completion_is_run_completion", ["gOnCompletion"], "OnCompletion gOnCompletion",
             "intro s args hq hr hk\n  unfold gOnCompletion\n"
             "  obtain ⟨kind, ig, fut, tsk, tmr, qC, qR, caller, first, cc⟩ := s\n  simp only at hq hr hk\n  subst hq\n"
             "  cases tsk with\n  | running c i => exact absurd rfl (hr c i)\n"
             "  | doneOwn => cases kind <;> (first | exact absurd rfl (hk rfl) | (cases fut <;> cases tmr <;> timeout_eval))\n"
             "  | doneCancelled => cases kind <;> cases fut <;> cases tmr <;> timeout_eval"),
            ("on_timeout_is_timer_fires", ["gOnTimeout"], "OnTimeout gOnTimeout",
             "intro s args ht\n  unfold gOnTimeout\n"
             "  obtain ⟨kind, ig, fut, tsk, tmr, qC, qR, caller, first, cc⟩ := s\n  simp only at ht\n  subst ht\n"
             "  cases fut <;> timeout_eval"),
            ("on_result_is_run_result", ["gOnResult"], "OnResult gOnResult",
             "intro s args hq\n  unfold gOnResult\n"
             "  obtain ⟨kind, ig, fut, tsk, tmr, qC, qR, caller, first, cc⟩ := s\n  simp only at hq\n  subst hq\n"
             "  cases tsk <;> timeout_eval"),
            ("call_wires_callbacks", ["gCall"], "CallWires gCall", "intro s args timeout\n  unfold gCall\n  timeout_eval"),
        ],
    },
    "queue": {
        "import": "Haiway.Bridge.Queue", "open": "Haiway.MiniPy Haiway.Bridge.Queue",
        "defs": {
            "gEnqueue": Target("src/haiway/utils/queue.py", "AsyncQueue", "enqueue", ["element", "elements"], _QF, _QX,
                               containers={"self._queue"}, await_ext=117, method_externals=_QM),
            "gFinish": Target("src/haiway/utils/queue.py", "AsyncQueue", "finish", ["exception"], _QF, _QX,
                              containers={"self._queue"}, await_ext=117, method_externals=_QM),
            "gCancel": Target("src/haiway/utils/queue.py", "AsyncQueue", "cancel", [], _QF, _QX,
                              containers={"self._queue"}, await_ext=117, method_externals=_QM),
            "gNext": Target("src/haiway/utils/queue.py", "AsyncQueue", "__anext__", [], _QF, _QX,
                            containers={"self._queue"}, await_ext=117, method_externals=_QM),
        },
        "obligations": [
            ("enqueue_refines", ["gEnqueue"], "EnqueueRefines gEnqueue",
             "intro emb buf waiting reason e es w\n  unfold gEnqueue\n"
             "  rcases reason with _ | (_|_|_) <;> rcases waiting with _ | (_|_|_|_) <;> queue_eval"),
            ("finish_refines", ["gFinish"], "FinishRefines gFinish",
             "intro emb buf waiting reason given w\n  unfold gFinish\n"
             "  rcases reason with _ | (_|_|_) <;> rcases waiting with _ | (_|_|_|_) <;> rcases given with _ | (_|_|_) <;> queue_eval"),
            ("cancel_refines", ["gCancel"], "CancelRefines gCancel",
             "intro emb buf waiting reason args w\n  unfold gCancel\n"
             "  rcases reason with _ | (_|_|_) <;> rcases waiting with _ | (_|_|_|_) <;> queue_eval"),
            ("next_immediate", ["gNext"], "NextImmediate gNext",
             "unfold gNext\n  refine ⟨?_, ?_, ?_⟩\n  · intro emb e rest reason args w\n    rcases reason with _ | (_|_|_) <;> queue_eval\n"
             "  · intro emb x args w\n    rcases x with _|_|_ <;> queue_eval\n"
             "  · intro emb buf wt reason args w\n    rcases reason with _ | (_|_|_) <;> rcases wt with _|_|_|_ <;> queue_eval"),
            ("next_suspending", ["gNext"], "NextSuspending gNext",
             "intro emb after cd later args w0 h\n  unfold gNext\n"
             "  rcases after with _|_|(_|_|_)|_ <;> rcases cd with _|_ <;> first | (exact absurd (h rfl) (by decide)) | queue_eval"),
        ],
    },
}


def lean_text(group: str, repo: Path) -> tuple[str, dict[str, str], list[tuple[str, str]]]:
    """-> (Lean source, {def name: 'ok' | reason it was not translated}, [(obligation, 'skipped: …')])"""
    g = GROUPS[group]
    lines = [f"import {g['import']}", "set_option maxHeartbeats 1000000",
             f"/-! GENERATED from the repository's current source by harness/regen.py (group `{group}`); not committed. -/",
             f"open {g['open']}", "namespace Haiway.Regenerated"]
    status: dict[str, str] = {}
    numbering: dict[str, dict[str, int]] = {}

    def fill(text: str) -> str:
        # `{def.local}` -> the number the translator gave that local in that definition
        return re.sub(r"\{(\w+)\.([$\w]+)\}", lambda m: str(numbering[m.group(1)][m.group(2)]), text)

    for name, t in g["defs"].items():
        try:
            term, locs = translate(repo, t)
            sig = "(fuel : Nat) : Stmt" if "Stmt.loop fuel" in term else ": Stmt"
            lines.append(f"/-- `{t.cls}.{t.method}` of {t.file}; locals {locs} -/\ndef {name} {sig} := {term}")
            status[name] = "ok"
            numbering[name] = locs
        except (Unrecognised, OSError, SyntaxError) as exc:
            status[name] = f"{type(exc).__name__}: {exc}"
    skipped = []
    names = []
    for ob, needs, stmt, script in g["obligations"]:
        bad = [n for n in needs if status.get(n) != "ok"]
        if bad:
            skipped.append((ob, "; ".join(f"{n}: {status[n]}" for n in bad)))
            continue
        lines.append(f"theorem {ob} : {fill(stmt)} := by\n  {fill(script)}")
        names.append(ob)
    lines.append("end Haiway.Regenerated")
    lines += [f"#print axioms Haiway.Regenerated.{n}" for n in names]
    return "\n".join(lines) + "\n", status, skipped


def _deps_hash(lean_dir: Path, module: str) -> str:
    h = hashlib.sha1()
    todo, seen = [module], set()
    while todo:
        m = todo.pop()
        if m in seen:
            continue
        seen.add(m)
        p = lean_dir / (m.replace(".", "/") + ".lean")
        if not p.exists():
            continue
        txt = p.read_text()
        h.update(txt.encode())
        todo += re.findall(r"^import\s+(\S+)", txt, flags=re.M)
    return h.hexdigest()


def check(group: str, repo: Path, lean_dir: Path) -> list[dict]:
    """-> [{name, status: ok|broken|skipped, note, detail}] for the obligations of the group"""
    src, _status, skipped = lean_text(group, repo)
    out = [{"name": f"Haiway.Regenerated.{ob}", "status": "skipped", "note": f"{group}: outside the translated subset – {why}"[:400]}
           for ob, why in skipped]
    names = re.findall(r"^theorem (\w+)", src, flags=re.M)
    if not names:
        return out
    tmp = lean_dir / ".lake" / "generated"
    tmp.mkdir(parents=True, exist_ok=True)
    # the committed bridge module must build: its failure is our own machinery's, never a verdict about the repository
    from harness import core
    core.lean_build([GROUPS[group]["import"]])
    key = hashlib.sha1((src + _deps_hash(lean_dir, GROUPS[group]["import"])).encode()).hexdigest()
    cache_file = tmp / f"regen_{group}.json"
    cached = None
    if not os.environ.get("VERIF_NO_REGEN_CACHE"):
        try:
            c = json.loads(cache_file.read_text())
            if c.get("key") == key:
                cached = c["result"]
        except (OSError, ValueError, KeyError):
            cached = None
    if cached is None:
        f = tmp / f"Regen_{group}_{os.getpid()}.lean"
        f.write_text(src)
        try:
            r = subprocess.run(["lake", "env", "lean", str(f)], cwd=lean_dir, capture_output=True, text=True, timeout=1500)
        finally:
            f.unlink(missing_ok=True)
        text = r.stdout + r.stderr
        lines = src.splitlines()
        failed: dict[str, str] = {}
        for m in re.finditer(r":(\d+):\d+: error:?(.*)", text):
            ln = int(m.group(1))
            for i in range(min(ln, len(lines)) - 1, -1, -1):
                mm = re.match(r"theorem (\w+)", lines[i])
                if mm:
                    failed.setdefault(mm.group(1), m.group(2).strip()[:200])
                    break
        axioms = {}
        flat = text.replace("\n  ", " ").replace("\n ", " ")
        for m in re.finditer(r"'Haiway\.Regenerated\.(\w+)' depends on axioms: \[([^\]]*)\]", flat):
            axioms[m.group(1)] = [a.strip() for a in m.group(2).split(",") if a.strip()]
        for m in re.finditer(r"'Haiway\.Regenerated\.(\w+)' does not depend on any axioms", flat):
            axioms[m.group(1)] = []
        cached = {"rc": r.returncode, "failed": failed, "axioms": axioms, "tail": text[-1500:] if r.returncode else ""}
        try:
            cache_file.write_text(json.dumps({"key": key, "result": cached}))
        except OSError:
            pass
    for n in names:
        ax = cached["axioms"].get(n)
        if n in cached["failed"] or (cached["rc"] != 0 and ax is None):
            out.append({"name": f"Haiway.Regenerated.{n}", "status": "broken", "note": f"regenerated ({group})",
                        "detail": cached["failed"].get(n, "") + " | " + cached["tail"][-600:]})
        elif ax is not None and not set(ax) <= ALLOWED:
            out.append({"name": f"Haiway.Regenerated.{n}", "status": "broken", "note": f"inadmissible axioms {ax}", "detail": ""})
        else:
            out.append({"name": f"Haiway.Regenerated.{n}", "status": "ok", "note": f"regenerated ({group}) from the current source"})
    return out


if __name__ == "__main__":
    import sys

    repo = Path(os.environ.get("HAIWAY_REPO", "/repo"))
    lean = Path(__file__).resolve().parent.parent / "lean"
    for grp in [a for a in sys.argv[1:] if not a.startswith("--")] or list(GROUPS):
        if "--print" in sys.argv:
            print(lean_text(grp, repo)[0])
            continue
        for e in check(grp, repo, lean):
            print(grp, e["status"], e["name"], (e.get("note") or "")[:100], (e.get("detail") or "")[:200] if e["status"] == "broken" else "")
