"""Scope-program runner: random multi-task programs over ctx.scope / ctx.updated / disposables / ctx.spawn /
gates / exceptions / cancellation, executed on the real haiway under the virtual loop with an explicit external
schedule; every harness-visible event is logged in execution order (the observed linearisation).

Used by C02, C06, C07, C08 (each projects the same log onto its own Lean model and evaluates its own monitor).

Program (JSON, one line):  {"prog": [stmt...], "sched": [int...], "wrap": bool}
 stmt ::= ["probe", n] | ["await", g] | ["awaitx", g] | ["raise", "exc"|"base"] | ["try", [stmt...]]
        | ["spawn", c, "spawn"|"create"|"factory", [stmt...]] | ["check"] | ["cancelself"]
          ("factory": `ctx.spawn(f)` where f is a plain callable that raises KeyError the first time it is called and
          returns the task's coroutine the second time – the spawn fails (event spawnerr), nothing may be started)
        | ["block", "async"|"sync"|"upd", b, [[ty, tag]...], [disp...], [stmt...]]
        | ["dprobe", n]    lookups with an explicit default (`ctx.state(T, default=X)`) for every type of the family
        | ["reenter", b]   the scope / update object of block b, which this task (or another one) has already left or is still inside, is used for a second
                           `with` (events repre / reentered / refail / repost): refused or not, the surrounding context
                           must be what it was; `["reenter", b, g]`: a second use of a sync scope / update object waits on gate g inside
        | ["hold", b]      the scope object of the (async/sync) block b is constructed *here* (`cm = ctx.scope(...)`) and only
                           entered where the block statement stands – later in the same task, possibly in another context
 disp ::= [d, enterScript, exitScript, [[ty, tag]...]]      script ::= "ok" | "raise" | ["wait", g] | "swallow" | "reraise"
          ("swallow": exit script only – `__aexit__` returns True, asking to suppress the body's exception; a scope's
          disposables have no such say: the exception still reaches the caller)
          an entry [-1, 0] among the yields = the iterable handed back by __aenter__ raises at that point of its iteration
 sched: at every step the options are the pending gates (sorted) followed by the live tasks (cancel); the next
        int (mod number of options) picks one; when the list is exhausted the remaining gates are released in order.

Event tokens (space separated, fields separated by '|'):
 X|rel|g   X|cancel|t
 t|start   t|end|OUT                       OUT ::= ok | Boom | BaseBoom | Cancelled | <other class name>
 t|pre|b|FP   t|post|b|FP                  FP ::= <A>,<B>,<R>/<scope label>/<group block>
 t|enter|b    t|bodyend|b|OUT|pending    t|left|b|OUT|same|alive+alive…   (same: caller's exception is the body's
              object; pending: 1 iff a cancellation request is still undelivered to the task when the body ends)
 t|probe|n|FP   t|await|g   t|resume|g|ok/cancelled   t|raise|kind   t|tryok   t|caught|OUT
 t|spawn|c|how   t|spawnfail|c   t|check|raised(0/1)|asked(0/1)   t|cancelself
 t|den|d   t|dened|d|OUT   t|dex|d|EXCARG   t|dexed|d|OUT
"""
from __future__ import annotations

import asyncio
import json
import logging

from harness import vloop

FAMILY_TAGS = ["A", "B", "R"]
_F = None


def family():
    global _F
    if _F is None:
        from harness.state_family import T0, T1, T2

        _F = [T0, T1, T2]  # two default-constructible, one with a required attribute
    return _F


# `dexcall` events (an `__aexit__` was CALLED, as opposed to its coroutine's first step `dex`) are emitted only for the check that
# reads them (C08); every other consumer of the event log sees the log as it always was
DEXCALL = False

class Boom(Exception):
    pass


class BaseBoom(BaseException):
    pass


def reach_tags(e: BaseException | None) -> str:
    """tags (`den<d>`, `dex<d>`, `yield<d>`, `body`) of the harness's own exceptions that can be reached from `e` through
    exception-group members, `__cause__` and `__context__`: what "reaches the caller" of a block"""
    seen, todo, tags = [], [e], set()
    while todo:
        x = todo.pop()
        if x is None or any(x is y for y in seen):
            continue
        seen.append(x)
        if isinstance(x, (Boom, BaseBoom)) and x.args and isinstance(x.args[0], str):
            tags.add(x.args[0])
        todo += [x.__cause__, x.__context__, *getattr(x, "exceptions", ())]
    return "+".join(sorted(tags)) or "-"


def out_name(e: BaseException | None) -> str:
    if e is None:
        return "ok"
    if isinstance(e, asyncio.CancelledError):
        return "Cancelled"
    if isinstance(e, BaseExceptionGroup):
        return f"Group{len(e.exceptions)}"
    return type(e).__name__


# ------------------------------------------------------------------------------------------------
# generator

def gen_program(rng, depth, ids, allow_spawn=True, p_disp=0.5, p_raise=0.07, p_fault=0.4):
    stmts = []
    for _ in range(rng.randint(1, 3)):
        r = rng.random()
        if r < 0.22 or depth == 0:
            ids["probe"] += 1
            stmts.append(["probe", ids["probe"]])
        elif r < 0.38:
            ids["gate"] += 1
            stmts.append(["awaitx" if rng.random() < 0.12 else "await", ids["gate"]])
        elif r < 0.38 + p_raise:
            stmts.append(["raise", rng.choice(["exc", "exc", "base"])])
        elif r < 0.50:
            stmts.append(["try", gen_program(rng, depth - 1, ids, allow_spawn, p_disp, p_raise, p_fault)])
        elif r < 0.515 and ids["block"] > 0:
            st_ = ["reenter", rng.randint(1, ids["block"])]
            if rng.random() < 0.3:
                ids["gate"] += 1
                st_.append(ids["gate"])      # the second use waits inside (overlapping, not nested, use of one object)
            stmts.append(st_)
        elif r < 0.525:
            ids["probe"] += 1
            stmts.append(["dprobe", ids["probe"]])
        elif r < 0.54:
            stmts.append(["check"])
        elif r < 0.56:
            stmts.append(["cancelself"])
        elif r < 0.72 and allow_spawn and ids["task"] < 4:
            ids["task"] += 1
            c = ids["task"]
            stmts.append(["spawn", c, rng.choice(["spawn", "spawn", "create"]),
                          gen_program(rng, depth - 1, ids, rng.random() < 0.4, p_disp, p_raise, p_fault)])
        else:
            ids["block"] += 1
            b = ids["block"]
            sup = []
            for _ in range(rng.randint(0, 2)):
                ids["inst"] += 1
                sup.append([rng.randrange(3), ids["inst"]])
            kind = rng.choice(["async", "async", "sync", "upd"])
            disps = []
            if kind == "async" and rng.random() < p_disp:
                for _ in range(rng.randint(1, 3)):
                    ids["disp"] += 1

                    def script():
                        r2 = rng.random()
                        if r2 > p_fault:
                            return "ok"
                        if r2 < p_fault / 2:
                            return "raise"
                        ids["gate"] += 1
                        return ["wait", ids["gate"]]

                    ys = []
                    for _ in range(rng.randint(0, 2)):
                        ids["inst"] += 1
                        ys.append([rng.randrange(3), ids["inst"]])
                    if rng.random() < 0.06:
                        ys.insert(rng.randint(0, len(ys)), [-1, 0])   # the yielded iterable raises part-way
                    ex_script = script()
                    if ex_script == "ok" and rng.random() < 0.16:
                        ex_script = rng.choice(["swallow", "reraise"])
                    disps.append([ids["disp"], script(), ex_script, ys])
            stmts.append(["block", kind, b, sup, disps, gen_program(rng, depth - 1, ids, allow_spawn, p_disp, p_raise, p_fault)])
    return stmts


def hoist_constructions(rng, prog, p=0.12):
    """for some async/sync blocks, construct the scope object at an earlier point of the same task (`hold`)"""
    inserts = []   # (list object, statement before which to insert, hold statement)

    def walk(stmts, points):
        for st in stmts:
            points.append((stmts, st))
            if st[0] == "block":
                if st[1] in ("async", "sync") and rng.random() < p:
                    lst, before = points[rng.randrange(len(points))]
                    inserts.append((lst, before, ["hold", st[2]]))
                walk(st[5], points)
            elif st[0] == "try":
                walk(st[1], points)
            elif st[0] == "spawn":
                walk(st[3], [])    # another task: its own construction points

    walk(prog, [])
    for lst, before, hold in inserts:
        i = next(k for k, x in enumerate(lst) if x is before)
        lst.insert(i, hold)
    return prog


def gen_case(rng, depth=3, p_disp=0.5, p_raise=0.07, p_fault=0.4, p_cancel=0.2, wrap=0.85) -> str:
    import collections

    ids = collections.Counter()
    prog = gen_program(rng, depth, ids, True, p_disp, p_raise, p_fault)
    if rng.random() < wrap:
        ids["block"] += 1
        prog = [["block", "async", ids["block"], [[0, 9000]], [], prog]]
    if rng.random() < 0.35:
        prog = hoist_constructions(rng, prog)
    n = rng.randint(0, 14)
    sched = []
    for _ in range(n):
        # small ints pick gates (listed first), large ones reach the cancel options
        sched.append(rng.randrange(0, 3) if rng.random() > p_cancel else rng.randrange(50, 60))
    return json.dumps({"prog": prog, "sched": sched}, separators=(",", ":"))


# ------------------------------------------------------------------------------------------------
# runner

class _Capture(logging.Handler):
    def __init__(self):
        super().__init__(level=logging.DEBUG)
        self.last = None

    def emit(self, record):
        try:
            self.last = record.getMessage()
        except Exception:  # noqa: BLE001
            self.last = None


class Run:
    def __init__(self):
        from haiway import MissingContext, MissingState, ctx

        self.ctx, self.MissingContext, self.MissingState = ctx, MissingContext, MissingState
        self.loop = vloop.new_loop()
        self.log: list[str] = []
        self.gates: dict[int, asyncio.Future] = {}
        self.tasks: dict[int, asyncio.Task] = {}
        self.group_block: dict[int, int] = {}
        self.asked: set[int] = set()   # tasks on which cancel() was called by the harness or by themselves
        self.keep: list = []
        self.held: dict[int, object] = {}   # block -> scope object constructed ahead of its `with` (stmt `hold`)
        self.used: dict[tuple, object] = {}  # (task, block) -> scope / update object the task has left (stmt `reenter`)
        self.blocks: dict[int, list] = {}
        self.cap = _Capture()
        self.root = logging.getLogger()
        self.old_level = self.root.level
        self.root.setLevel(logging.INFO)
        self.root.addHandler(self.cap)
        try:
            from haiway.context.tasks import TaskGroupContext

            self._gvar = TaskGroupContext._context  # peek only; a rename degrades the fingerprint, never alarms
        except Exception:  # noqa: BLE001
            self._gvar = None

    def close(self):
        self.root.removeHandler(self.cap)
        self.root.setLevel(self.old_level)
        vloop.close_loop(self.loop)

    def ev(self, *fields):
        self.log.append("|".join(str(f) for f in fields))

    def gate(self, g):
        if g not in self.gates:
            self.gates[g] = self.loop.create_future()
        return self.gates[g]

    def fingerprint(self) -> str:
        vals = []
        for i, T in enumerate(family()):
            try:
                o = self.ctx.state(T)
                vals.append(str(o.v) if o.v != 0 else "dflt")
            except self.MissingState:
                vals.append("MS")
            except self.MissingContext:
                vals.append("MC")
            except BaseException as e:  # noqa: BLE001
                vals.append("X" + type(e).__name__)
        self.cap.last = None
        label = "-"
        try:
            self.ctx.log_info("fp")
            msg = self.cap.last
            if msg and msg.startswith("["):
                parts = msg.split("] [")
                if len(parts) >= 3:
                    label = parts[1]
        except BaseException:  # noqa: BLE001
            label = "Xlog"
        grp = "?"
        if self._gvar is not None:
            try:
                grp = str(self.group_block.get(id(self._gvar.get()), "u"))
            except LookupError:
                grp = "-"
        return f"{','.join(vals)}/{label}/{grp}"

    @staticmethod
    def pending_cancel() -> int:
        """1 iff Task.cancel() was called on the current task and the CancelledError has not been thrown into it yet
        (asyncio's own `_must_cancel` flag: the request landed while the task was runnable, or it cancelled itself)"""
        task = asyncio.current_task()
        return 1 if task is not None and getattr(task, "_must_cancel", False) else 0

    def note_group(self, b):
        if self._gvar is not None:
            try:
                g = self._gvar.get()
                self.group_block[id(g)] = b
                self.keep.append(g)
            except LookupError:
                pass

    def scope_kwargs(self, t, b) -> dict:
        """`logger=` for the scopes listed under `badlog`: a logger whose `log` raises when the scope's "...finished" line is
        written (a handler / filter that fails, a closed stream): leaving the block fails *after* the metrics scope was reset –
        the rest of the context must be restored all the same"""
        if b not in getattr(self, "badlog", ()):
            return {}
        run = self

        class Bad(logging.Logger):
            def log(self_, level, msg, *args, **kwargs):  # noqa: N805
                if "finished" in str(msg):
                    # nested scopes inherit the logger: the line says which scope is being finished (`[trace] [b<id>] [ident]`)
                    import re
                    m_ = re.search(r"\[b(\d+)\]", str(msg))
                    which = int(m_.group(1)) if m_ else b
                    run.ev(run.current_tid(t), "logfail", which)
                    raise Boom(f"log{which}")

        return {"logger": Bad(f"bad{b}")}

    def current_tid(self, default):
        """the harness number of the task that is running right now (a logger is shared by the tasks below its scope)"""
        cur = asyncio.current_task(self.loop) if self.loop.is_running() else None
        for c, tk in self.tasks.items():
            if tk is cur:
                return c
        return default

    def make_disp(self, t, spec):
        run = self
        did, en, ex, ys = spec
        F = family()

        class D:
            # value semantics like a dataclass-based context manager: distinct doubles with the same scripts are
            # == and hash-equal (a library must tell disposables apart by identity, never by equality)
            key = (repr(en), repr(ex), len(ys))

            def __eq__(s, other):
                return getattr(other, "key", None) == s.key

            def __hash__(s):
                return hash(s.key)

            async def __aenter__(s):
                run.ev(t, "den", did)
                try:
                    if en == "raise":
                        raise Boom(f"den{did}")
                    if isinstance(en, list):
                        await run.gate(en[1])
                except BaseException as e:
                    run.ev(t, "dened", did, out_name(e))
                    raise
                run.ev(t, "dened", did, "ok")
                if any(i < 0 for i, _tag in ys):
                    def faulty():
                        for i, tag in ys:
                            if i < 0:
                                run.ev(t, "yraise", did)
                                raise Boom(f"yield{did}")
                            yield F[i](v=tag)
                    return faulty()
                states = [F[i](v=tag) for i, tag in ys]
                if states and did % 3 == 0:
                    # a one-shot iterable (generator / iterator / map object): it can be traversed exactly once
                    return iter(states) if did % 2 else (s_ for s_ in states)
                return states if len(states) != 1 else states[0]

            def __aexit__(s, et, ev, tb):
                # a plain function handing back the coroutine: the CALL (the exit was asked for – `gather` built its list) and the
                # first step of the coroutine (`dex`) are two events; "called, never started" is asyncio cancelling the wrapping
                # task before its first step
                if DEXCALL:
                    run.ev(t, "dexcall", did)
                return s._aexit(et, ev, tb)

            async def _aexit(s, et, ev, tb):
                run.ev(t, "dex", did, out_name(ev) if et is not None else "None")
                if ex == "reraise" and ev is not None and not isinstance(ev, asyncio.CancelledError):
                    # (a re-raised CancelledError would come back from `gather` as a new object: asyncio's business)
                    # a class-based manager that re-raises what it was handed: not a cleanup failure – the body's exception
                    # goes on to the caller as that object (several such disposables must not turn it into a group of itself)
                    run.ev(t, "dexed", did, "ok")
                    raise ev
                try:
                    if ex == "raise":
                        raise Boom(f"dex{did}")
                    if isinstance(ex, list):
                        await run.gate(ex[1])
                except BaseException as e:
                    run.ev(t, "dexed", did, out_name(e))
                    raise
                run.ev(t, "dexed", did, "ok")
                if ex == "swallow":
                    return True

        return D()

    def alive(self):
        return "+".join(str(c) for c, tk in sorted(self.tasks.items()) if not tk.done()) or "-"

    async def exec(self, t, stmts):
        ctx = self.ctx
        F = family()
        for st in stmts:
            k = st[0]
            if k == "probe":
                self.ev(t, "probe", st[1], self.fingerprint())
            elif k in ("await", "awaitx"):
                self.ev(t, "await", st[1])
                try:
                    await self.gate(st[1])
                except asyncio.CancelledError:
                    self.ev(t, "resume", st[1], "cancelled")
                    if k == "awaitx":
                        self.ev(t, "raise", "exc")
                        raise Boom("while-cancelled") from None
                    raise
                self.ev(t, "resume", st[1], "ok")
            elif k == "raise":
                self.ev(t, "raise", st[1])
                raise (Boom("body") if st[1] == "exc" else BaseBoom("body"))
            elif k == "try":
                try:
                    await self.exec(t, st[1])
                    self.ev(t, "tryok")
                except BaseException as e:  # noqa: BLE001
                    self.ev(t, "caught", out_name(e))
            elif k == "check":
                task = asyncio.current_task()
                asked = 1 if t in self.asked else 0
                try:
                    ctx.check_cancellation()
                    self.ev(t, "check", 0, asked)
                except asyncio.CancelledError:
                    self.ev(t, "check", 1, asked)
                    raise
                del task
            elif k == "cancelself":
                self.asked.add(t)
                self.ev(t, "cancelself")
                ctx.cancel()
            elif k == "spawn":
                _, c, how, body = st
                if how == "factory":
                    calls = []

                    def factory(c=c, body=body, calls=calls):
                        calls.append(1)
                        if len(calls) == 1:
                            raise KeyError("factory")          # a LookupError raised by user code, not by the library
                        return self.task_main(c, body)

                    try:
                        task = ctx.spawn(factory)
                    except RuntimeError:
                        self.ev(t, "spawnfail", c)
                        continue
                    except KeyError:
                        self.ev(t, "spawnerr", c, "KeyError")
                        continue
                elif how == "spawn":
                    try:
                        task = ctx.spawn(self.task_main, c, body)
                    except RuntimeError:
                        self.ev(t, "spawnfail", c)
                        continue
                else:
                    task = asyncio.get_running_loop().create_task(self.task_main(c, body))
                self.tasks[c] = task
                self.ev(t, "spawn", c, how)
            elif k == "dprobe":
                vals = []
                for i, T in enumerate(F):
                    try:
                        vals.append(str(ctx.state(T, default=T(v=7000 + st[1])).v))
                    except BaseException as e:  # noqa: BLE001
                        vals.append("X" + type(e).__name__)
                self.ev(t, "dprobe", st[1], ",".join(vals))
            elif k == "reenter":
                cm = self.used.get((t, st[1]))
                if cm is None:
                    # ... or the object another task made for that block (handed over through a queue, a closure, a registry):
                    # while that task is inside it, or after it left
                    cm = next((c_ for (_tt, bb), c_ in self.used.items() if bb == st[1]), None)
                blk = self.blocks.get(st[1])
                if cm is None or blk is None:
                    continue
                self.ev(t, "repre", st[1], self.fingerprint())
                inside = False
                try:
                    if blk[1] == "async":
                        async with cm:
                            self.ev(t, "reentered", st[1])
                    else:
                        with cm:
                            inside = True
                            self.ev(t, "reentered", st[1])
                            if len(st) > 2:
                                # stays inside: the other user of the object may leave first
                                await self.exec(t, [["await", st[2]]])
                    self.ev(t, "refail", st[1], "ok")
                except BaseException as e:  # noqa: BLE001
                    self.ev(t, "refail", st[1], out_name(e))
                    if inside:      # not a refusal: what happened to the body of the second use (a cancellation at the gate)
                        self.ev(t, "repost", st[1], self.fingerprint())
                        raise
                self.ev(t, "repost", st[1], self.fingerprint())
            elif k == "hold":
                blk = self.blocks.get(st[1])
                if blk is not None and blk[1] in ("async", "sync"):
                    _, kind, b, sup, disps, _body = blk
                    insts = [F[i](v=tag) for i, tag in sup]
                    self.held[b] = ctx.scope(f"b{b}", *insts, disposables=[self.make_disp(t, d) for d in disps] if disps else None,
                                             **self.scope_kwargs(t, b))
            elif k == "block":
                _, kind, b, sup, disps, body = st
                insts = [F[i](v=tag) for i, tag in sup]
                body_exc = None
                # `["raise", "stopiter"]` as the last statement of a body: the body ends with a StopIteration (`next()` on an
                # exhausted iterator); the block statement itself stands in a try that catches it (directed cases only)
                stop_tail = bool(body) and body[-1] == ["raise", "stopiter"]
                self.ev(t, "pre", b, self.fingerprint())
                try:
                    if kind == "async":
                        cm = self.held.pop(b, None)
                        if cm is None:
                            cm = ctx.scope(f"b{b}", *insts, disposables=[self.make_disp(t, d) for d in disps] if disps else None,
                                           **self.scope_kwargs(t, b))
                        self.used[(t, b)] = cm
                        async with cm:
                            self.note_group(b)
                            self.ev(t, "enter", b)
                            try:
                                await self.exec(t, body[:-1] if stop_tail else body)
                                if stop_tail:
                                    self.ev(t, "raise", "stopiter")
                                    raise StopIteration("body")     # raised in this very frame (it cannot cross a coroutine frame)
                            except BaseException as e:
                                body_exc = e
                                self.ev(t, "bodyend", b, out_name(e), self.pending_cancel())
                                raise
                            self.ev(t, "bodyend", b, "ok", self.pending_cancel())
                    elif kind == "sync":
                        cm = self.held.pop(b, None)
                        if cm is None:
                            cm = ctx.scope(f"b{b}", *insts, **self.scope_kwargs(t, b))
                        self.used[(t, b)] = cm
                        with cm:
                            self.ev(t, "enter", b)
                            try:
                                await self.exec(t, body[:-1] if stop_tail else body)
                                if stop_tail:
                                    self.ev(t, "raise", "stopiter")
                                    raise StopIteration("body")     # raised in this very frame (it cannot cross a coroutine frame)
                            except BaseException as e:
                                body_exc = e
                                self.ev(t, "bodyend", b, out_name(e), self.pending_cancel())
                                raise
                            self.ev(t, "bodyend", b, "ok", self.pending_cancel())
                    else:
                        cm = ctx.updated(*insts)
                        self.used[(t, b)] = cm
                        with cm:
                            self.ev(t, "enter", b)
                            try:
                                await self.exec(t, body[:-1] if stop_tail else body)
                                if stop_tail:
                                    self.ev(t, "raise", "stopiter")
                                    raise StopIteration("body")     # raised in this very frame (it cannot cross a coroutine frame)
                            except BaseException as e:
                                body_exc = e
                                self.ev(t, "bodyend", b, out_name(e), self.pending_cancel())
                                raise
                            self.ev(t, "bodyend", b, "ok", self.pending_cancel())
                except BaseException as e:
                    self.ev(t, "left", b, out_name(e), 1 if e is body_exc else 0, self.alive(), reach_tags(e),
                            e.args[0] if isinstance(e, (Boom, BaseBoom)) and e.args and isinstance(e.args[0], str) else "-")
                    self.ev(t, "post", b, self.fingerprint())
                    if stop_tail:
                        self.ev(t, "caught", out_name(e))
                        continue
                    raise
                self.ev(t, "left", b, "ok", 1, self.alive())
                self.ev(t, "post", b, self.fingerprint())

    async def task_main(self, t, body):
        self.ev(t, "start")
        try:
            await self.exec(t, body)
        except BaseException as e:
            self.ev(t, "end", out_name(e))
            raise
        self.ev(t, "end", "ok")

    def run(self, prog, sched, badlog=()):
        self.badlog = set(badlog)
        loop = self.loop
        errors = []
        loop.set_exception_handler(lambda _l, c: errors.append(str(c.get("message"))))
        self.blocks, _ = index_program(prog)
        self.tasks[0] = loop.create_task(self.task_main(0, prog))
        loop.quiesce()
        i = 0
        steps = 0
        while steps < 80:
            steps += 1
            pending = sorted(g for g, f in self.gates.items() if not f.done())
            live = sorted(t for t, tk in self.tasks.items() if not tk.done())
            if not pending and i >= len(sched):
                break
            if not pending and not live:
                break
            if i < len(sched):
                opts = [("rel", g) for g in pending] + [("cancel", t) for t in live]
                if not opts:
                    break
                kind, x = opts[sched[i] % len(opts)]
                i += 1
            else:
                kind, x = "rel", pending[0]
            if kind == "cancel":
                self.ev("X", "cancel", x)
                self.asked.add(x)
                self.tasks[x].cancel()
            else:
                self.ev("X", "rel", x)
                self.gates[x].set_result(None)
            loop.quiesce()
        hang = [t for t, tk in sorted(self.tasks.items()) if not tk.done()]
        for t in hang:
            self.ev(t, "hang")
        for tk in self.tasks.values():
            if tk.done() and not tk.cancelled():
                tk.exception()
        return hang


def run_real(case: str) -> str:
    spec = json.loads(case)
    r = Run()
    try:
        r.run(spec["prog"], spec.get("sched", []), spec.get("badlog", ()))
        return " ".join(r.log)
    finally:
        r.close()


# ------------------------------------------------------------------------------------------------
# helpers for the per-property modules

def events(out: str) -> list[list[str]]:
    return [tok.split("|") for tok in out.split()]


def index_program(prog, blocks=None, spawns=None):
    blocks = {} if blocks is None else blocks
    spawns = {} if spawns is None else spawns
    for st in prog:
        if st[0] == "block":
            blocks[st[2]] = st
            index_program(st[5], blocks, spawns)
        elif st[0] == "try":
            index_program(st[1], blocks, spawns)
        elif st[0] == "spawn":
            spawns[st[1]] = st
            index_program(st[3], blocks, spawns)
    return blocks, spawns


def shrink(case: str):
    """structural delta debugging on the program and the schedule"""
    spec = json.loads(case)
    prog, sched = spec["prog"], spec.get("sched", [])

    def dump(p, s):
        d = {"prog": p, "sched": s}
        if spec.get("badlog"):
            d["badlog"] = spec["badlog"]
        return json.dumps(d, separators=(",", ":"))

    for i in range(len(sched)):
        yield dump(prog, sched[:i] + sched[i + 1:])

    def variants(stmts):
        for i, st in enumerate(stmts):
            yield stmts[:i] + stmts[i + 1:]
            if st[0] == "try":
                yield stmts[:i] + st[1] + stmts[i + 1:]
                for v in variants(st[1]):
                    yield stmts[:i] + [["try", v]] + stmts[i + 1:]
            elif st[0] == "spawn":
                for v in variants(st[3]):
                    yield stmts[:i] + [st[:3] + [v]] + stmts[i + 1:]
            elif st[0] == "block":
                yield stmts[:i] + st[5] + stmts[i + 1:]
                for v in variants(st[5]):
                    yield stmts[:i] + [st[:5] + [v]] + stmts[i + 1:]
                for j in range(len(st[4])):
                    yield stmts[:i] + [st[:4] + [st[4][:j] + st[4][j + 1:]] + [st[5]]] + stmts[i + 1:]
                    d = st[4][j]
                    for which in (1, 2):
                        if d[which] != "ok":
                            nd = list(d)
                            nd[which] = "ok"
                            yield stmts[:i] + [st[:4] + [st[4][:j] + [nd] + st[4][j + 1:]] + [st[5]]] + stmts[i + 1:]
                if st[3]:
                    yield stmts[:i] + [st[:3] + [[]] + st[4:]] + stmts[i + 1:]

    for v in variants(prog):
        yield dump(v, sched)


def mutate(rng, case: str) -> str:
    spec = json.loads(case)
    sched = list(spec.get("sched", []))
    r = rng.random()
    if r < 0.5 and sched:
        sched[rng.randrange(len(sched))] = rng.randrange(0, 60)
    elif r < 0.8:
        sched.insert(rng.randint(0, len(sched)), rng.randrange(0, 60))
    else:
        return gen_case(rng)
    return json.dumps({"prog": spec["prog"], "sched": sched}, separators=(",", ":"))
