"""Shared by C01 (lookup follows lexical nesting) and C03 (tasks inherit a snapshot, never see each other's
scopes): generator of well-formed interleaved label sequences, executor on the real haiway context API,
environment-stack specification used as the monitor.  Lean side: `hwmodel tasks` (Haiway/Model/Tasks.lean).

Label tokens (one case = `ctor=<bits>` followed by labels in global execution order):
  E<t>.<b>.<A|S|U>.<ty:val,...>[/<ty:val,...>]*   task t enters block b: async scope / sync scope / ctx.updated,
                                                    direct state, then one list per disposable (async scope only)
  L<t>.<b>            task t leaves block b (normally)
  P<t>.<ty>.<0|1>     task t asks ctx.state(T_ty[, default=<explicit default>])
  Ws<t> / Wc<t>       task t starts a child through ctx.spawn / plain loop.create_task (child id = next free id)
  F<t>                task t returns
  H<t>.<b>.<A|S>.<…>  task t *constructs* the scope object of block b (`cm = ctx.scope(...)`, same fields as the E label of b)
                      without entering it; the later `E<u>.<b>…` – by the same or by another task – enters that object.
                      No effect on the specification or on the model (they never see it: `strip_holds`).
"""
from __future__ import annotations

import asyncio

from harness import core, vloop

LEAN_COMPONENT = "tasks"
ANCHORS = ["src/haiway/context/state.py", "src/haiway/context/access.py", "src/haiway/context/tasks.py",
           "src/haiway/context/disposables.py"]
NTYPES = 7
TWIN = 1000000   # instance ty:(v+TWIN) is a distinct object that compares == to instance ty:v
CTOR = "1100001"  # T0, T1, T4 need no arguments (T4 has an attribute without a default that accepts MISSING); T2, T3, G[int], G[str] do
TRUSTED = ["contextvars semantics (ContextVar.set/reset tokens, copy_context on task creation) as modelled in "
           "Haiway/Model/Tasks.lean", "harness/scopestate_common.py executor + environment-stack monitor"]
ASSUMPTIONS = ["normal control flow only (exceptional exits are C02)",
               "the default-construction cache of ScopeState is observed only up to the value returned "
               "(a default-constructed instance); identity of cached defaults is not part of the property"]

_T = None


def types():
    global _T
    if _T is None:
        from harness.state_family import FAMILY

        _T = FAMILY
    return _T


# ------------------------------------------------------------------------------------------------
# generation (simulation of the well-formedness rules)

class _Sim:
    def __init__(self, rng, max_tasks, max_depth, max_blocks):
        self.rng = rng
        self.tasks = [{"frames": [], "alive": True, "inh_group": None}]
        self.members: dict[tuple[int, int], list[int]] = {}
        self.labels: list[str] = []
        self.nb = 0
        self.nv = 0
        self.used: list[tuple[int, int]] = []
        self.max_tasks, self.max_depth, self.max_blocks = max_tasks, max_depth, max_blocks

    def insts(self, lo, hi, types_pool):
        """instances a block supplies; now and then the *same* instance (same ty:val = same object in the executor) is
        supplied again by a later block, possibly of another task (long-lived shared state objects)"""
        out = []
        for _ in range(self.rng.randint(lo, hi)):
            if self.used and self.rng.random() < 0.3:
                out.append(self.rng.choice(self.used))
                continue
            if self.used and self.rng.random() < 0.15:
                ty, v = self.rng.choice(self.used)
                if v < TWIN:
                    out.append((ty, v + TWIN))   # an equal-but-not-identical twin of an instance supplied earlier
                    continue
            self.nv += 1
            out.append((self.rng.choice(types_pool), self.nv))
            self.used.append(out[-1])
        return out

    @staticmethod
    def fmt(insts):
        return ",".join(f"{t}:{v}" for t, v in insts)

    def group_of(self, t):
        tk = self.tasks[t]
        for b, kind in reversed(tk["frames"]):
            if kind == "A":
                return (t, b)
        return tk["inh_group"]

    def can_leave(self, t):
        tk = self.tasks[t]
        if not tk["frames"]:
            return False
        b, kind = tk["frames"][-1]
        return kind != "A" or all(not self.tasks[m]["alive"] for m in self.members.get((t, b), []))

    def enabled(self, t):
        tk = self.tasks[t]
        if not tk["alive"]:
            return []
        ops = ["P", "P"]
        if len(tk["frames"]) < self.max_depth and self.nb < self.max_blocks:
            ops += ["E", "E"]
        if self.can_leave(t):
            ops += ["L"]
        if len(self.tasks) < self.max_tasks:
            ops += ["W"]
        if not tk["frames"] and t != 0:
            ops += ["F"]
        if any(u != t and o["alive"] and any(k in "SU" for _b, k in o["frames"]) for u, o in enumerate(self.tasks)):
            ops += ["X"]
        return ops

    def do(self, t, op, pool):
        tk = self.tasks[t]
        r = self.rng
        if op == "E":
            self.nb += 1
            kind = r.choice("ASU")
            direct = self.insts(0, 3, pool)
            tok = f"E{t}.{self.nb}.{kind}.{self.fmt(direct)}"
            if kind == "A" and r.random() < 0.5:
                for _ in range(r.randint(1, 2)):
                    tok += "/" + self.fmt(self.insts(0, 2, pool))
            tk["frames"].append((self.nb, kind))
            self.labels.append(tok)
        elif op == "L":
            b, _ = tk["frames"].pop()
            self.labels.append(f"L{t}.{b}")
        elif op == "P":
            self.labels.append(f"P{t}.{r.choice(pool + list(range(NTYPES)))}.{int(r.random() < 0.35)}")
        elif op == "W":
            g = self.group_of(t)
            active = g is not None and any(fb == g[1] for fb, _ in self.tasks[g[0]]["frames"]) and self.tasks[g[0]]["alive"]
            how = "s" if (g is None or active) and r.random() < 0.6 else "c"
            child = len(self.tasks)
            self.tasks.append({"frames": [], "alive": True, "inh_group": g})
            if how == "s" and g is not None:
                self.members.setdefault(g, []).append(child)
            self.labels.append(f"W{how}{t}")
        elif op == "F":
            tk["alive"] = False
            self.labels.append(f"F{t}")
        elif op == "X":
            cands = [b for u, o in enumerate(self.tasks) if u != t and o["alive"] for b, k in o["frames"] if k in "SU"]
            if cands:
                self.labels.append(f"X{t}.{r.choice(cands)}")

    def close_all(self):
        progress = True
        while progress:
            progress = False
            for t in reversed(range(len(self.tasks))):
                tk = self.tasks[t]
                if not tk["alive"]:
                    continue
                if tk["frames"]:
                    if self.can_leave(t):
                        self.do(t, "L", [0])
                        progress = True
                elif t != 0:
                    self.do(t, "F", [0])
                    progress = True
                if progress and self.rng.random() < 0.5:
                    self.labels.append(f"P{self.rng.randrange(len(self.tasks))}.{self.rng.randrange(NTYPES)}.0")


def strip_holds(case: str) -> str:
    return " ".join(t for t in case.split() if not t.startswith("H"))


def hoist_constructions(rng, labels, p=0.15):
    """for some async/sync scope blocks: construct the scope object earlier – by the entering task itself at an earlier
    point of its life, or by its parent just before it starts the task"""
    out = list(labels)
    for lab in labels:
        if lab[0] != "E" or lab.split(".")[2] not in "AS" or rng.random() >= p:
            continue
        t = task_of(lab)
        i_e = out.index(lab)
        # index of the W label that created task t (tasks are numbered in creation order)
        n, born, parent = 1, 0, None
        for i, l in enumerate(out[:i_e]):
            if l[0] == "W":
                if n == t:
                    born, parent = i + 1, task_of(l)
                n += 1
        body = lab[1:].split(".", 1)[1]
        if parent is not None and rng.random() < 0.5:
            out.insert(born - 1, f"H{parent}.{body}")          # the parent prepares it, then starts the task
        else:
            out.insert(rng.randint(born, i_e), f"H{t}.{body}")
    return out


def gen_case(rng, max_tasks, max_depth, max_blocks, steps) -> str:
    sim = _Sim(rng, max_tasks, max_depth, max_blocks)
    pool = rng.sample(range(NTYPES), rng.randint(1, 3))  # few types => frequent shadowing
    for _ in range(steps):
        live = [t for t in range(len(sim.tasks)) if sim.tasks[t]["alive"]]
        t = rng.choice(live)
        ops = sim.enabled(t)
        if ops:
            sim.do(t, rng.choice(ops), pool)
    sim.close_all()
    # drop probes by finished tasks (close_all may add some)
    labels = _drop_dead_probes(sim.labels)
    if rng.random() < 0.4:
        labels = hoist_constructions(rng, labels)
    return f"ctor={CTOR} " + " ".join(labels)


def churn_case(n: int, kinds: str = "SU") -> str:
    """n short-lived detached tasks, each entering a root block with its own instance and then an update that supplies
    the SAME long-lived instance 0:1 (same object in the executor) – state objects shared across many short-lived
    scopes; every task must still see its own root block's instance."""
    labs = ["Wc0"] * n
    b = 0
    for t in range(1, n + 1):
        k = kinds[t % len(kinds)]
        ty = 2 + t % 2
        labs += [f"E{t}.{b + 1}.{k}.{ty}:{100 + t}", f"E{t}.{b + 2}.U.0:1", f"P{t}.{ty}.0", f"P{t}.0.0",
                 f"L{t}.{b + 2}", f"L{t}.{b + 1}", f"F{t}"]
        b += 2
    return f"ctor={CTOR} " + " ".join(labs)


def churn_watch_case(n: int, kinds: str = "SU", every: int = 2) -> str:
    """like `churn_case`, but every `every`-th task starts a detached watcher task from inside its update block; the watcher
    (its context copy holds the block's derived state) outlives the task and its root block by the whole rest of the case,
    while later tasks enter their own root blocks – with their own instances – and the same update: objects derived from a
    dead scope's state stay alive next to freshly allocated scope states."""
    labs = ["Wc0"] * n
    b, nxt = 0, n + 1
    watchers = []
    for t in range(1, n + 1):
        k = kinds[t % len(kinds)]
        ty = 2 + t % 2
        labs += [f"E{t}.{b + 1}.{k}.{ty}:{100 + t}", f"E{t}.{b + 2}.U.0:1", f"P{t}.{ty}.0", f"P{t}.0.0"]
        if t % every == 0:
            labs += [f"Wc{t}", f"P{nxt}.{ty}.0"]
            watchers.append((nxt, ty))
            nxt += 1
        labs += [f"L{t}.{b + 2}", f"L{t}.{b + 1}", f"F{t}"]
        b += 2
    for w, ty in watchers:
        labs += [f"P{w}.{ty}.0", f"P{w}.0.0", f"F{w}"]
    return f"ctor={CTOR} " + " ".join(labs)


def _drop_dead_probes(labels):
    dead = set()
    n = 1
    out = []
    for l in labels:
        t = task_of(l)
        if l[0] == "W":
            n += 1
        if l[0] in "PX" and (t in dead or t >= n):
            continue
        if l[0] == "F":
            dead.add(t)
        out.append(l)
    return out


def task_of(l: str) -> int:
    if l[0] == "W":
        return int(l[2:])
    return int(l[1:].split(".")[0])


def parse_insts(s: str):
    return [tuple(int(x) for x in p.split(":")) for p in s.split(",") if p]


# ------------------------------------------------------------------------------------------------
# the specification (environment stacks) – independent of the Lean model

def spec_obs(case: str) -> list[str]:
    toks = case.split()
    ctor = toks[0][5:]
    tasks = [{"inh": None, "frames": []}]
    out = []
    for l in toks[1:]:
        t = task_of(l)
        tk = tasks[t]
        if l[0] == "E":
            _t, b, _k, rest = l[1:].split(".")
            parts = rest.split("/")
            sup = [i for p in parts for i in parse_insts(p)]
            tk["frames"].append((int(b), sup))
        elif l[0] == "L":
            tk["frames"].pop()
        elif l[0] == "W":
            vis = visible(tk)
            tasks.append({"inh": vis, "frames": []})
        elif l[0] == "X":
            out.append("xr")
        elif l[0] == "P":
            _t, ty, d = l[1:].split(".")
            ty = int(ty)
            vis = visible(tk)
            if vis is None:
                out.append("mc")
                continue
            ans = None
            for frame in reversed(vis):
                hits = [i for i in frame if i[0] == ty]
                if hits:
                    ans = hits[-1]
                    break
            if ans is not None:
                out.append(f"s:{ans[0]}:{ans[1]}")
            elif d == "1":
                out.append("d")
            elif ctor[ty] == "1":
                out.append("c")
            else:
                out.append("ms")
    return out


def visible(tk):
    if tk["inh"] is None and not tk["frames"]:
        return None
    return (tk["inh"] or []) + [sup for _b, sup in tk["frames"]]


def monitor(case: str, out: str) -> list[str]:
    exp = spec_obs(case)
    got = out.split()
    fails = set()
    if len(got) != len(exp):
        fails.add("lookup.missing-observation")
    owners = supplier_owner(case)
    probes = [l for l in case.split()[1:] if l[0] in "PX"]
    for e, g, p in zip(exp, got, probes):
        if e == g:
            continue
        if e == "xr":
            fails.add("tasks.foreign-exit-accepted")
            continue
        if g.startswith("s:") and e.startswith("s:"):
            pt = task_of(p)
            own = owners.get(g)
            if own is not None and own[0] != pt and not own[1](pt):
                fails.add("tasks.foreign-scope-visible")
            else:
                fails.add("lookup.wrong-supplier")
        elif g.startswith("s:"):
            fails.add("lookup.unsupplied-instance-returned" if not e.startswith("m") else "lookup.state-outside-scope")
        elif e == "d":
            fails.add("lookup.explicit-default-ignored:" + g.split(":")[0])
        elif e.startswith("s:"):
            fails.add("lookup.supplied-state-lost:" + g.split(":")[0])
        else:
            fails.add(f"lookup.wrong-fallback:{e}->{g.split(':')[0]}")
    return sorted(fails)


def supplier_owner(case: str):
    """instance token -> (task that supplied it, predicate 'task u was started by a task that could see it')."""
    toks = case.split()[1:]
    owners = {}
    parent = {0: None}
    n = 1
    for l in toks:
        if l[0] == "W":
            parent[n] = task_of(l)
            n += 1
        elif l[0] == "E":
            t = task_of(l)
            rest = l[1:].split(".")[3]
            for p in rest.split("/"):
                for ty, v in parse_insts(p):
                    def desc(u, t=t):
                        while u is not None:
                            if u == t:
                                return True
                            u = parent.get(u)
                        return False
                    owners[f"s:{ty}:{v}"] = (t, desc)
    return owners


# ------------------------------------------------------------------------------------------------
# execution on the real library

class _Disp:
    """disposable double; `delay` = number of loop turns its __aenter__ takes, so that the concurrently entered
    disposables of one scope complete in an order different from their declaration order"""

    def __init__(self, states, delay=1):
        self.states = states
        self.delay = delay

    def __eq__(self, other):  # value semantics: equal-looking doubles are == (identity must decide, not equality)
        return isinstance(other, _Disp)

    def __hash__(self):
        return 7

    async def __aenter__(self):
        for _ in range(self.delay):
            await asyncio.sleep(0)
        if not self.states:
            return None if self.delay % 2 else ()
        if len(self.states) == 1 and self.delay % 2:
            return self.states[0]
        form = (self.delay + len(self.states)) % 4   # every legal way of yielding "several states"
        if form == 0:
            return list(self.states)
        if form == 1:
            return tuple(self.states)
        if form == 2:
            return iter(list(self.states))           # one-shot iterator
        return (s for s in self.states)              # generator

    async def __aexit__(self, et, ev, tb):
        await asyncio.sleep(0)


def run_real(case: str) -> str:
    from haiway import MissingContext, MissingState, ctx

    T = types()
    toks = case.split()
    labels = toks[1:]
    loop = vloop.new_loop()
    try:
        ops: dict[int, list[str]] = {}
        for l in labels:
            ops.setdefault(task_of(l), []).append(l)
        pos: dict[int, int] = {}
        turn: dict[int, asyncio.Future] = {}
        done_flag = {"n": 0}
        obs: list[str] = []
        counter = {"next": 1}
        inst_of: dict[int, tuple[int, int]] = {}
        defaults = [None] * NTYPES

        made: dict[tuple[int, int], object] = {}

        def make(insts):
            res = []
            for ty, v in insts:
                o = made.get((ty, v))
                if o is None:
                    o = made[(ty, v)] = T[ty](v=v % TWIN)
                    inst_of[id(o)] = (ty, v)
                res.append(o)
            return res

        keep: list = []

        async def next_op(tid):
            f = loop.create_future()
            turn[tid] = f
            await f
            i = pos.get(tid, 0)
            pos[tid] = i + 1
            return ops[tid][i]

        def probe(l):
            _t, ty, d = l[1:].split(".")
            ty = int(ty)
            try:
                if d == "1":
                    if defaults[ty] is None:
                        defaults[ty] = T[ty](v=-1)
                    r = ctx.state(T[ty], default=defaults[ty])
                else:
                    r = ctx.state(T[ty])
            except MissingContext:
                return "mc"
            except MissingState:
                return "ms"
            except BaseException as exc:  # noqa: BLE001
                return f"x:{type(exc).__name__}"
            if id(r) in inst_of:
                a, b = inst_of[id(r)]
                return f"s:{a}:{b}"
            if r is defaults[ty]:
                return "d"
            if type(r) is T[ty] and r.v == 0:
                return "c"
            return "other"

        async def block(tid):
            while True:
                l = await next_op(tid)
                k = l[0]
                if k == "H":
                    _t, b, kind, rest = l[1:].split(".")
                    parts = rest.split("/")
                    direct = make(parse_insts(parts[0]))
                    specs = [parse_insts(p) for p in parts[1:]]
                    disps = [_Disp(make(sp_), delay=1 + (sum(v for _ty, v in sp_) * 7 + 3 * (len(specs) - k)) % 4)
                             for k, sp_ in enumerate(specs)]
                    held[int(b)] = ctx.scope(f"b{b}", *direct, disposables=disps or None)
                    done_flag["n"] += 1
                elif k == "E":
                    _t, b, kind, rest = l[1:].split(".")
                    parts = rest.split("/")
                    direct = make(parse_insts(parts[0]))
                    if kind == "A":
                        specs = [parse_insts(p) for p in parts[1:]]
                        disps = [_Disp(make(sp_), delay=1 + (sum(v for _ty, v in sp_) * 7 + 3 * (len(specs) - k)) % 4)
                                 for k, sp_ in enumerate(specs)]
                        cm = held.pop(int(b), None) or ctx.scope(f"b{b}", *direct, disposables=disps or None)
                        async with cm:
                            done_flag["n"] += 1
                            await block(tid)
                        done_flag["n"] += 1
                    elif kind == "S":
                        cm = open_cms[int(b)] = held.pop(int(b), None) or ctx.scope(f"b{b}", *direct)
                        with cm:
                            done_flag["n"] += 1
                            await block(tid)
                        open_cms.pop(int(b), None)
                        cm = None
                        done_flag["n"] += 1
                    else:
                        cm = open_cms[int(b)] = ctx.updated(*direct)
                        with cm:
                            done_flag["n"] += 1
                            await block(tid)
                        open_cms.pop(int(b), None)
                        cm = None
                        done_flag["n"] += 1
                elif k == "L":
                    return
                elif k == "P":
                    obs.append(probe(l))
                    done_flag["n"] += 1
                elif k == "X":
                    other = open_cms.get(int(l[1:].split(".")[1]))
                    try:
                        other.__exit__(None, None, None)
                        obs.append("xok")
                    except BaseException:  # noqa: BLE001
                        obs.append("xr")
                    done_flag["n"] += 1
                elif k == "W":
                    child = counter["next"]
                    counter["next"] += 1
                    if l[1] == "s":
                        children.append(ctx.spawn(interp, child))
                    else:
                        children.append(loop.create_task(interp(child)))
                    done_flag["n"] += 1
                elif k == "F":
                    done_flag["n"] += 1
                    raise _Finish()

        children: list = []
        open_cms: dict[int, object] = {}
        held: dict[int, object] = {}       # scope objects constructed ahead of their `with` (label H)

        async def interp(tid):
            try:
                await block(tid)
            except _Finish:
                pass

        root = loop.create_task(interp(0))  # noqa: F841
        loop.quiesce()
        for l in labels:
            t = task_of(l)
            before = done_flag["n"]
            f = turn.get(t)
            if f is None or f.done():
                obs.append("!")
                continue
            f.set_result(None)
            loop.quiesce()
            if done_flag["n"] == before:
                obs.append("!")
        return " ".join(obs)
    finally:
        vloop.close_loop(loop)


class _Finish(Exception):
    pass


# ------------------------------------------------------------------------------------------------

def mutate(rng, case: str) -> str:
    """neighbour: regenerate with similar shape (label sequences must stay well-formed)."""
    return gen_case(rng, rng.randint(1, 4), rng.randint(2, 5), rng.randint(3, 12), rng.randint(10, 40))


def shrink(case: str):
    """drop one probe, or one balanced E/L pair, or one leaf task."""
    toks = case.split()
    head, labels = toks[0], toks[1:]
    for i, l in enumerate(labels):
        if l[0] in "PH":
            yield " ".join([head] + labels[:i] + labels[i + 1:])
    for i, l in enumerate(labels):
        if l[0] == "E":
            t, b = l[1:].split(".")[:2]
            close = f"L{t}.{b}"
            if close in labels:
                j = labels.index(close)
                rest = [x for x in labels[:i] + labels[i + 1:j] + labels[j + 1:] if not x.startswith(f"H") or x.split(".")[1] != b]
                yield " ".join([head] + rest)
            # drop one supplied instance
            parts = l.split(".")
            insts = parts[3]
            flat = [x for x in insts.replace("/", ",").split(",") if x]
            for x in flat:
                new = insts.replace(x, "", 1).replace(",,", ",").replace("/,", "/").replace(",/", "/").strip(",")
                yield " ".join([head] + labels[:i] + [".".join(parts[:3] + [new])] + labels[i + 1:])


def classify(case: str, out: str):
    labels = case.split()[1:]
    ntasks = 1 + sum(1 for l in labels if l[0] == "W")
    yield f"tasks:{ntasks}"
    depth = 0
    cur = {}
    for l in labels:
        t = task_of(l)
        if l[0] == "E":
            cur[t] = cur.get(t, 0) + 1
            depth = max(depth, cur[t])
            yield "block:" + l.split(".")[2]
            if "/" in l:
                yield "block:with-disposable-state"
        elif l[0] == "L":
            cur[t] -= 1
    yield f"depth:{depth}"
    for o in set(x.split(":")[0] for x in out.split()):
        yield "obs:" + o
