"""Shared by C05 (comp_validate.py) and C04 (comp_stateobj.py): S-expressions (DESIGN Appendix E),
the class universe, construction of real annotations / State classes / values from the case text,
serialisation of what the real code stores, the type-directed generator, and the independent
conformance + faithful-storage oracle (which never looks at haiway or at the Lean model)."""
from __future__ import annotations

import datetime as _dt
import enum
import functools
import operator
import sys
import types
import typing
import uuid
from pathlib import Path, PurePath  # noqa: F401

# ------------------------------------------------------------------------------------------------
# S-expressions: atoms are str, lists are list


_last_parse: list = [None, None]


def parse_case(text: str) -> list:
    """parse_seq with a one-entry memo (monitor / nontrivial / classify look at the same case in turn);
    callers must not modify the result"""
    if _last_parse[0] != text:
        _last_parse[0], _last_parse[1] = text, parse_seq(text)
    return _last_parse[1]


def parse_seq(text: str) -> list:
    stack: list[list] = [[]]
    cur = ""
    for ch in text:
        if ch in "() \t":
            if cur:
                stack[-1].append(cur)
                cur = ""
            if ch == "(":
                stack.append([])
            elif ch == ")":
                top = stack.pop()
                stack[-1].append(top)
        else:
            cur += ch
    if cur:
        stack[-1].append(cur)
    if len(stack) != 1:
        raise ValueError("unbalanced")
    return stack[0]


def show(x) -> str:
    if isinstance(x, str):
        return x
    return "(" + " ".join(show(e) for e in x) + ")"


def field(top: list, tag: str) -> list:
    for e in top:
        if isinstance(e, list) and e and e[0] == tag:
            return e[1:]
    raise KeyError(tag)


# ------------------------------------------------------------------------------------------------
# class universe (ids are shared with Haiway/Model/Validate.lean for the builtins 0..13)

C_NONE, C_MISSING, C_BOOL, C_INT, C_FLOAT, C_STR, C_BYTES = 0, 1, 2, 3, 4, 5, 6
C_LIST, C_TUPLE, C_SET, C_FROZENSET, C_DICT, C_MPROXY, C_FUNCTION = 7, 8, 9, 10, 11, 12, 13
C_UUID, C_DATE, C_DATETIME, C_TIME, C_TIMEDELTA, C_TIMEZONE, C_PATH, C_POSIXPATH = 20, 21, 22, 23, 24, 25, 26, 27
C_COL, C_SCOL, C_ICOL, C_NAMED, C_HASLEN, C_OBJ1, C_OBJ2 = 28, 29, 30, 31, 32, 33, 34
C_PRETEND = 36       # an object of an unrelated class whose `__class__` reports `Missing` (isinstance(x, Missing) is True)
C_COL2 = 35          # a second enum whose __name__ is also "Col" (another module's class of the same name)
C_INNER, C_SUB, C_BOX, C_BOX_INT, C_BOX_STR, C_BOX_INNER, C_PAIR, C_PAIR_INT_STR, C_NODE, C_BOX_ANY = 40, 41, 42, 43, 44, 45, 46, 47, 48, 49
C_INNER2, C_BOX_COL, C_BOX_COL2, C_BOX_INNER2 = 50, 51, 52, 53   # twin `Inner`; Box specialised with each twin
C_SUBBOX, C_SUBBOX_INT = 54, 55   # a generic subclass of the generic Box (`class SubBox[T](Box[T]): w: int = 0`), specialised after Box[int]
C_GEN = 100          # the generated class of a case; its specialisation is 101; further generated classes 102..
NS_MODULE = "harness.state_ns"


class Universe:
    """Real classes behind the ids. Built once per process after haiway has been imported."""

    def __init__(self) -> None:
        from haiway import State
        from haiway.types import Missing

        from harness import state_ns

        class Col(enum.Enum):
            R = 1
            G = 2
            B = 3

        def _twin_col():
            class Col(enum.Enum):     # same __name__/__qualname__ tail as the first one, different members
                C = 7
                M = 8
            return Col
        Col2 = _twin_col()

        class SCol(str, enum.Enum):
            A = "a"
            B = "b"

        class ICol(enum.IntEnum):
            X = 1
            Y = 2

        @typing.runtime_checkable
        class Named(typing.Protocol):
            def name(self) -> str: ...

        @typing.runtime_checkable
        class HasLen(typing.Protocol):
            def __len__(self) -> int: ...

        class Obj1:
            def __init__(self, k: int) -> None:
                self.k = k

            def name(self) -> str:
                return f"o{self.k}"

            def __eq__(self, other):
                return type(other) is type(self) and other.k == self.k

            def __hash__(self):
                return hash(("Obj1", self.k))

        class Obj2:
            def __init__(self, k: int) -> None:
                self.k = k

            def __eq__(self, other):
                return type(other) is type(self) and other.k == self.k

            def __hash__(self):
                return hash(("Obj2", self.k))

        class Pretender:
            def __init__(self, k: int) -> None:
                self.k = k

            @property
            def __class__(self):      # what Mock(spec=Missing) / transparent proxies do
                return Missing

            def __eq__(self, other):
                return type(other) is type(self) and other.k == self.k

            def __hash__(self):
                return hash(("Pretender", self.k))

        def body(ns, ann, defaults=None):
            ns["__module__"] = NS_MODULE
            ns["__annotations__"] = ann
            ns.update(defaults or {})

        T = typing.TypeVar("T")
        A = typing.TypeVar("A")
        B = typing.TypeVar("B")
        Inner = types.new_class("Inner", (State,), {}, lambda ns: body(ns, {"n": int}, {"n": 0}))
        Sub = types.new_class("Sub", (Inner,), {}, lambda ns: body(ns, {"m": str}, {"m": ""}))
        Box = types.new_class("Box", (State, typing.Generic[T]), {},
                              lambda ns: body(ns, {"v": T}, {"__type_params__": (T,)}))
        Pair = types.new_class("Pair", (State, typing.Generic[A, B]), {},
                               lambda ns: body(ns, {"a": A, "b": B}, {"__type_params__": (A, B)}))
        Inner2 = types.new_class("Inner", (State,), {}, lambda ns: body(ns, {"q": str}, {"q": ""}))   # twin, not in state_ns
        SubBox = types.new_class("SubBox", (Box[T], typing.Generic[T]), {},
                                 lambda ns: body(ns, {"w": int}, {"w": 0, "__type_params__": (T,)}))
        state_ns.Inner, state_ns.Sub, state_ns.Box, state_ns.Pair = Inner, Sub, Box, Pair
        state_ns.Col = Col
        Node = types.new_class("Node", (State,), {},
                               lambda ns: body(ns, {"val": int, "next": "Node | None"}, {"next": None}))
        state_ns.Node = Node
        self.State = State
        self.tvars: dict[str, typing.TypeVar] = {}
        self.cls: dict[int, type] = {
            C_NONE: type(None), C_MISSING: Missing, C_BOOL: bool, C_INT: int, C_FLOAT: float, C_STR: str,
            C_BYTES: bytes, C_LIST: list, C_TUPLE: tuple, C_SET: set, C_FROZENSET: frozenset, C_DICT: dict,
            C_MPROXY: types.MappingProxyType, C_FUNCTION: types.FunctionType,
            C_UUID: uuid.UUID, C_DATE: _dt.date, C_DATETIME: _dt.datetime, C_TIME: _dt.time,
            C_TIMEDELTA: _dt.timedelta, C_TIMEZONE: _dt.timezone, C_PATH: Path, C_POSIXPATH: type(Path("/")),
            C_COL: Col, C_SCOL: SCol, C_ICOL: ICol, C_NAMED: Named, C_HASLEN: HasLen, C_OBJ1: Obj1, C_OBJ2: Obj2,
            C_INNER: Inner, C_SUB: Sub, C_BOX: Box, C_BOX_INT: Box[int], C_BOX_STR: Box[str],
            C_BOX_INNER: Box[Inner], C_PAIR: Pair, C_PAIR_INT_STR: Pair[int, str], C_NODE: Node,
            C_BOX_ANY: Box[typing.Any],
            C_PRETEND: Pretender, C_COL2: Col2, C_INNER2: Inner2, C_BOX_COL: Box[Col], C_BOX_COL2: Box[Col2], C_BOX_INNER2: Box[Inner2],
            C_SUBBOX: SubBox, C_SUBBOX_INT: SubBox[int],
        }
        self.ids = {c: i for i, c in self.cls.items()}
        self.funcs = [_f0, _f1, _f2, _f3]
        self.base_sub = self.sub_pairs(self.cls)

    @staticmethod
    def sub_pairs(table: dict[int, type], against: dict[int, type] | None = None) -> list[tuple[int, int]]:
        against = against if against is not None else table
        out = []
        for i, c in table.items():
            for j, d in against.items():
                if i != j and _issub(c, d):
                    out.append((i, j))
        return out

    def tvar(self, name: str, bound=None) -> typing.TypeVar:
        key = f"{name}:{getattr(bound, '__name__', bound)}"
        if key not in self.tvars:
            self.tvars[key] = typing.TypeVar(name, bound=bound) if bound is not None else typing.TypeVar(name)
        return self.tvars[key]


def _issub(c, d) -> bool:
    try:
        return issubclass(c, d)
    except TypeError:
        return False


def _f0():
    return None


def _f1(x):
    return x


def _f2(*a, **k):
    return a


def _f3(x=1):
    return x


_U: Universe | None = None


# what the fixed State classes of the universe must be, whatever the library does to build them (the class table is part of the
# test *input*: a change that corrupts class creation / specialisation must not corrupt the expectation with it)
EXPECTED_STATE_SUB = {(41, 40), (43, 42), (44, 42), (45, 42), (47, 46), (49, 42), (51, 42), (52, 42), (53, 42), (54, 42), (55, 42), (55, 54)}


def universe_defects(u: "Universe") -> list[str]:
    st = sorted(i for i in u.cls if i in ATTRS_OF)
    bad = []
    if len({id(u.cls[i]) for i in st}) != len(st):
        bad.append("two-ids-one-class")
    for i in st:
        if list(getattr(u.cls[i], "__ATTRIBUTES__", {})) != ATTRS_OF[i]:
            bad.append(f"attributes-of-{i}")
    got = {(i, j) for i in st for j in st if i != j and issubclass(u.cls[i], u.cls[j])}
    if got != EXPECTED_STATE_SUB:
        bad.append("subclass-relation:" + ",".join(f"{a}<{b}" for a, b in sorted(got ^ EXPECTED_STATE_SUB)))
    return bad


def universe() -> Universe:
    global _U
    if _U is None:
        _U = Universe()
    return _U


ENUM_MEMBERS = {C_COL: ["-", "-", "-"], C_SCOL: ['s"a"', 's"b"'], C_ICOL: ["i1", "i2"], C_COL2: ["-", "-"]}
# fixed specialisation table of the universe: (generic, closed argument terms) -> class id
BASE_SPECS = [
    [str(C_BOX), str(C_BOX_INT), ["cls", str(C_INT)]],
    [str(C_BOX), str(C_BOX_STR), ["cls", str(C_STR)]],
    [str(C_BOX), str(C_BOX_INNER), ["cls", str(C_INNER)]],
    [str(C_BOX), str(C_BOX_ANY), "any"],
    [str(C_BOX), str(C_BOX_COL), ["cls", str(C_COL)]],
    [str(C_BOX), str(C_BOX_COL2), ["cls", str(C_COL2)]],
    [str(C_BOX), str(C_BOX_INNER2), ["cls", str(C_INNER2)]],
    [str(C_PAIR), str(C_PAIR_INT_STR), ["cls", str(C_INT)], ["cls", str(C_STR)]],
    [str(C_SUBBOX), str(C_SUBBOX_INT), ["cls", str(C_INT)]],
]
BASE_NAMES = [["Inner", str(C_INNER)], ["Sub", str(C_SUB)], ["Node", str(C_NODE)], ["Col", str(C_COL)]]
ATTRS_OF = {  # attributes of the universe's State classes (for building instances)
    C_INNER: ["n"], C_SUB: ["n", "m"], C_BOX: ["v"], C_BOX_INT: ["v"], C_BOX_STR: ["v"], C_BOX_INNER: ["v"],
    C_BOX_ANY: ["v"], C_INNER2: ["q"], C_BOX_COL: ["v"], C_BOX_COL2: ["v"], C_BOX_INNER2: ["v"], C_PAIR: ["a", "b"], C_PAIR_INT_STR: ["a", "b"], C_NODE: ["val", "next"],
    C_SUBBOX: ["v", "w"], C_SUBBOX_INT: ["v", "w"],
}


# ------------------------------------------------------------------------------------------------
# case context: real objects built from the text of one case

class Ctx:
    def __init__(self, top: list) -> None:
        self.u = universe()
        self.top = top
        self.cls: dict[int, type] = dict(self.u.cls)
        self.aliases: dict[str, typing.Any] = {}
        self.alias_src = {a[0]: a for a in field(top, "aliases")}
        self.bounds = {n: int(c) for n, c in field(top, "bounds")}
        self.objs: dict[tuple, typing.Any] = {}     # (kind, cls, id) -> object
        self.back: dict[int, str] = {}              # id(object) -> serialisation
        self.keep: list = []
        self.fresh = 900

    # ---- annotations
    def tvar(self, name: str):
        b = self.bounds.get(name)
        return self.u.tvar(name, self.cls[b] if b is not None else None)

    def alias(self, name: str):
        if name not in self.aliases:
            _, params, body = self.alias_src[name]
            tps = tuple(self.tvar(p) for p in params)
            self.aliases[name] = typing.TypeAliasType(name, self.ann(body), type_params=tps)
        return self.aliases[name]

    def ann(self, t):  # noqa: C901, PLR0911, PLR0912
        from collections.abc import Callable, Mapping, Sequence, Set

        if isinstance(t, str):
            return {"none": None, "any": typing.Any, "missing": self.u.cls[C_MISSING],
                    "callable": Callable[[], typing.Any], "self": typing.Self}[t]
        k = t[0]
        if k == "cls":
            return self.cls[int(t[1])]
        if k == "lit":
            return typing.Literal[tuple(self.val(p) for p in t[1:])]
        if k == "seq":
            return Sequence[self.ann(t[1])]
        if k == "tupv":
            return tuple[self.ann(t[1]), ...]
        if k == "set":
            return Set[self.ann(t[1])]
        if k == "fset":
            return frozenset[self.ann(t[1])]
        if k == "map":
            return Mapping[self.ann(t[1]), self.ann(t[2])]
        if k == "tupf":
            return tuple[tuple(self.ann(x) for x in t[1:])]
        if k == "union":
            return typing.Union[tuple(self.ann(x) for x in t[1:])]
        if k == "uor":
            parts = [self.ann(x) for x in t[1:]]
            if any(isinstance(p, str) for p in parts):
                return typing.Union[tuple(parts)]
            return functools.reduce(operator.or_, parts)
        if k == "opt":
            return typing.Optional[self.ann(t[1])]
        if k == "ann":
            return typing.Annotated[self.ann(t[1]), "meta"]
        if k == "final":
            return typing.Final[self.ann(t[1])]
        if k == "fwd":
            return t[1]
        if k == "tvar":
            return self.tvar(t[1])
        if k == "alias":
            a = self.alias(t[1])
            if len(t) == 2:
                return a
            args = tuple(self.ann(x) for x in t[2:])
            return a[args if len(args) > 1 else args[0]]
        if k == "gen":
            g = self.cls[int(t[1])]
            args = tuple(self.ann(x) for x in t[2:])
            return g[args if len(args) > 1 else args[0]]
        raise ValueError(f"bad type term {t}")

    # ---- classes
    def make_class(self, spec: list):
        """`(class id (params p*) (tp (n ty)*) (attrs (name ty default|-)*))` -> the real class (specialised
        if tp is given; the generic itself then gets id-1: 100 generic, 101 its specialisation)."""
        cid = int(spec[0])
        tp = field(spec, "tp")
        attrs = field(spec, "attrs")
        tparams = field(spec, "params")
        ann = {}
        defaults = {}
        for name, ty, dflt in attrs:
            ann[name] = self.ann(ty)
            if dflt != "-":
                defaults[name] = self.val(dflt)
        tvs = tuple(self.tvar(p) for p in tparams)

        def body(ns):
            ns["__module__"] = NS_MODULE
            ns["__annotations__"] = ann
            ns.update(defaults)
            if tvs:
                ns["__type_params__"] = tvs

        bases = (self.u.State, typing.Generic[tvs]) if tvs else (self.u.State,)
        name = f"Gen{cid}"
        generic = types.new_class(name, bases, {}, body)
        if tp:
            args = tuple(self.ann(ty) for _, ty in tp)
            cls = generic[args if len(args) > 1 else args[0]]
            self.cls[cid - 1] = generic
        else:
            cls = generic
        self.cls[cid] = cls
        self.keep.append((generic, cls))
        return cls

    def make_family(self, specs: list) -> None:
        """C04: several related classes. `(class id (params…) (tp…) (attrs…) (spec gid)|(base bid)|-)`:
        `spec gid` = specialisation of generic class gid with the `tp` arguments, `base bid` = subclass of class
        bid declaring only the attributes that bid does not have."""
        for e in specs:
            spec = e[1:]
            cid = int(spec[0])
            rel = [x for x in spec if isinstance(x, list) and x and x[0] in ("spec", "base")]
            if rel and rel[0][0] == "spec":
                g = self.cls[int(rel[0][1])]
                args = tuple(self.ann(ty) for _, ty in field(spec, "tp"))
                self.cls[cid] = g[args if len(args) > 1 else args[0]]
            elif rel and rel[0][0] == "base":
                base = self.cls[int(rel[0][1])]
                own = [a for a in field(spec, "attrs") if a[0] not in base.__ATTRIBUTES__]
                ann = {n: self.ann(ty) for n, ty, _ in own}
                dfl = {n: self.val(d) for n, _, d in own if d != "-"}

                def body(ns, ann=ann, dfl=dfl):
                    ns["__module__"] = NS_MODULE
                    ns["__annotations__"] = ann
                    ns.update(dfl)

                self.cls[cid] = types.new_class(f"Gen{cid}", (base,), {}, body)
            else:
                self.make_class([spec[0], ["params", *field(spec, "params")], ["tp"], ["attrs", *field(spec, "attrs")]])
            self.keep.append(self.cls[cid])

    def ser_deep(self, x) -> str:  # noqa: C901, PLR0911, PLR0912
        """identity-free serialisation (C04): nested State instances and objects by value"""
        from haiway import MISSING

        if x is None or x is MISSING or type(x) in (bool, int, float, str, bytes):
            return self.ser(x)
        t = type(x)
        if t is list:
            return show(["L", *[self.ser_deep(e) for e in x]])
        if t is tuple:
            return show(["T", *[self.ser_deep(e) for e in x]])
        if t is set:
            return show(["S", *sorted(self.ser_deep(e) for e in x)])
        if t is frozenset:
            return show(["F", *sorted(self.ser_deep(e) for e in x)])
        if t is dict:
            return show(["D", *[[self.ser_deep(a), self.ser_deep(b)] for a, b in x.items()]])
        if t is types.MappingProxyType:
            return show(["P", *[[self.ser_deep(a), self.ser_deep(b)] for a, b in x.items()]])
        if isinstance(x, enum.Enum):
            return self.ser(x)
        if isinstance(x, self.u.State):
            cid = next((i for i, c in self.cls.items() if c is t), "?")
            return f"(I {cid}{''.join(f' ({k} {self.ser_deep(v)})' for k, v in vars(x).items())})"
        if x in self.u.funcs:
            return f"(C {self.u.funcs.index(x)})"
        cid = next((i for i, c in self.cls.items() if c is t), None)
        k = obj_key(x, cid)
        return f"(O {cid} {k})" if k is not None else f"(X {t.__name__})"

    def ser_deep_fields(self, inst, skip_missing=False) -> str:
        from haiway import MISSING

        return "".join(f" ({k} {self.ser_deep(v)})" for k, v in vars(inst).items()
                       if not (skip_missing and v is MISSING))

    # ---- values
    def remember(self, obj, text: str):
        self.back[id(obj)] = text
        self.keep.append(obj)
        return obj

    def val(self, v):  # noqa: C901, PLR0911, PLR0912
        if isinstance(v, str):
            if v == "N":
                return None
            if v == "M":
                from haiway import MISSING
                return MISSING
            if v in ("b0", "b1"):
                return v == "b1"
            if v[0] == "i":
                return int(v[1:])
            if v[0] == "f":
                return int(v[1:]) / 2
            if v[0] == "s":
                return v[2:-1]
            if v[0] == "y":
                return v[2:-1].encode()
            raise ValueError(f"bad value atom {v}")
        k = v[0]
        if k == "L":
            return self.remember([self.val(x) for x in v[1:]], "")
        if k == "T":
            return tuple(self.val(x) for x in v[1:])
        if k == "S":
            return self.remember({self.val(x) for x in v[1:]}, "")
        if k == "F":
            return frozenset(self.val(x) for x in v[1:])
        if k == "D":
            return self.remember({self.val(a): self.val(b) for a, b in v[1:]}, "")
        if k == "P":
            # a read-only *view* over a dict the caller still owns (and may change later)
            backing_ = {self.val(a): self.val(b) for a, b in v[1:]}
            proxy_ = types.MappingProxyType(backing_)
            if not hasattr(self, "proxy_backing"):
                self.proxy_backing = {}
            self.proxy_backing[id(proxy_)] = backing_
            self.keep.append(proxy_)
            return proxy_
        if k == "E":
            return list(self.cls[int(v[1])])[int(v[2])]
        key = (k, v[1], v[2]) if k in ("I", "O") else (k, v[1])
        if key in self.objs:
            return self.objs[key]
        if k == "C":
            obj = self.u.funcs[int(v[1]) % len(self.u.funcs)]
            text = show(v)
        elif k == "O":
            obj = make_obj(self.cls[int(v[1])], int(v[1]), int(v[2]))
            text = show(v)
        elif k == "I":
            cls = self.cls[int(v[1])]
            obj = cls(**{n: self.val(x) for n, x in v[3:]})
            text = f"(I {v[1]} {v[2]})"
        else:
            raise ValueError(f"bad value {v}")
        self.objs[key] = obj
        return self.remember(obj, text)

    # ---- serialisation of what the real code returned
    def ser(self, x) -> str:  # noqa: C901, PLR0911, PLR0912
        from haiway import MISSING

        if x is None:
            return "N"
        if x is MISSING:
            return "M"
        t = type(x)
        if t is bool:
            return "b1" if x else "b0"
        if t is int:
            return f"i{x}"
        if t is float:
            return f"f{int(x * 2)}" if x * 2 == int(x * 2) else f"f?{x!r}"
        if t is str:
            return f's"{x}"'
        if t is bytes:
            return f'y"{x.decode()}"'
        if t is list:
            return show(["L", *[self.ser(e) for e in x]])
        if t is tuple:
            return show(["T", *[self.ser(e) for e in x]])
        if t is set:
            return show(["S", *sorted(self.ser(e) for e in x)])
        if t is frozenset:
            return show(["F", *sorted(self.ser(e) for e in x)])
        if t is dict:
            return show(["D", *[[self.ser(a), self.ser(b)] for a, b in x.items()]])
        if t is types.MappingProxyType:
            return show(["P", *[[self.ser(a), self.ser(b)] for a, b in x.items()]])
        if isinstance(x, enum.Enum):
            cid = self.u.ids.get(t)
            if cid is not None:
                return f"(E {cid} {list(t).index(x)} {ENUM_MEMBERS[cid][list(t).index(x)]})"
        if id(x) in self.back and self.back[id(x)]:
            return self.back[id(x)]
        if isinstance(x, self.u.State):
            cid = next((i for i, c in self.cls.items() if c is t), None)
            self.fresh += 1
            self.remember(x, f"(I {cid if cid is not None else '?'} {self.fresh})")
            return self.back[id(x)]
        return f"(X {t.__name__})"

    def ser_fields(self, inst) -> str:
        return " ".join(f"({k} {self.ser(v)})" for k, v in vars(inst).items())


def make_obj(cls, cid: int, k: int):
    if cid == C_UUID:
        return uuid.UUID(int=k)
    if cid == C_DATE:
        return _dt.date(2020, 1, 1) + _dt.timedelta(days=k)
    if cid == C_DATETIME:
        return _dt.datetime(2020, 1, 1) + _dt.timedelta(days=k)
    if cid == C_TIME:
        return _dt.time(hour=k % 24)
    if cid == C_TIMEDELTA:
        return _dt.timedelta(days=k)
    if cid == C_TIMEZONE:
        return _dt.timezone(_dt.timedelta(hours=k % 12))
    if cid in (C_PATH, C_POSIXPATH):
        return Path(f"/p{k}")
    return cls(k)


def obj_key(x, cid):  # noqa: PLR0911
    """inverse of make_obj"""
    try:
        if cid == C_UUID:
            return x.int
        if cid == C_DATE:
            return (x - _dt.date(2020, 1, 1)).days
        if cid == C_DATETIME:
            return (x - _dt.datetime(2020, 1, 1)).days
        if cid == C_TIME:
            return x.hour
        if cid == C_TIMEDELTA:
            return x.days
        if cid == C_TIMEZONE:
            return int(x.utcoffset(None).total_seconds() // 3600)
        if cid in (C_PATH, C_POSIXPATH):
            return int(x.name[1:])
        if cid in (C_OBJ1, C_OBJ2, C_PRETEND):
            return x.k
    except Exception:  # noqa: BLE001
        return None
    return None


def exc_name(exc: BaseException) -> str:
    if isinstance(exc, ExceptionGroup):
        return "ExceptionGroup"
    n = type(exc).__name__
    return n if n in ("TypeError", "ValueError", "AttributeError") else f"Other:{n}"


# ------------------------------------------------------------------------------------------------
# the independent oracle: surface denotation of annotations over *serialised* values

def class_of(v) -> int:  # noqa: PLR0911
    if isinstance(v, str):
        return {"N": C_NONE, "M": C_MISSING, "b": C_BOOL, "i": C_INT, "f": C_FLOAT, "s": C_STR, "y": C_BYTES}[v[0]]
    k = v[0]
    if k in "LTSFDP":
        return {"L": C_LIST, "T": C_TUPLE, "S": C_SET, "F": C_FROZENSET, "D": C_DICT, "P": C_MPROXY}[k]
    if k == "C":
        return C_FUNCTION
    return int(v[1])


def lit_key(v):
    """value and type of a literal candidate (PEP 586: `Literal[1]` is not `Literal[True]`)"""
    if isinstance(v, str) and v[0] in "Nbisy":
        return v
    if isinstance(v, list) and v[0] == "E":
        return ("E", v[1], v[2])
    return None


class Oracle:
    """`conforms` / `convert` for surface terms; env maps type-variable names to closed terms."""

    def __init__(self, top: list, self_cls: int | None) -> None:
        self.sub = {(int(a), int(b)) for a, b in field(top, "sub")}
        self.aliases = {a[0]: (a[1], a[2]) for a in field(top, "aliases")}
        self.bounds = {n: c for n, c in field(top, "bounds")}
        self.names = {n: c for n, c in field(top, "names")}
        self.specs = {(s[0], show(s[2:])): s[1] for s in field(top, "specs")}
        self.self_cls = self_cls
        self.blame: str | None = None     # kind of the innermost term at which non-conformance was found

    def isinst(self, v, c: int) -> bool:
        k = class_of(v)
        return k == c or (k, c) in self.sub

    def subst(self, t, env):
        """close a term: replace type variables by what they stand for"""
        if isinstance(t, str):
            return t
        if t[0] == "tvar":
            if t[1] in env:
                return env[t[1]]
            return ["cls", self.bounds[t[1]]] if t[1] in self.bounds else "any"
        if t[0] in ("cls", "lit", "fwd"):
            return t
        if t[0] in ("alias", "gen"):
            return [t[0], t[1], *[self.subst(x, env) for x in t[2:]]]
        return [t[0], *[self.subst(x, env) for x in t[1:]]]

    def walk(self, t, v, env):
        """-> (conforms, converted value or None); records the innermost blamed term kind in `self.blame`"""
        r = self._walk(t, v, env)
        if not r[0] and self.blame is None:
            self.blame = t if isinstance(t, str) else t[0]
        return r

    def _walk(self, t, v, env):  # noqa: C901, PLR0911, PLR0912
        no = (False, None)
        if isinstance(t, str):
            if t == "any":
                return True, v
            if t == "none":
                return (v == "N"), v
            if t == "missing":
                return (v == "M"), v
            if t == "callable":
                return (isinstance(v, list) and v[0] == "C"), v
            if t == "self":
                return (self.self_cls is not None and self.isinst(v, self.self_cls)), v
            raise ValueError(t)
        k = t[0]
        if k == "cls":
            return self.isinst(v, int(t[1])), v
        if k == "fwd":
            return self.isinst(v, int(self.names[t[1]])), v
        if k == "lit":
            key = lit_key(v)
            return (key is not None and any(lit_key(p) == key for p in t[1:])), v
        if k in ("seq", "tupv"):
            if not (isinstance(v, list) and v[0] in "LT"):
                return no
            rs = [self.walk(t[1], x, env) for x in v[1:]]
            return all(r[0] for r in rs), ["T", *[r[1] for r in rs]]
        if k in ("set", "fset"):
            if not (isinstance(v, list) and v[0] in "SF"):
                return no
            rs = [self.walk(t[1], x, env) for x in v[1:]]
            return all(r[0] for r in rs), ["F", *[r[1] for r in rs]]
        if k == "map":
            if not (isinstance(v, list) and v[0] in "DP"):
                return no
            rs = [(self.walk(t[1], a, env), self.walk(t[2], b, env)) for a, b in v[1:]]
            return all(a[0] and b[0] for a, b in rs), ["P", *[[a[1], b[1]] for a, b in rs]]
        if k == "tupf":
            if not (isinstance(v, list) and v[0] in "LT") or len(v) - 1 != len(t) - 1:
                return no
            rs = [self.walk(a, x, env) for a, x in zip(t[1:], v[1:])]
            return all(r[0] for r in rs), ["T", *[r[1] for r in rs]]
        if k in ("union", "uor"):
            for a in t[1:]:
                r = self.walk(a, v, env)
                self.blame = None
                if r[0]:
                    return r
            return no
        if k == "opt":
            r = self.walk(t[1], v, env)
            self.blame = None
            return r if r[0] else ((v == "N"), v)
        if k in ("ann", "final"):
            return self.walk(t[1], v, env)
        if k == "tvar":
            return self.walk(self.subst(t, env), v, {})
        if k == "alias":
            params, body = self.aliases[t[1]]
            env2 = dict(env)
            env2.update({p: self.subst(a, env) for p, a in zip(params, t[2:])})
            return self.walk(body, v, env2)
        if k == "gen":
            args = [self.subst(a, env) for a in t[2:]]
            return self.isinst(v, int(self.specs[(t[1], show(args))])), v
        raise ValueError(f"bad term {t}")


def canon_sets(v):
    """sort set elements by serialisation (the harness' canonical order)"""
    if isinstance(v, str):
        return v
    if v[0] in "SF":
        return [v[0], *sorted((canon_sets(x) for x in v[1:]), key=show)]
    if v[0] == "I":
        return v[:3]
    if v[0] in "DP":
        return [v[0], *[[canon_sets(a), canon_sets(b)] for a, b in v[1:]]]
    if v[0] in "EOC":
        return v
    return [v[0], *[canon_sets(x) for x in v[1:]]]
