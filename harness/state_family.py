"""State type family used by the scope checks (module level, no postponed annotations: haiway resolves them)."""
from haiway import State


class T0(State):
    v: int = 0


class T1(State):
    """instances with an even `v` (the default-constructed one included) are falsy: a State may define `__bool__`
    or `__len__`; presence in a scope must never be decided by truthiness"""

    v: int = 0

    def __bool__(self) -> bool:
        return self.v % 2 == 1


class T2(State):
    v: int


class T3(State):
    v: int


class G[X](State):
    v: int
    tag: X | None = None


FAMILY = [T0, T1, T2, T3, G[int], G[str]]
