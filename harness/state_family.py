"""State type family used by the scope checks (module level, no postponed annotations: haiway resolves them)."""
from haiway import Missing, State


class T0(State):
    v: int = 0


class T1(State):
    """instances with an even `v` (the default-constructed one included) are falsy: a State may define `__bool__`
    or `__len__`; presence in a scope must never be decided by truthiness"""

    v: int = 0

    def __bool__(self) -> bool:
        return self.v % 2 == 1


class T2(State):
    v: int


class T3(State):
    v: int


class G[X](State):
    v: int
    tag: X | None = None


class T4(State):
    """an attribute without a declared default that still needs no argument (it accepts the MISSING placeholder):
    `T4()` works, so a lookup outside any supplier default-constructs it"""

    w: int | Missing
    v: int = 0


FAMILY = [T0, T1, T2, T3, G[int], G[str], T4]
