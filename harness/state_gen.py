"""Type-directed generator for C05/C04: surface annotation terms (depth <= 4 over the property's
vocabulary), conforming values generated *from* the term, and breaking of a value at one position.
Pure text-level: produces S-expression terms (see state_common), never touches haiway."""
from __future__ import annotations

from harness.state_common import (
    BASE_NAMES, BASE_SPECS, C_BOX, C_BOX_ANY, C_BOX_COL, C_BOX_COL2, C_BOX_INNER, C_BOX_INNER2, C_BOX_INT, C_BOX_STR, C_BYTES,
    C_BOOL, C_COL, C_COL2, C_INNER2, C_PRETEND,
    C_DATE, C_DATETIME, C_FLOAT, C_HASLEN, C_ICOL, C_INNER, C_INT, C_NAMED, C_NODE, C_OBJ1, C_OBJ2, C_PAIR,
    C_PAIR_INT_STR, C_PATH, C_POSIXPATH, C_SCOL, C_STR, C_SUB, C_TIME, C_TIMEDELTA, C_TIMEZONE, C_UUID,
    ENUM_MEMBERS, show,
)

HASHABLE_LEAVES = [C_BOOL, C_INT, C_FLOAT, C_STR, C_BYTES, C_UUID, C_DATE, C_DATETIME, C_TIME, C_TIMEDELTA,
                   C_TIMEZONE, C_PATH, C_COL, C_SCOL, C_ICOL, C_NAMED, C_COL2]
STATE_LEAVES = [C_INNER, C_SUB, C_NODE, C_BOX, C_BOX_INT, C_BOX_STR, C_PAIR, C_PAIR_INT_STR, C_INNER2, C_BOX_COL, C_BOX_COL2,
                C_BOX_INNER2]
OTHER_LEAVES = [C_HASLEN]
LIT_POOL = ["N", "b0", "b1", "i0", "i1", "i2", "i-1", 's"a"', 's"b"', 's"ab"', 'y"a"',
            ["E", str(C_COL), "0", "-"], ["E", str(C_COL), "1", "-"], ["E", str(C_SCOL), "0", 's"a"'],
            ["E", str(C_ICOL), "0", "i1"]]
SPEC_ARGS = {C_INT: C_BOX_INT, C_STR: C_BOX_STR, C_INNER: C_BOX_INNER, C_COL: C_BOX_COL, C_COL2: C_BOX_COL2, C_INNER2: C_BOX_INNER2}


def cls(c: int):
    return ["cls", str(c)]


def erase(t):
    """the term with Annotated/Final stripped, forward references replaced by their class and the two
    union spellings identified – what typing's own normalisation would compare"""
    if isinstance(t, str):
        return t
    if t[0] in ("ann", "final"):
        return erase(t[1])
    if t[0] == "fwd":
        return cls(dict((n, int(c)) for n, c in BASE_NAMES)[t[1]])
    if t[0] == "uor":
        return ["union", *[erase(x) for x in t[1:]]]
    if t[0] in ("cls", "lit", "tvar"):
        return t
    if t[0] in ("alias", "gen"):
        return [t[0], t[1], *[erase(x) for x in t[2:]]]
    return [t[0], *[erase(x) for x in t[1:]]]


class Gen:
    def __init__(self, rng) -> None:
        self.rng = rng
        self.aliases: list[list] = []     # [name, [params], body] in creation order (later ones may use earlier ones)
        self.class_params: list[str] = []
        self.bounds: dict[str, int] = {}
        self.bindings: dict[str, list] = {}   # class type arguments of the specialisation under test
        self.next_id = 0
        self._alias_pool: list[list] = []

    def oid(self) -> int:
        self.next_id += 1
        return self.next_id

    # ------------------------------------------------------------------ types
    def leaf(self, hashable: bool, in_alias: bool, params: list[str], fwd_ok=True, no_self=False):  # noqa: C901, PLR0911, PLR0912
        r = self.rng
        x = r.random()
        if x < 0.30:
            return cls(r.choice(HASHABLE_LEAVES))
        if x < 0.38:
            k = r.randint(1, 3)
            return ["lit", *r.sample(LIT_POOL, k)]
        if x < 0.44:
            return "none"
        if x < 0.50:
            return "any"
        if x < 0.54 and not hashable:
            return "missing"
        if x < 0.58 and not hashable:
            return "callable" if r.random() < 0.7 else cls(C_HASLEN)
        if x < 0.72 and not hashable:
            return cls(r.choice(STATE_LEAVES))
        if x < 0.76 and not hashable and fwd_ok:
            return ["fwd", r.choice(["Inner", "Node", "Sub"])]
        if x < 0.78 and fwd_ok:
            return ["fwd", "Col"]
        if x < 0.82 and not hashable and not in_alias and not no_self:
            return "self"
        if x < 0.92 and params:
            return ["tvar", r.choice(params)]
        return cls(r.choice([C_INT, C_STR, C_BOOL, C_FLOAT]))

    def ty(self, depth: int, *, hashable=False, in_alias=False, params=(), top=False, in_union=False,  # noqa: C901, PLR0911, PLR0912
           fwd_ok=True, no_self=False):
        """`fwd_ok`: a forward reference may be written here (inside an alias body only below plain
        containers, which keep the string; typing's own constructs turn it into a module-less ForwardRef
        that haiway cannot evaluate).  `no_self`: `Self` would be resolved to Any here (alias arguments)."""
        r = self.rng
        params = list(params)
        if depth <= 0 or r.random() < 0.22:
            return self.leaf(hashable, in_alias, params, fwd_ok, no_self)
        kinds = ["seq", "tupv", "tupf", "fset", "set", "map", "union", "uor", "opt", "ann", "alias", "gen"]
        weights = [3, 2, 3, 2, 2, 3, 2, 1, 2, 1, 3, 1]
        k = r.choices(kinds, weights)[0]
        plain = k in ("seq", "tupv", "set", "fset", "map", "tupf")
        fwd_ok = fwd_ok and (plain or not in_alias)
        sub = dict(hashable=hashable, in_alias=in_alias, params=params, fwd_ok=fwd_ok, no_self=no_self)
        if k in ("seq", "tupv"):
            if hashable and k == "seq":
                k = "tupv"
            return [k, self.ty(depth - 1, **sub)]
        if k in ("set", "fset"):
            return ["fset" if hashable else k, self.ty(depth - 1, **{**sub, "hashable": True})]
        if k == "map":
            if hashable:
                return self.ty(depth - 1, **sub)
            return ["map", self.ty(min(depth - 1, 1), **{**sub, "hashable": True}), self.ty(depth - 1, **sub)]
        if k == "tupf":
            return ["tupf", *[self.ty(depth - 1, **sub) for _ in range(r.randint(1, 3))]]
        if k in ("union", "uor"):
            alts: list = []
            seen = set()
            for _ in range(r.randint(2, 3)):
                a = self.ty(depth - 1, in_union=True, **sub)
                key = show(erase(a))
                if isinstance(a, list) and a[0] in ("union", "uor", "opt"):
                    continue
                if key not in seen:
                    seen.add(key)
                    alts.append(a)
            if len(alts) < 2:
                return alts[0] if alts else self.leaf(hashable, in_alias, params, fwd_ok, no_self)
            if k == "uor" and any(isinstance(a, list) and a[0] == "fwd" for a in alts):
                k = "union"
            return [k, *alts]
        if k == "opt":
            a = self.ty(depth - 1, in_union=True, **sub)
            if a == "none" or (isinstance(a, list) and a[0] in ("opt",)) or show(erase(a)) == "none":
                return a
            return ["opt", a]
        if k == "ann":
            return ["ann", self.ty(depth - 1, **sub)]
        if k == "alias":
            usable = self._alias_pool if in_alias else self.aliases
            usable = [a for a in usable if not hashable or a[3]]
            if not usable:
                return self.ty(depth - 1, **sub)
            a = r.choice(usable)
            # inside alias arguments and alias bodies a parametrised alias is always applied: a bare one would have
            # its own parameters captured by an enclosing application (haiway binds alias arguments by name, lazily)
            if a[1] and (no_self or in_alias or r.random() < 0.9):
                return ["alias", a[0], *[self.ty(min(depth - 1, 1), **{**sub, "no_self": True}) for _ in a[1]]]
            return ["alias", a[0]]
        if k == "gen":
            if hashable or not params or in_alias:
                return self.ty(depth - 1, **sub)
            return ["gen", str(C_BOX), ["tvar", r.choice(params)]]
        raise AssertionError(k)

    def make_aliases(self, n: int) -> None:
        """aliases are created in order; the body of a later one may use earlier ones (non-recursive)"""
        r = self.rng
        for i in range(n):
            params = [f"P{i}{j}" for j in range(r.choice([0, 0, 1, 1, 2]))]
            self._alias_pool = list(self.aliases)
            hashable = r.random() < 0.4
            earlier = [a for a in self.aliases if a[1] and (a[3] or not hashable)]
            if params and earlier and r.random() < 0.4:
                # a parametrised alias that forwards its own parameters to an earlier parametrised alias
                # (`type Twice[A] = Pair[A, A]`, `type Table[V] = Mapping[str, Row[V]]`)
                e = r.choice(earlier)
                body = ["alias", e[0], *[["tvar", r.choice(params)] for _ in e[1]]]
                if not hashable and r.random() < 0.4:
                    body = r.choice([["seq", body], ["map", cls(C_STR), body], ["opt", body]])
                self.aliases.append([f"A{i}", params, body, hashable and e[3]])
                continue
            body = self.ty(r.randint(1, 2), hashable=hashable, in_alias=True, params=params)
            self.aliases.append([f"A{i}", params, body, hashable])

    # ------------------------------------------------------------------ values
    def tvar_term(self, name: str, env: dict):
        if name in env:
            return env[name], {}
        if name in self.bounds:
            return cls(self.bounds[name]), {}
        return "any", {}

    def inst_of(self, c: int, hashable: bool, depth: int):  # noqa: C901, PLR0911, PLR0912
        """a value whose class is (a subclass of) c"""
        r = self.rng
        if c == C_BOOL:
            return r.choice(["b0", "b1"])
        if c == C_INT:
            return r.choice(["i0", "i1", "i2", "i-1", "i7", "b1", "b0", ["E", str(C_ICOL), "0", "i1"]])
        if c == C_FLOAT:
            return r.choice(["f0", "f1", "f2", "f3", "f-5"])
        if c == C_STR:
            return r.choice(['s""', 's"a"', 's"b"', 's"ab"', 's"xyz"', ["E", str(C_SCOL), "0", 's"a"']])
        if c == C_BYTES:
            return r.choice(['y""', 'y"a"', 'y"ab"'])
        if c in (C_UUID, C_TIME, C_TIMEDELTA, C_TIMEZONE, C_DATETIME):
            return ["O", str(c), str(r.randint(0, 9))]
        if c == C_DATE:
            return ["O", str(r.choice([C_DATE, C_DATETIME])), str(r.randint(0, 9))]
        if c in (C_PATH, C_POSIXPATH):
            return ["O", str(C_POSIXPATH), str(r.randint(0, 9))]
        if c in (C_COL, C_SCOL, C_ICOL, C_COL2):
            i = r.randrange(len(ENUM_MEMBERS[c]))
            return ["E", str(c), str(i), ENUM_MEMBERS[c][i]]
        if c == C_NAMED:
            return ["O", str(C_OBJ1), str(r.randint(0, 9))]
        if c == C_HASLEN:
            return r.choice([["L", "i1"], ["T"], 's"ab"', ["D"], ["F", "i1"]])
        if c == C_INNER:
            if r.random() < 0.3:
                return ["I", str(C_SUB), str(self.oid()), ["n", "i1"], ["m", 's"a"']]
            return ["I", str(C_INNER), str(self.oid()), ["n", r.choice(["i0", "i3"])]]
        if c == C_SUB:
            return ["I", str(C_SUB), str(self.oid()), ["n", "i2"], ["m", r.choice(['s""', 's"b"'])]]
        if c == C_NODE:
            nxt = self.inst_of(C_NODE, False, depth + 1) if depth < 2 and r.random() < 0.4 else "N"
            return ["I", str(C_NODE), str(self.oid()), ["val", r.choice(["i1", "i2"])], ["next", nxt]]
        if c == C_BOX:
            k = r.choice([C_BOX, C_BOX_INT, C_BOX_STR, C_BOX_COL, C_BOX_COL2, C_BOX_INNER2])
            return self.inst_of(k, False, depth) if k != C_BOX else ["I", str(C_BOX), str(self.oid()), ["v", r.choice(["i1", 's"a"', "N"])]]
        if c in (C_BOX_INT, C_BOX_ANY):
            return ["I", str(c), str(self.oid()), ["v", r.choice(["i1", "i5"])]]
        if c == C_BOX_STR:
            return ["I", str(c), str(self.oid()), ["v", 's"a"']]
        if c == C_BOX_INNER:
            return ["I", str(c), str(self.oid()), ["v", self.inst_of(C_INNER, False, depth + 1)]]
        if c == C_INNER2:
            return ["I", str(c), str(self.oid()), ["q", r.choice(['s""', 's"b"'])]]
        if c in (C_BOX_COL, C_BOX_COL2):
            return ["I", str(c), str(self.oid()), ["v", self.inst_of(C_COL if c == C_BOX_COL else C_COL2, True, depth + 1)]]
        if c == C_BOX_INNER2:
            return ["I", str(c), str(self.oid()), ["v", self.inst_of(C_INNER2, False, depth + 1)]]
        if c == C_PAIR:
            if r.random() < 0.5:
                return self.inst_of(C_PAIR_INT_STR, False, depth)
            return ["I", str(C_PAIR), str(self.oid()), ["a", "N"], ["b", "i1"]]
        if c == C_PAIR_INT_STR:
            return ["I", str(c), str(self.oid()), ["a", "i1"], ["b", 's"b"']]
        if c == C_OBJ2:
            return ["O", str(C_OBJ2), str(r.randint(0, 9))]
        return None

    def val(self, t, env: dict, hashable=False, depth=0):  # noqa: C901, PLR0911, PLR0912
        """a value conforming to t (None when none can be produced, e.g. for `Self`)"""
        r = self.rng
        if isinstance(t, str):
            if t == "none":
                return "N"
            if t == "missing":
                return "M"
            if t == "callable":
                return ["C", str(r.randint(0, 3))]
            if t == "self":
                return None
            if t == "any":
                pool = ["N", "i1", 's"s"', "b1", "f3", ["T", "i1"], ["F"]]
                if not hashable:
                    pool += [["L", "i1", ["L"]], ["D", ['s"k"', ["L", "i1"]]], ["S", "i1"], ["O", str(C_OBJ2), "1"]]
                return r.choice(pool)
            raise ValueError(t)
        k = t[0]
        if k == "cls":
            return self.inst_of(int(t[1]), hashable, depth)
        if k == "fwd":
            return self.inst_of(int(dict(BASE_NAMES)[t[1]]), hashable, depth)
        if k == "lit":
            return r.choice(t[1:])
        if k in ("seq", "tupv"):
            n = r.choice([0, 1, 1, 2, 3]) if depth < 3 else r.choice([0, 1])
            xs = [self.val(t[1], env, hashable, depth + 1) for _ in range(n)]
            xs = [x for x in xs if x is not None]
            return ["T" if hashable or r.random() < 0.5 else "L", *xs]
        if k in ("set", "fset"):
            n = r.choice([0, 1, 2, 3])
            xs = [self.val(t[1], env, True, depth + 1) for _ in range(n)]
            xs = [x for x in xs if x is not None]
            return ["F" if hashable or k == "fset" and r.random() < 0.7 or r.random() < 0.4 else "S", *xs]
        if k == "map":
            n = r.choice([0, 1, 2, 3])
            kvs = []
            for _ in range(n):
                a, b = self.val(t[1], env, True, depth + 1), self.val(t[2], env, False, depth + 1)
                if a is not None and b is not None:
                    kvs.append([a, b])
            return ["D" if r.random() < 0.75 else "P", *kvs]
        if k == "tupf":
            xs = [self.val(a, env, hashable, depth + 1) for a in t[1:]]
            if any(x is None for x in xs):
                return None
            return ["T" if hashable or r.random() < 0.5 else "L", *xs]
        if k in ("union", "uor"):
            alts = list(t[1:])
            r.shuffle(alts)
            for a in alts:
                v = self.val(a, env, hashable, depth)
                if v is not None:
                    return v
            return None
        if k == "opt":
            v = self.val(t[1], env, hashable, depth) if r.random() < 0.7 else None
            return v if v is not None else "N"
        if k in ("ann", "final"):
            return self.val(t[1], env, hashable, depth)
        if k == "tvar":
            t2, env2 = self.tvar_term(t[1], env)
            return self.val(t2, env2, hashable, depth)
        if k == "alias":
            a = next(a for a in self.aliases if a[0] == t[1])
            env2 = dict(env)
            env2.update({p: self.close(x, env) for p, x in zip(a[1], t[2:])})
            return self.val(a[2], env2, hashable, depth)
        if k == "gen":
            arg = self.close(t[2], env)
            if arg == "any":
                return self.inst_of(C_BOX_ANY, False, depth)
            return self.inst_of(SPEC_ARGS[int(arg[1])], False, depth)
        raise ValueError(t)

    def close(self, t, env):
        if isinstance(t, str):
            return t
        if t[0] == "tvar":
            return self.tvar_term(t[1], env)[0]
        if t[0] in ("cls", "lit", "fwd"):
            return t
        if t[0] in ("alias", "gen"):
            return [t[0], t[1], *[self.close(x, env) for x in t[2:]]]
        return [t[0], *[self.close(x, env) for x in t[1:]]]


# ---------------------------------------------------------------------------------------------------
# breaking / normalising values

JUNK = ["N", "M", "b1", "b0", "i0", "i1", "f2", "f3", 's"a"', 's"ab"', 'y"a"', ["L"], ["L", "i1"], ["T", "i1", 's"a"'],
        ["S"], ["F", "i1"], ["D"], ["D", ['s"ab"', 's"cd"']], ["D", ['s"a"', "i1"]], ["E", str(C_COL), "0", "-"],
        ["E", str(C_SCOL), "0", 's"a"'], ["E", str(C_ICOL), "0", "i1"], ["I", str(C_INNER), "77", ["n", "i0"]],
        ["I", str(C_BOX), "78", ["v", "i1"]], ["I", str(C_BOX_STR), "79", ["v", 's"a"']], ["C", "0"],
        ["O", str(C_UUID), "0"], ["O", str(C_OBJ2), "3"], ["L", ["L", "i1"]], ["T", "N"], ["O", str(C_PRETEND), "1"]]


def paths(v, pre=()):
    yield pre
    if isinstance(v, list):
        if v[0] in "LTSF":
            for i, x in enumerate(v[1:], 1):
                yield from paths(x, (*pre, i))
        elif v[0] in "DP":
            for i, (a, b) in enumerate(v[1:], 1):
                yield from paths(a, (*pre, i, 0))
                yield from paths(b, (*pre, i, 1))


def get_at(v, path):
    for p in path:
        v = v[p]
    return v


def set_at(v, path, new):
    if not path:
        return new
    v = list(v)
    v[path[0]] = set_at(v[path[0]], path[1:], new)
    return v


def break_node(rng, x):  # noqa: C901, PLR0911, PLR0912
    """a plausible wrong value in place of x"""
    r = rng.random()
    if isinstance(x, str):
        if x[0] == "b":
            return rng.choice([f"i{x[1]}", f"f{2 * int(x[1])}", "N"])
        if x[0] == "i":
            n = int(x[1:])
            return rng.choice([f"f{2 * n}", "b1" if n == 1 else "b0" if n == 0 else f's"{abs(n)}"', f's"{abs(n)}"',
                               ["E", str(C_ICOL), "0", "i1"]])
        if x[0] == "f":
            return rng.choice([f"i{int(x[1:]) // 2}", "b1", "N"])
        if x[0] == "s":
            return rng.choice(['y"' + x[2:], ["E", str(C_SCOL), "0", 's"a"'], ["L", x], "i1", "N"])
        if x[0] == "y":
            return rng.choice(['s"' + x[2:], "N"])
        if x == "M" and rng.random() < 0.5:
            return ["O", str(C_PRETEND), str(rng.randint(0, 3))]     # looks like Missing to isinstance, is not MISSING
        return rng.choice(JUNK)
    k = x[0]
    if k in "LT" and r < 0.75:
        c = rng.random()
        if c < 0.3 and len(x) > 1:
            i = rng.randrange(1, len(x))
            return [*x[:i], *x[i + 1:]]
        if c < 0.55:
            i = rng.randrange(1, len(x) + 1)
            return [*x[:i], rng.choice(JUNK), *x[i:]]
        if c < 0.7:
            return ["S", *[e for e in x[1:]]]
        if c < 0.85:
            return 's"ab"'
        return ["D", *[[e, "N"] for e in x[1:]]]
    if k in "SF" and r < 0.75:
        c = rng.random()
        if c < 0.5:
            return [k, *x[1:], rng.choice(JUNK)]
        return ["L", *x[1:]]
    if k in "DP" and r < 0.75:
        c = rng.random()
        if c < 0.35 and len(x) > 1:
            i = rng.randrange(1, len(x))
            return [*x[:i], [rng.choice(JUNK), x[i][1]], *x[i + 1:]]
        if c < 0.6 and len(x) > 1:
            i = rng.randrange(1, len(x))
            return [*x[:i], [x[i][0], rng.choice(JUNK)], *x[i + 1:]]
        if c < 0.8:
            return ["L", *[p[0] for p in x[1:]]]
        return [k, *x[1:], [rng.choice(JUNK), rng.choice(JUNK)]]
    if k == "E" and r < 0.6:
        return x[3] if x[3] != "-" else f"i{int(x[2]) + 1}"
    if k == "I" and r < 0.6:
        return rng.choice([["I", str(C_INNER), "77", ["n", "i0"]], ["I", str(C_BOX), "78", ["v", "i1"]],
                           ["I", str(C_BOX_STR), "79", ["v", 's"a"']], ["I", str(C_PAIR), "80", ["a", "i1"], ["b", "i2"]]])
    return rng.choice(JUNK)


def eq_key(v):  # noqa: C901, PLR0911
    """key under which Python's == / hash identify values (for de-duplicating set elements / dict keys);
    None for unhashable values"""
    if isinstance(v, str):
        if v[0] == "b":
            return ("n", 2 * int(v[1]))
        if v[0] == "i":
            return ("n", 2 * int(v[1:]))
        if v[0] == "f":
            return ("n", int(v[1:]))
        return None if v == "M" else (v[0], v)     # Missing defines __eq__ without __hash__
    k = v[0]
    if k == "T":
        ks = [eq_key(x) for x in v[1:]]
        return None if any(x is None for x in ks) else ("T", tuple(ks))
    if k == "F":
        ks = [eq_key(x) for x in v[1:]]
        return None if any(x is None for x in ks) else ("F", frozenset(ks))
    if k == "E":
        if v[3] == "-":
            return ("E", v[1], v[2])
        return eq_key(v[3])
    if k == "O":
        return ("O", v[1], v[2])
    if k == "C":
        return ("C", str(int(v[1]) % 4))
    return None   # list, set, dict, mappingproxy, State instance


def normalise(v):
    """what Python would build from the literal: set elements / dict keys de-duplicated (first wins; for
    dicts the first key object is kept and the last value wins), unhashable elements dropped; sets sorted."""
    if isinstance(v, str):
        return v
    k = v[0]
    if k in "LT":
        return [k, *[normalise(x) for x in v[1:]]]
    if k in "SF":
        seen, out = set(), []
        for x in (normalise(x) for x in v[1:]):
            key = eq_key(x)
            if key is not None and key not in seen:
                seen.add(key)
                out.append(x)
        return [k, *sorted(out, key=show)]
    if k in "DP":
        seen: dict = {}
        for a, b in v[1:]:
            a, b = normalise(a), normalise(b)
            key = eq_key(a)
            if key is None:
                continue
            if key in seen:
                seen[key][1] = b
            else:
                seen[key] = [a, b]
        return [k, *seen.values()]
    if k == "I":
        return [*v[:3], *[[n, normalise(x)] for n, x in v[3:]]]
    return v


def depth_of(t) -> int:
    if isinstance(t, str) or t[0] in ("cls", "lit", "fwd", "tvar"):
        return 0
    kids = t[2:] if t[0] in ("alias", "gen") else t[1:]
    return 1 + max((depth_of(x) for x in kids), default=0)


def vocab(t, out: set) -> None:
    if isinstance(t, str):
        out.add(t)
        return
    if t[0] == "cls":
        out.add(f"cls:{t[1]}")
        return
    out.add(t[0])
    for x in t[1:]:
        if isinstance(x, list) or x in ("none", "any", "missing", "callable", "self"):
            if t[0] != "lit":
                vocab(x, out)
