"""Virtual-time asyncio event loop.

Importing this module replaces ``time.monotonic`` and ``time.sleep`` by a virtual clock *before*
``haiway`` is imported (so ``from time import monotonic`` inside the library binds the virtual one)
and offers ``VLoop``: a ``SelectorEventLoop`` whose ``time()`` is the same clock and which can be
stepped to quiescence from outside any task.  All times used by the harness are integer-valued
floats, exact in binary floating point.
"""
import time as _time
import asyncio
import heapq


class VClock:
    def __init__(self) -> None:
        self.now = 1000.0

    def monotonic(self) -> float:
        return self.now


CLOCK = VClock()
_REAL_MONOTONIC = _time.monotonic
_REAL_SLEEP = _time.sleep
_time.monotonic = CLOCK.monotonic
SLEEPS: list[float] = []


def _vsleep(d: float) -> None:
    SLEEPS.append(d)
    CLOCK.now += max(d, 0)


_time.sleep = _vsleep


def real_monotonic() -> float:
    return _REAL_MONOTONIC()


def _unfreeze_stdlib() -> None:
    """Modules that poll with `time.monotonic()` looked up dynamically would spin for ever on a frozen clock
    (multiprocessing.connection.wait(timeout=0) inside Pool's handler thread): give them the real clock."""
    import types

    real = types.SimpleNamespace(monotonic=_REAL_MONOTONIC, sleep=_REAL_SLEEP, time=_time.time,
                                 perf_counter=_time.perf_counter)
    try:
        import multiprocessing.connection as _mc
        import multiprocessing.pool as _mp
        import multiprocessing.queues as _mq
        import multiprocessing.synchronize as _ms

        for mod in (_mc, _mp, _mq, _ms):
            if hasattr(mod, "time"):
                mod.time = real
    except Exception:  # noqa: BLE001
        pass
    try:  # Popen.wait(timeout=…) polls through time.sleep: must not advance (or record on) the virtual clock
        import concurrent.futures._base as _cfb
        import subprocess as _sp

        for mod in (_sp, _cfb):
            if hasattr(mod, "time"):
                mod.time = real
    except Exception:  # noqa: BLE001
        pass


_unfreeze_stdlib()


class NoQuiescence(RuntimeError):
    pass


class VLoop(asyncio.SelectorEventLoop):
    def time(self) -> float:  # type: ignore[override]
        return CLOCK.now

    def _drop_cancelled(self) -> None:
        while self._scheduled and self._scheduled[0]._cancelled:
            h = heapq.heappop(self._scheduled)
            h._scheduled = False

    def quiesce(self, advance: bool = False, max_iters: int = 100000) -> int:
        """Run until there are no ready callbacks (timers due at the current virtual instant fire).
        With ``advance`` the clock also jumps to the next timer until none is left."""
        n = 0
        while True:
            self._drop_cancelled()
            if not self._ready:
                if self._scheduled and self._scheduled[0]._when <= CLOCK.now:
                    pass
                elif advance and self._scheduled:
                    CLOCK.now = self._scheduled[0]._when
                else:
                    return n
            self.call_soon(self.stop)  # exactly one iteration
            self.run_forever()
            n += 1
            if n > max_iters:
                raise NoQuiescence("no quiescence")

    def advance_to(self, t: float) -> None:
        while True:
            self.quiesce()
            self._drop_cancelled()
            if self._scheduled and self._scheduled[0]._when <= t:
                CLOCK.now = max(CLOCK.now, self._scheduled[0]._when)
            else:
                CLOCK.now = max(CLOCK.now, t)
                self.quiesce()
                return

    def advance(self, dt: float) -> None:
        self.advance_to(CLOCK.now + dt)

    def pending_timers(self) -> int:
        self._drop_cancelled()
        return sum(1 for h in self._scheduled if not h._cancelled)


def new_loop() -> VLoop:
    CLOCK.now = 1000.0  # every case starts at the same exact instant (integer ticks stay exact)
    loop = VLoop()
    asyncio.set_event_loop(loop)
    return loop


def close_loop(loop: VLoop) -> None:
    """Cancel whatever is still pending, let it unwind, close."""
    try:
        for _ in range(5):
            pending = [t for t in asyncio.all_tasks(loop) if not t.done()]
            if not pending:
                break
            for t in pending:
                t.cancel()
            loop.quiesce(advance=True)
    except Exception:
        pass
    finally:
        try:
            loop.set_exception_handler(lambda *_: None)
            loop.close()
        except Exception:
            pass
        asyncio.set_event_loop(None)
