import Driver.Common
import Driver.Queue
