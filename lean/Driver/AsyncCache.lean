import Haiway.Model.AsyncCache
import Driver.Common
/-! `hwmodel acache`: one schedule per line.

```
<limit> <expiration|-> <f|m> op*
op ::= call:<key>        create the next caller task (callers are numbered in creation order); nothing runs yet
     | cancel:<caller>   cancel that caller task (no-op if it is done)
     | fin:<inv>:<o|x>   open the gate of invocation <inv> with result / exception (no-op if it does not exist
                         yet, or its gate is already open); the invocation itself continues at the next `run`
     | adv:<dt>          advance the clock
     | run               run the loop to quiescence, then take a snapshot
```
After the last op: `run`, open every closed gate with a result, `run` (two more snapshots).
Output: `snapshot;…;snapshot|<key>@<start time>,…|<cancellation seen inside invocation i: 0/1>…`
snapshot = per caller `.` (not done) `v<inv>` (value of invocation) `x<inv>` (its exception) `c` (cancelled),
comma separated, then `/<invocations started>`.

The harness ops are mapped to labels of the LTS: `call` = `spawn`; at `run` the pending first steps
of callers (`enter`) and the pending completions (`finish`) are taken in the order in which they were
scheduled (the asyncio ready queue is FIFO), then every suspended caller whose task is done is
resumed (`wakeAll`). -/
namespace Driver.AsyncCache
open Haiway.AsyncCache

inductive Pend where
  | enter (c : Nat)
  | fire (t : Nat) (o : Outcome)

structure D where
  s : Sys
  ncallers : Nat := 0
  pending : List Pend := []      -- newest first
  fired : List Nat := []
  snaps : List String := []      -- newest first

def stepOr (s : Sys) (l : Label) : Sys := match step s l with | some s' => s' | none => s

def showCaller (s : Sys) (c : Nat) : String :=
  match s.callers c with
  | .got t .ok => s!"v{t}"
  | .got t .boom => s!"x{t}"
  | .got _ .cancel => "c"          -- the shared invocation ended cancelled on its own: so does everyone awaiting it
  | .cancelled => "c"
  | _ => "."

def snapshot (d : D) : String :=
  ",".intercalate ((List.range d.ncallers).map (showCaller d.s)) ++ s!"/{d.s.ntasks}"

def runLoop (d : D) : D :=
  let s := d.pending.reverse.foldl (fun s p =>
    match p with
    | .enter c => stepOr s (.enter c)        -- not enabled if the caller was cancelled before it started
    | .fire t o => stepOr s (.finish t o)) d.s
  let d := { d with s := wakeAll d.ncallers s, pending := [] }
  { d with snaps := snapshot d :: d.snaps }

def fire (d : D) (t : Nat) (o : Outcome) : D :=
  if t < d.s.ntasks ∧ d.s.tasks t = .running ∧ ¬ d.fired.contains t then
    { d with fired := t :: d.fired, pending := .fire t o :: d.pending }
  else d

def applyOp (d : D) (tok : String) : Option D :=
  match tok.splitOn ":" with
  | ["run"] => some (runLoop d)
  | ["call", k] => k.toNat?.map (fun k =>
      { d with s := stepOr d.s (.spawn d.ncallers k), ncallers := d.ncallers + 1,
               pending := .enter d.ncallers :: d.pending })
  | ["cancel", c] => c.toNat?.map (fun c => if c < d.ncallers then { d with s := stepOr d.s (.cancel c) } else d)
  | ["fin", t, o] =>
    match t.toNat?, o with
    | some t, "o" => some (fire d t .ok)
    | some t, "x" => some (fire d t .boom)
    | some t, "c" => some (fire d t .cancel)
    | _, _ => none
  | ["adv", n] => n.toNat?.map (fun n => { d with s := stepOr d.s (.advance n) })
  | _ => none

def runCase (line : String) : String := Id.run do
  match Driver.words line with
  | lim :: exp :: variant :: ops =>
    let some limit := lim.toNat? | return "bad-case"
    let some expiration := (if exp = "-" then some none else exp.toNat?.map some) | return "bad-case"
    if variant ≠ "f" ∧ variant ≠ "m" then return "bad-case"
    let mut d : D := { s := init limit expiration }
    for tok in ops do
      match applyOp d tok with
      | some d' => d := d'
      | none => return "bad-case"
    d := runLoop d
    for t in List.range d.s.ntasks do
      d := fire d t .ok
    d := runLoop d
    let invs := ",".intercalate ((List.range d.s.ntasks).map (fun t => s!"{d.s.taskKey t}@{d.s.taskStart t}"))
    let seen := String.join ((List.range d.s.ntasks).map (fun t => if d.s.tasks t = .cancelled then "1" else "0"))
    return ";".intercalate d.snaps.reverse ++ "|" ++ invs ++ "|" ++ seen
  | _ => return "bad-case"

end Driver.AsyncCache
