import Haiway.Model.Cache
import Driver.Common
/-! `hwmodel cache`: one sequential call history per line.

```
<limit> <expiration|-> <sf|sm|af|am> op*
op   ::= a<dt>                                  clock advance
       | c:<recv>:<pos>:<kw>:<o|x>              call; o = the wrapped function returns, x = it raises (if invoked)
       | drop:<recv>                            the harness forgets a receiver object (no-op for the model)
recv ::= - | <object identity number>
pos  ::= atom,atom,…      kw ::= name=atom,name=atom,…  (call order)
atom ::= i<int> | f<int> | b<0|1> | s<text> | n
out  ::= one token per call:  (H|C)<producer index>[!]@<recv>:<pos>:<kw>/<entries alive>
```
`H` = answered from the cache, `C` = the function was invoked, `!` = the caller saw the exception,
the part after `@` is the argument tag of the served product, `/n` the number of live *values* (entries
holding a successful product; a cached failure holds no value).  A receiver may not be used after
`drop` (the harness would have to create a second object for the same identity number). -/
namespace Driver.Cache
open Haiway.Cache

def parseAtom (t : String) : Option Atom :=
  match t.toList with
  | 'i' :: r => (String.ofList r).toInt?.map (fun n => ⟨.int, .num n⟩)
  | 'f' :: r => (String.ofList r).toInt?.map (fun n => ⟨.float, .num n⟩)
  | ['b', '0'] => some ⟨.bool, .num 0⟩
  | ['b', '1'] => some ⟨.bool, .num 1⟩
  | 's' :: r => some ⟨.str, .str (String.ofList r)⟩
  | ['n'] => some ⟨.none, .none⟩
  | _ => none

def showAtom (a : Atom) : String :=
  match a.ty, a.val with
  | .int, .num n => s!"i{n}"
  | .float, .num n => s!"f{n}"
  | .bool, .num n => s!"b{n}"
  | .str, .str s => s!"s{s}"
  | .none, .none => "n"
  | _, _ => "?"

def parseList {α} (f : String → Option α) (s : String) : Option (List α) :=
  if s.isEmpty then some [] else (s.splitOn ",").mapM f

def parseKw (t : String) : Option (String × Atom) :=
  match t.splitOn "=" with
  | [name, a] => (parseAtom a).map (fun x => (name, x))
  | _ => none

def parseRecv (t : String) : Option (Option Nat) :=
  if t = "-" then some none else t.toNat?.map some

def showKey (k : Key) : String :=
  let r := match k.recv with | none => "-" | some n => toString n
  let p := ",".intercalate (k.pos.map showAtom)
  let w := ",".intercalate (k.kw.map (fun x => x.1 ++ "=" ++ showAtom x.2))
  s!"{r}:{p}:{w}"

inductive Tok where
  | op (o : Op Key)
  | drop (r : Nat)

def parseOp (method : Bool) (tok : String) : Option Tok :=
  match tok.splitOn ":" with
  | ["c", r, p, w, o] => do
    let recv ← parseRecv r
    if recv.isSome ≠ method then none
    let pos ← parseList parseAtom p
    let kw ← parseList parseKw w
    let ok ← (if o = "o" then some true else if o = "x" then some false else none)
    pure (.op (.call ⟨recv, pos, kw⟩ ok))
  | ["drop", r] => (r.toNat?).map .drop
  | [a] =>
    match a.toList with
    | 'a' :: d => (String.ofList d).toNat?.map (fun n => .op (.adv n))
    | _ => none
  | _ => none

def showRes (s : St Key) (r : Res) : String :=
  let tag := match s.log[r.producer]? with | some i => showKey i.key | none => "?"
  let kind := if r.invoked then "C" else "H"
  let bang := if r.returned then "" else "!"
  s!"{kind}{r.producer}{bang}@{tag}/{(s.table.filter (·.ok)).length}"

def runCase (line : String) : String := Id.run do
  match Driver.words line with
  | lim :: exp :: variant :: ops =>
    let some limit := lim.toNat? | return "bad-case"
    let some expiration := (if exp = "-" then some none else exp.toNat?.map some) | return "bad-case"
    let some (sf, method) := (match variant with
      | "sf" => some (false, false) | "sm" => some (false, true)
      | "af" => some (true, false) | "am" => some (true, true) | _ => none) | return "bad-case"
    let cfg : Cfg := { limit, expiration, storeFailure := sf }
    let mut s : St Key := {}
    let mut out : List String := []
    let mut dead : List Nat := []
    for tok in ops do
      match parseOp method tok with
      | some (.op (.adv d)) => s := step cfg s (.adv d)
      | some (.op (.call k ok)) =>
        if (match k.recv with | some r => dead.contains r | none => false) then return "bad-case"
        let r := call cfg s k ok
        s := r.1
        out := showRes s r.2 :: out
      | some (.drop r) => dead := r :: dead
      | none => return "bad-case"
    return " ".intercalate out.reverse
  | _ => return "bad-case"

end Driver.Cache
