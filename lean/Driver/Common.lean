/-! Line-protocol plumbing shared by all component drivers: one case per input line, exactly one
output line per case. -/
namespace Driver

partial def lineLoop (h : IO.FS.Stream) (out : IO.FS.Stream) (f : String → String) : IO Unit := do
  let line ← h.getLine
  if line.isEmpty then return ()
  out.putStrLn (f line.trimAscii.toString)
  lineLoop h out f

def runLines (f : String → String) : IO Unit := do
  let i ← IO.getStdin
  let o ← IO.getStdout
  lineLoop i o f
  o.flush

def words (s : String) : List String := (s.splitOn " ").filter (· ≠ "")

end Driver
