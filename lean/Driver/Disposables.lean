import Haiway.Model.Disposables
import Driver.Common
/-! `hwmodel disposables`: blocks separated by `;`, each `<d1,d2,…> <ok|exc> <interrupted 0|1> <pendingCancel 0|1>` with `d = <e|f|i><o|r>`
(enter: entered / failed / interrupted; exit: returns / raises).
out per block: `enters=c,c,… exits=c,c,… args=<0|1|-> body=<0|1> caller=<0|1> reach=<positions of the disposables whose cleanup error reaches the caller | ->` -/
namespace Driver.Disposables
open Haiway.Disposables

def parseDisp (s : String) : Option Disp :=
  match s.toList with
  | [a, b] => do
    let en ← match a with | 'e' => some EnterOut.entered | 'f' => some .failed | 'i' => some .interrupted | _ => none
    let ex ← match b with | 'o' => some false | 'r' => some true | _ => none
    pure ⟨en, ex⟩
  | _ => none

def runBlock (spec : String) : String :=
  match Driver.words spec with
  | [ds, body, intr, pend] =>
    match (ds.splitOn ",").mapM parseDisp with
    | some ds =>
      let (evs, caller) := run ds { interrupted := intr == "1", pendingCancel := pend == "1" } (body == "exc")
      let n := ds.length
      let enters := (List.range n).map fun d => toString (count evs (isEnter d))
      let exits := (List.range n).map fun d => toString (count evs (isExit d))
      let args := evs.filterMap fun e => match e with | .exitCall _ w => some w | _ => none
      let arg := if args.isEmpty then "-" else if args.all id then "1" else if args.all (!·) then "0" else "mixed"
      s!"enters={",".intercalate enters} exits={",".intercalate exits} args={arg} body={count evs isBody} caller={if caller then 1 else 0} reach={let r := surfaced ds { interrupted := intr == "1", pendingCancel := pend == "1" }; if r.isEmpty then "-" else ",".intercalate (r.map toString)}"
    | none => "bad-disp"
  | _ => "bad-block"

def runCase (line : String) : String :=
  if line.isEmpty then "" else ";".intercalate ((line.splitOn ";").map fun b => runBlock b.trimAscii.toString)

end Driver.Disposables
