import Haiway.Model.Groups
import Driver.Common
/-! `hwmodel groups`: replay of one observed event log (projected by `harness/groups_common.py`) on the
task-group / cancellation LTS `Haiway.Groups`.

tokens (one case per line, in the order the event loop executed them):
  rel.G  cancel.T  start.T  enter.T.B.(A|S)  enterfail.T.B.O  cleanup.T.B  cleanupdone.T.B  spawn.T.C.(s|c)  spawnfail.T.C  await.T.G  resume.T.G.(ok|c)
  raise.T.(e|b)  caught.T.O  check.T.(0|1)  cancelself.T  bodyend.T.B.O  left.T.B.O.ALIVE  end.T.O
  seen.T.(B|-)            observation only: the group a `ctx.spawn` would join, as fingerprinted by the harness
  fin.T.(O|pending)       observation only: state of the asyncio Task when the run is over
  O ::= ok | e | b | c            ALIVE ::= - | t+t+…

Every visible label must be enabled and every observation it carries (outcome of `left`, set of live tasks at
`left`, `check` result, final task states) must equal the model's prediction.  The three silent labels
(`silentEnd`, `deliver`, `reap`) are placed by a bounded depth-first search: as late as possible first, all of
them before the harness acts from outside (`rel`, `cancel`, the end of the run), because the loop is quiescent there.

out:  `ok <t:final>* #<branch tags>`  |  `refuse <k> <token> <why>` -/
namespace Driver.Groups
open Haiway.Groups

inductive Item where
  | lab (l : Label) (alive : Option (List Nat))
  | cleanup (t b : Nat)          -- body of a scope with disposables ended: the group exit begins later, with a reason
                                 -- the log does not show (placed by the search as `cleanupEnd`)
  | cleanupDone (t b : Nat)      -- the last disposable of that scope has been closed: the group exit begins before the
                                 -- harness acts again
  | seen (t : Nat) (g : Option Nat)
  | fin (t : Nat) (o : Option Outcome)

def parseOut : String → Option Outcome
  | "ok" => some .ok
  | "e" => some (.exc false)
  | "b" => some (.exc true)
  | "c" => some .cancelled
  | _ => none

def showOut : Outcome → String
  | .ok => "ok"
  | .exc false => "e"
  | .exc true => "b"
  | .cancelled => "c"

def parseAlive (s : String) : Option (List Nat) :=
  if s == "-" then some [] else (s.splitOn "+").mapM (·.toNat?)

def parseItem (tok : String) : Option Item :=
  match tok.splitOn "." with
  | ["rel", g] => do pure (.lab (.rel (← g.toNat?)) none)
  | ["cancel", t] => do pure (.lab (.cancel (← t.toNat?)) none)
  | ["start", t] => do pure (.lab (.start (← t.toNat?)) none)
  | ["enter", t, b, k] => do pure (.lab (.enter (← t.toNat?) (← b.toNat?) (k == "A")) none)
  | ["enterfail", t, b, o] => do pure (.lab (.enterfail (← t.toNat?) (← b.toNat?) (← parseOut o)) none)
  | ["cleanup", t, b] => do pure (.cleanup (← t.toNat?) (← b.toNat?))
  | ["cleanupdone", t, b] => do pure (.cleanupDone (← t.toNat?) (← b.toNat?))
  | ["spawn", t, c, h] => do pure (.lab (.spawn (← t.toNat?) (← c.toNat?) (h == "s")) none)
  | ["spawnfail", t, c] => do pure (.lab (.spawnfail (← t.toNat?) (← c.toNat?)) none)
  | ["await", t, g] => do pure (.lab (.await (← t.toNat?) (← g.toNat?)) none)
  | ["resume", t, g, r] => do pure (.lab (.resume (← t.toNat?) (← g.toNat?) (r == "c")) none)
  | ["raise", t, k] => do pure (.lab (.raise (← t.toNat?) (k == "b")) none)
  | ["caught", t, o] => do pure (.lab (.caught (← t.toNat?) (← parseOut o)) none)
  | ["check", t, r] => do pure (.lab (.check (← t.toNat?) (r == "1")) none)
  | ["cancelself", t] => do pure (.lab (.cancelself (← t.toNat?)) none)
  | ["bodyend", t, b, o] => do pure (.lab (.bodyEnd (← t.toNat?) (← b.toNat?) (← parseOut o)) none)
  | ["left", t, b, o, a] => do pure (.lab (.left (← t.toNat?) (← b.toNat?) (← parseOut o)) (some (← parseAlive a)))
  | ["end", t, o] => do pure (.lab (.end_ (← t.toNat?) (← parseOut o)) none)
  | ["seen", t, g] => do
    let t ← t.toNat?
    if g == "-" then pure (.seen t none) else pure (.seen t (some (← g.toNat?)))
  | ["fin", t, o] => do
    let t ← t.toNat?
    if o == "pending" then pure (.fin t none) else pure (.fin t (some (← parseOut o)))
  | _ => none

/-- the harness acts from outside only when the loop is quiescent: every silent step owed has run -/
def Item.external : Item → Bool
  | .lab (.rel _) _ => true
  | .lab (.cancel _) _ => true
  | .fin _ _ => true
  | _ => false

def Item.ids : Item → List Nat
  | .lab (.spawn t c _) _ => [t, c]
  | .lab (.cancel t) _ | .lab (.start t) _ | .seen t _ | .fin t _ => [t]
  | _ => []

def aliveOf (s : Sys) (ids : List Nat) : List Nat := ids.filter fun t => isLive (s.tasks t)

def showNats (l : List Nat) : String := if l.isEmpty then "-" else "+".intercalate (l.map toString)

def applyItem (s : Sys) (ids : List Nat) : Item → Except String Sys
  | .lab l alive =>
    match step s l with
    | none => .error "not-enabled"
    | some s' =>
      match alive with
      | some a => if aliveOf s' ids == a then .ok s' else .error s!"alive-differs:model={showNats (aliveOf s' ids)}"
      | none => .ok s'
  | .cleanup _ _ => .ok s
  | .cleanupDone _ _ => .ok s
  | .seen t g =>
    if ctxGroup (s.tasks t) == g then .ok s
    else .error s!"visible-group-differs:model={match ctxGroup (s.tasks t) with | some b => toString b | none => "-"}"
  | .fin t o =>
    match (s.tasks t).status, o with
    | .done m, some o => if m == o then .ok s else .error s!"final-differs:model={showOut m}"
    | .done m, none => .error s!"final-differs:model={showOut m}"
    | .absent, _ => .error "final-differs:model=absent"
    | _, none => .ok s
    | _, some _ => .error "final-differs:model=pending"

structure Fail where
  pos : Nat
  why : String

def Fail.best (a b : Fail) : Fail := if b.pos > a.pos then b else a

abbrev M := StateM Nat   -- remaining search budget (model steps)

def tick : M Bool := do
  let n ← get
  if n = 0 then return false
  set (n - 1); return true

/-- scopes with disposables whose body has ended and whose group exit has not begun yet; `due` = their cleanup is over -/
structure Pending where
  t : Nat
  b : Nat
  due : Bool
deriving BEq

/-- a silent step the search may take now, with the cleanups still pending after it -/
abbrev Cand := Label × List Pending

def cleanupCands (s : Sys) (pc : List Pending) (dueOnly : Bool) : List Cand :=
  (pc.filter fun p => p.due || !dueOnly).flatMap fun p =>
    let rest := pc.filter (· != p)
    ([(Outcome.ok, false), (.cancelled, true), (.cancelled, false), (.exc false, false), (.exc true, false)].map
      fun (o, k) => (Label.cleanupEnd p.t p.b o k, rest)).filter fun c => (step s c.1).isSome

mutual
/-- try each silent label in turn, then continue with `items` -/
def trySilent (ids : List Nat) (fuel : Nat) (s : Sys) (pc : List Pending) (pos : Nat) (items : List Item) (f0 : Fail) :
    List Cand → M (Except Fail Sys)
  | [] => pure (.error f0)
  | (σ, pc') :: more =>
    match fuel with
    | 0 => pure (.error { pos, why := "search-depth" })
    | fuel + 1 =>
      match step s σ with
      | none => trySilent ids (fuel + 1) s pc pos items f0 more
      | some s' => do
        match ← search ids fuel s' pc' pos items with
        | .ok r => pure (.ok r)
        | .error f => trySilent ids (fuel + 1) s pc pos items (f0.best f) more
termination_by ls => (fuel, 0, ls.length)

def search (ids : List Nat) (fuel : Nat) (s : Sys) (pc : List Pending) (pos : Nat) (items : List Item) :
    M (Except Fail Sys) := do
  if !(← tick) then return .error { pos, why := "search-budget" }
  -- steps the loop owes before the harness can act again / the run can be over
  let owed := ((silentEnabled s ids).map fun l => (l, pc)) ++ cleanupCands s pc true
  let stuck := pc.any fun p => p.due
  let cands := ((silentEnabled s ids).map fun l => (l, pc)) ++ cleanupCands s pc false
  match fuel with
  | 0 => return .error { pos, why := "search-depth" }
  | fuel + 1 =>
    match items with
    | [] =>
      if owed.isEmpty && !stuck then return .ok s
      else trySilent ids (fuel + 1) s pc pos [] { pos, why := "silent-steps-stuck" } owed
    | it :: rest =>
      if it.external && (!owed.isEmpty || stuck) then
        trySilent ids (fuel + 1) s pc pos items { pos, why := "silent-steps-stuck" } owed
      else
        let pc1 := match it with
          | .cleanup t b => pc ++ [{ t, b, due := false }]
          | .cleanupDone t b => pc.map fun p => if p.t == t && p.b == b then { p with due := true } else p
          | _ => pc
        match applyItem s ids it with
        | .ok s' =>
          match ← search ids fuel s' pc1 (pos + 1) rest with
          | .ok r => return .ok r
          | .error f => trySilent ids (fuel + 1) s pc pos items f cands
        | .error why => trySilent ids (fuel + 1) s pc pos items { pos, why } cands
termination_by (fuel, 1, 0)
end

def dedup (l : List Nat) : List Nat := l.foldl (fun acc x => if acc.contains x then acc else acc ++ [x]) []

def insertSorted (x : Nat) : List Nat → List Nat
  | [] => [x]
  | y :: ys => if x ≤ y then x :: y :: ys else y :: insertSorted x ys

def sortNats (l : List Nat) : List Nat := l.foldr insertSorted []

def showStatus : Status → String
  | .done o => showOut o
  | .absent => "absent"
  | _ => "pending"

def tags (s : Sys) (ids : List Nat) (items : List Item) : String :=
  let gs := dedup (items.filterMap fun | .lab (.enter _ b true) _ => some b | _ => none)
  let G := gs.map s.groups
  let t1 := if G.any (·.pcr) then ["parent-cancel"] else []
  let t2 := if G.any (fun g => g.propagate && g.errors == 0) then ["cancel-reraised"] else []
  let t3 := if G.any (fun g => g.propagate && g.errors != 0) then ["cancel-lost-to-member-errors"] else []
  let t4 := if G.any (fun g => g.aborting && g.bodyOut.isExc) then ["abort-body-exc"] else []
  let t5 := if G.any (fun g => g.errors != 0) then ["member-error"] else []
  let t6 := if ids.any (fun t => (s.tasks t).member.isNone && (s.tasks t).base.isNone && t != 0) then ["detached"] else []
  let t7 := if ids.any (fun t => (s.tasks t).cancelReq != 0 && !(s.tasks t).owed) then ["group-cancel-count"] else []
  " ".intercalate (t1 ++ t2 ++ t3 ++ t4 ++ t5 ++ t6 ++ t7)

def runCase (line : String) : String :=
  let toks := Driver.words line
  match toks.mapM parseItem with
  | none =>
    match toks.find? (fun t => (parseItem t).isNone) with
    | some bad => s!"refuse 0 {bad} unmodelled-token"
    | none => "refuse 0 - unmodelled-token"
  | some items =>
    let ids := sortNats (dedup (0 :: items.flatMap Item.ids))
    let fuel := 4 * (items.length + ids.length) + 16
    let (res, _) := (search ids fuel init [] 0 items).run 200000
    match res with
    | .ok s =>
      let finals := ids.map fun t => s!"{t}:{showStatus (s.tasks t).status}"
      s!"ok {" ".intercalate finals} #{tags s ids items}"
    | .error f => s!"refuse {f.pos} {toks.getD f.pos "end"} {f.why}"

end Driver.Groups
