import Haiway.Model.Missing
import Driver.Common
/-! `hwmodel missing`: one operation on one value tree per line.

case:  `<op> <value>`   op ∈ id | call | copy | deepcopy | pickle0 … pickle5
value (prefix tokens): `N` None, `T`/`F`, `I<int>`, `S<text>`, `M` the constant MISSING, `Mc` a call
  `Missing()`, `Q` an object whose `__eq__` always answers True, `P` an object of
  another type whose `__class__` reports `Missing`, `L<k>` list, `U<k>` tuple, `E<k>` set,
  `Z<k>` frozenset (each followed by k values), `D<k>` dict (k key/value pairs), `A<k>` State
  instance with k attributes `a b c …`.
out:   `<result tree> | is=<is_missing> not=<not_missing> when=<dflt|same> bool=<truthiness>
        eqL=<MISSING == r> eqR=<r == MISSING> | attr=<get,set,del on r if it is a Missing instance>
        mod=<assignment of 6 / deletion of 3 special names: R = rejected>
        byp=<object.__setattr__, vars(), .__dict__: R = rejected> post=<attribute read afterwards>
        intact=<still the same falsy Missing>`
  in the result tree an instance of `Missing` prints `M` if it is the constant, `m` otherwise.
  A pickle round trip of a tree holding a `State` instance prints
  `ALT ERR:state-not-picklable || <line if it had succeeded>` (see comp_missing.canon). -/
namespace Driver.Missing
open Haiway.Missing

def fieldNames : List String := ["a", "b", "c", "d", "e", "f"]

def pairUp : List Val → List (Val × Val)
  | k :: v :: rest => (k, v) :: pairUp rest
  | _ => []

mutual
def parseVal : Nat → List String → Option (Val × List String)
  | 0, _ => none
  | _, [] => none
  | fuel + 1, tok :: rest =>
    if tok = "N" then some (.none, rest)
    else if tok = "T" then some (.bool true, rest)
    else if tok = "F" then some (.bool false, rest)
    else if tok = "M" then some (.missing 0, rest)
    else if tok = "Mc" then some (callType, rest)
    else if tok = "Q" then some (.alwaysEq 1, rest)
    else if tok = "P" then some (.pretender 1, rest)
    else
      let arg := (tok.drop 1).toString
      match (tok.take 1).toString with
      | "I" => arg.toInt?.map (fun n => (.int n, rest))
      | "S" => some (.str arg, rest)
      | "L" => arg.toNat? >>= fun k => (parseMany fuel k rest).map (fun (xs, r) => (.list xs, r))
      | "U" => arg.toNat? >>= fun k => (parseMany fuel k rest).map (fun (xs, r) => (.tuple xs, r))
      | "E" => arg.toNat? >>= fun k => (parseMany fuel k rest).map (fun (xs, r) => (.set xs, r))
      | "Z" => arg.toNat? >>= fun k => (parseMany fuel k rest).map (fun (xs, r) => (.frozenset xs, r))
      | "D" => arg.toNat? >>= fun k => (parseMany fuel (2 * k) rest).map (fun (xs, r) => (.dict (pairUp xs), r))
      | "A" => arg.toNat? >>= fun k =>
          if k > fieldNames.length then none
          else (parseMany fuel k rest).map (fun (xs, r) => (.state k (fieldNames.zip xs), r))
      | _ => none
def parseMany : Nat → Nat → List String → Option (List Val × List String)
  | 0, _, _ => none
  | _, 0, toks => some ([], toks)
  | fuel + 1, k + 1, toks =>
    match parseVal fuel toks with
    | none => none
    | some (v, r) => (parseMany fuel k r).map (fun (vs, r') => (v :: vs, r'))
end

def sortStrs (xs : List String) : List String := (xs.toArray.qsort (· < ·)).toList

mutual
def showVal : Val → String
  | .none => "N"
  | .bool true => "T"
  | .bool false => "F"
  | .int n => s!"I{n}"
  | .str s => s!"S{s}"
  | .missing 0 => "M"
  | .missing _ => "m"
  | .alwaysEq _ => "Q"
  | .pretender _ => "P"
  | .list xs => " ".intercalate (s!"L{xs.length}" :: showList xs)
  | .tuple xs => " ".intercalate (s!"U{xs.length}" :: showList xs)
  | .set xs => " ".intercalate (s!"E{xs.length}" :: sortStrs (showList xs))
  | .frozenset xs => " ".intercalate (s!"Z{xs.length}" :: sortStrs (showList xs))
  | .dict kvs => " ".intercalate (s!"D{kvs.length}" :: showPairs kvs)
  | .state _ fs => " ".intercalate (s!"A{fs.length}" :: showFields fs)
def showList : List Val → List String
  | [] => []
  | x :: xs => showVal x :: showList xs
def showPairs : List (Val × Val) → List String
  | [] => []
  | (k, v) :: r => showVal k :: showVal v :: showPairs r
def showFields : List (String × Val) → List String
  | [] => []
  | (_, v) :: r => showVal v :: showFields r
end

def bit (b : Bool) : String := if b then "1" else "0"

def attrShow {α} : Option (Except AttrErr α) → String
  | some (.error .attributeError) => "AE"
  | some (.ok _) => "ok"
  | none => "-"

/-- special attribute names whose assignment / deletion is probed on an instance of `Missing`
(`__class__` is assigned a class with the same empty instance layout) -/
def specialSets : List String := ["__class__", "__dict__", "__slots__", "__doc__", "_instance", "__bool__"]
def specialDels : List String := ["__class__", "__doc__", "__slots__"]

/-- `R` = rejected with an error, the object is unchanged -/
def rejected {α} : Option (Except AttrErr α) → String
  | some (.error _) => "R"
  | some (.ok _) => "ok"
  | none => "-"

def line (r : Val) : String :=
  let w := match whenMissing r (.str "dflt") with
    | .str "dflt" => (match r with | .str "dflt" => "same" | _ => "dflt")
    | _ => "same"
  let attr := match r with
    | .missing _ =>
      let mods := (specialSets.map (fun n => rejected (setAttr r n (.int 1)))) ++
                  (specialDels.map (fun n => rejected (delAttr r n)))
      s!"{attrShow (getAttr r "foo")},{attrShow (setAttr r "foo" (.int 1))},{attrShow (delAttr r "foo")}" ++
      s!" mod={",".intercalate mods} byp={rejected (rawSetAttr r "value" (.int 42))},{rejected (varsOf r)},{rejected (varsOf r)}" ++
      s!" post={attrShow (getAttr r "value")} intact=1"
    | _ => "-"
  s!"{showVal r} | is={bit (isMissing r)} not={bit (notMissing r)} when={w} bool={bit (truthy r)} " ++
  s!"eqL={bit (eqMissingLeft r)} eqR={bit (eqMissingRight r)} valM={bit (validMissing r)} valSM={bit (validStrOrMissing r)} | attr={attr}"

def runCase (ln : String) : String :=
  match Driver.words ln with
  | [] => "bad-case"
  | op :: toks =>
    match parseVal (2 * toks.length + 2) toks with
    | some (v, []) =>
      if op = "id" then line v
      else if op = "call" then line callType
      else if op = "copy" then line (copy v)
      else if op = "deepcopy" then line (deepcopy v)
      else if op.startsWith "pickle" then
        match (op.drop 6).toString.toNat? with
        | none => "bad-case"
        | some p =>
          match pickle p v with
          | .ok r => line r
          | .error .badProtocol => "ERR:bad-protocol"
          | .error .stateNotPicklable => s!"ALT ERR:state-not-picklable || {line (deepcopy v)}"
      else "bad-case"
    | _ => "bad-case"

end Driver.Missing
