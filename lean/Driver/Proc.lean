import Haiway.Model.Proc
import Driver.Common
/-! `hwmodel proc`: blocks separated by `;`, each `<A|S|U> <dispEnter> <dispExit> <groupExit> <body> [<metricsExit>]` with faults
`-` (none) | `c` (cancellation) | `u<k>` (exception k) | `?` (groupExit only: unknown – both are tried).
out per block: `restored=<0|1> exc=<e>[/<e>]` (`/` separates the predictions for the two values of an unknown fault);
`hwmodel proc` with the single word `shape` prints the IR terms. -/
namespace Driver.Proc
open Haiway.Proc

def parseExc (s : String) : Option (Option Exc) :=
  if s == "-" then some none
  else if s == "c" then some (some .cancel)
  else if s.startsWith "u" then (s.drop 1).toString.toNat?.map (fun k => some (.user k))
  else none

def showExc : Option Exc → String
  | none => "-"
  | some .cancel => "c"
  | some (.user k) => s!"u{k}"

def m0 : M := { ctx := ⟨0, 0, 0⟩, tok := ⟨7, 7, 7⟩, new := ⟨1, 1, 1⟩ }

def runOne (kind : String) (de dx gx body : Option Exc) (mx : Option Exc := none) : String :=
  let φ : Faults := fun a => match a with | .dispEnter => de | .dispExit => dx | .groupExit => gx | .metricsExit => mx | _ => none
  let (en, ex) := if kind == "A" then (aenter, aexit) else if kind == "S" then (senter, sexit) else (uenter, uexit)
  let r := block en ex φ body id m0
  let saw (o : Option (Option Exc)) : String := match o with | none => "." | some e => showExc e
  s!"restored={if r.1.ctx = m0.ctx then 1 else 0} gsaw={saw r.1.groupSaw} exc={showExc r.2}"

def runBlock5 (kind de dx gx body mx : String) : String :=
    match parseExc de, parseExc dx, parseExc body, parseExc mx with
    | some de, some dx, some body, some mx =>
      if gx == "?" then
        let a := runOne kind de dx none body mx
        let b := runOne kind de dx (some .cancel) body mx
        if a == b then a else s!"{a}/{(b.splitOn "exc=").getD 1 ""}"
      else match parseExc gx with
        | some gx => runOne kind de dx gx body mx
        | none => "bad-fault"
    | _, _, _, _ => "bad-fault"

def runBlock (spec : String) : String :=
  match Driver.words spec with
  | [kind, de, dx, gx, body] => runBlock5 kind de dx gx body "-"
  | [kind, de, dx, gx, body, mx] => runBlock5 kind de dx gx body mx      -- `mx`: the metrics exit raises (after its reset)
  | _ => "bad-block"

def showProc : Proc → String
  | .atom a => s!"(atom {repr a})"
  | .seq p q => s!"(seq {showProc p} {showProc q})"
  | .tryFinally p q => s!"(tryFinally {showProc p} {showProc q})"
  | .tryExcept all p h => s!"(tryExcept {all} {showProc p} {showProc h})"
  | .skip => "skip"

def runCase (line : String) : String :=
  if line.isEmpty then ""
  else if line == "shape" then
    s!"aenter={showProc aenter} aexit={showProc aexit} senter={showProc senter} sexit={showProc sexit}"
  else ";".intercalate ((line.splitOn ";").map fun b => runBlock b.trimAscii.toString)

end Driver.Proc
