import Haiway.Model.Queue
import Driver.Common
/-! `hwmodel queue`: one operation sequence per line.
ops: e1 e2 fin finerr cancelq recv cancelrecv run step
out: see `runCase`  -/
namespace Driver.Queue
open Haiway.Queue

def parseOp (tok : String) (nxt : Nat) : Option (Op × Nat) :=
  match tok with
  | "e1" => some (.enqueue nxt [], nxt + 1)
  | "e2" => some (.enqueue nxt [nxt + 1], nxt + 2)
  | "fin" => some (.finish .stop, nxt)
  | "finerr" => some (.finish .err, nxt)
  | "cancelq" => some (.finish .cancel, nxt)
  | "recv" => some (.recv, nxt)
  | "cancelrecv" => some (.cancelRecv, nxt)
  | "run" => some (.run, nxt)
  | "step" => some (.run, nxt)     -- one loop iteration: on the code as it is every `run` transition takes a single iteration
  | _ => none

def showObs : Obs → String
  | .elem e => s!"elem:{e}"
  | .reason .stop => "stop"
  | .reason .err => "err"
  | .reason .cancel => "qcancelled"
  | .cancelled => "cancelled"

/-- `<obs before drain>|blocked/free|<acceptance bit per enqueue>|<obs of the drain phase>`;
the drain phase is `fin run (recv run)^(n+3)` with `n` the number of element ids used. -/
def runCase (line : String) : String := Id.run do
  let mut s : St := {}
  let mut nxt := 0
  let mut acc := ""
  for tok in Driver.words line do
    match parseOp tok nxt with
    | some (op, n) =>
      match op with
      | .enqueue _ _ => acc := acc ++ (if s.reason.isSome then "0" else "1")
      | _ => pure ()
      s := step s op; nxt := n
    | none => return "bad-op"
  s := step s .run   -- final quiescence
  let pre := s.got
  let blocked := if s.consumer = .blocked then "blocked" else "free"
  s := step (step s (.finish .stop)) .run
  for _ in [0:nxt + 3] do
    s := step (step s .recv) .run
  let obs := " ".intercalate (pre.map showObs)
  let drain := " ".intercalate ((s.got.drop pre.length).map showObs)
  return s!"{obs}|{blocked}|{acc}|{drain}"

end Driver.Queue
