import Haiway.Model.Retry
import Driver.Common
/-! `hwmodel retry`: one case per line

```
<variant> <limit|-> <catching> <delay> <outcome kind>*
variant   s | a | A                      (sync / async / async with a suspending function; same model)
limit     number, or `-` = bare `@retry` (all defaults)
catching  d (default) | c:<cls> | t:<cls>,… | s:<cls>,…       cls ∈ Ex Cn Bx E1 E1s E2 BE Cs
delay     n | i<d> | f<d> | b0 | b1 | fn:<a>,<b>,<c>           fn = a*attempt + b*(id of exc) + c
kinds     ok e1 e1s e2 cn cs be xc       (calls after the listed ones succeed)
```
out: `calls=<n> final=<kind>@<call index> gaps=<pause per gap,…> fn=<attempt:exc id,…>` or `assert-limit`. -/
namespace Driver.Retry
open Haiway.Retry

def clsId : String → Option Nat
  | "Ex" => some 0 | "Cn" => some 1 | "Bx" => some 2 | "E1" => some 3 | "E1s" => some 4
  | "E2" => some 5 | "BE" => some 6 | "Cs" => some 7 | "CE" => some 8 | "SI" => some 9 | _ => none

def clsName : Nat → String
  | 0 => "Ex" | 1 => "Cn" | 2 => "Bx" | 3 => "E1" | 4 => "E1s" | 5 => "E2" | 6 => "BE" | 7 => "Cs" | 8 => "CE" | 9 => "SI"
  | _ => "?"

/-- the harness's class hierarchy: Ex = Exception, Cn = CancelledError, Bx = BaseException,
E1, E1s < E1, E2, SI = StopIteration (all < Exception), BE < BaseException, Cs < CancelledError, CE < CancelledError *and* E1 (multiple inheritance) -/
def isSub (c d : Nat) : Bool :=
  c == d || d == 2 || (d == 0 && (c == 3 || c == 4 || c == 5 || c == 8)) || (c == 4 && d == 3) || (c == 7 && d == 1)
    || (c == 8 && (d == 1 || d == 3)) || (c == 9 && d == 0)

def kindCls : String → Option (Option Nat)
  | "ok" => some none | "e1" => some (some 3) | "e1s" => some (some 4) | "e2" => some (some 5)
  | "cn" => some (some 1) | "xc" => some (some 1) | "cs" => some (some 7) | "be" => some (some 6)
  | "ce" => some (some 8)
  | "si" => some (some 9)       -- StopIteration (an Exception like any other for the wrapper)
  | _ => none

def parseList (s : String) : Option (List Nat) := (s.splitOn ",").mapM clsId

def parseCatching (tok : String) : Option (List Nat) :=
  if tok = "d" then some [0]
  else match tok.splitOn ":" with
    | [form, body] =>
      if form = "c" then (clsId body).map ([·])
      else if form = "t" ∨ form = "s" then parseList body
      else none
    | _ => none

def parseDelay (tok : String) : Option DelayArg :=
  if tok = "n" then some .none
  else if tok = "b0" then some (.bool false)
  else if tok = "b1" then some (.bool true)
  else if tok.startsWith "fn:" then
    match ((tok.drop 3).toString.splitOn ",").mapM String.toNat? with
    | some [a, b, c] => some (.callable fun attempt e => a * attempt + b * e.id + c)
    | _ => none
  else if tok.startsWith "i" then (tok.drop 1).toString.toNat?.map .int
  else if tok.startsWith "f" then (tok.drop 1).toString.toNat?.map .float
  else none

/-- pause per gap between consecutive calls (0 when nothing was slept) and the delay-function log -/
def summarize (trace : List Ev) : List Nat × List String := Id.run do
  let mut gaps : List Nat := []
  let mut cur := 0
  let mut first := true
  let mut fns : List String := []
  for ev in trace do
    match ev with
    | .call _ =>
      if first then first := false else gaps := gaps ++ [cur]
      cur := 0
    | .pause d => cur := cur + d
    | .delayFn a e => fns := fns ++ [s!"{a}:{e.id}"]
  return (gaps, fns)

/-- success value = index of the call that returned it; exception = its class and the index of the
call that raised that very object -/
def showFinal : Outcome → String
  | .ok v => s!"ok@{v}"
  | .raised e => s!"{clsName e.cls}@{e.id}"

def runOne (line : String) : String :=
  match Driver.words line with
  | _variant :: lim :: cat :: del :: kinds =>
    let bare := lim == "-"
    match (if bare then some 1 else lim.toNat?), (if bare then some [0] else parseCatching cat),
        (if bare then some .none else parseDelay del), kinds.mapM kindCls with
    | some limit, some catching, some delay, some ks =>
      let cfg : Cfg := { limit, catching, isSub, delay }
      let outs : Nat → Outcome := fun i =>
        match ks[i]? with
        | some (some c) => .raised ⟨c, i⟩
        | _ => .ok i
      match call cfg outs with
      | .error .limitAssertion => "assert-limit"
      | .ok r =>
        let (gaps, fns) := summarize r.trace
        let g := ",".intercalate (gaps.map toString)
        let f := ",".intercalate fns
        s!"calls={r.calls} final={showFinal r.final} gaps={g} fn={f}"
    | _, _, _, _ => "bad-case"
  | _ => "bad-case"

/-- `M2|R2 <limit> <catching> <delay> <kinds of call 1> / <kinds of call 2>`: two calls through one wrapper whose executions
overlap (concurrently / nested).  The wrapper keeps nothing between or across calls – `attempt` is a local of the call –
so each call is `Retry.call` on its own outcome sequence (`C14.calls_independent`). -/
def runCase (line : String) : String :=
  if line.startsWith "M2 " || line.startsWith "R2 " then
    match Driver.words line with
    | _ :: lim :: cat :: del :: rest =>
      let kinds := " ".intercalate rest
      " / ".intercalate ((kinds.splitOn "/").map fun part => runOne s!"A {lim} {cat} {del} {part}")
    | _ => "bad-case"
  else runOne line

end Driver.Retry
