import Haiway.Model.ScopeRun
import Driver.Common
/-! Shared by `hwmodel completion | metrics | logs`: one event sequence per line (see harness/metrics_common.py).

tokens:  `vm=<view merge>`  `+<dt>`
         `<t>:o:<s|a>:<n|s|a>[:<name>:<logger>:<trace>]`   with ctx.scope(..): construct + enter
         `<t>:m:<s|a>:<n|s|a>[:<name>:<logger>:<trace>]`   held = ctx.scope(..)
         `<t>:n`  enter held   `<t>:x`  leave   `<t>:X`  leave by exception
         `<t>:r:<ty>:<merge>:<val>`   `<t>:l:<d|i|w|e>:<0|1>:<fmt>:<args>`
         `<t>:s` ctx.spawn   `<t>:c` create_task   `<t>:e` task ends   `<t>:k` task cancelled from outside
         block kind `d` = async with a disposable whose `__aexit__` raises; with `o` also `r` (disposable raises in
         `__aenter__`) and `g` (disposable waits on a gate in `__aenter__`; `<t>:G` opens the gate)
         `<t>:T` ctx.scope(..) attempted in a thread without event loop (RuntimeError, no effect)
strings: `_` stands for a space; args: comma separated `i<nat>` / `s<chars>`.
Every case is followed by a fixed final phase: the clock advances by 5. -/
namespace Driver.ScopeRun
open Haiway Haiway.ScopeRun

inductive Cb where | none | sync | async
deriving DecidableEq

def decodeStr (s : String) : List Char := s.toList.map fun c => if c = '_' then ' ' else c
def encodeStr (l : List Char) : String := String.ofList (l.map fun c => if c = ' ' then '_' else c)

def recMerge : String → Option Metrics.Merge
  | "rep" => some fun _ b => .ok b
  | "sum" => some fun a b => .ok { b with data := [a.data.sum + b.data.sum] }
  | "cat" => some fun a b => .ok { b with data := a.data ++ b.data }
  | "first" => some fun a _ => .ok a
  | "boom" => some fun _ _ => .raise true
  | _ => none

def viewMerge : String → Option Metrics.ViewMerge
  | "rep" => some fun _ b => some b
  | "sum" => some fun a b => match a with
    | some a => some { b with data := [a.data.sum + b.data.sum] }
    | none => some b
  | "cat" => some fun a b => match a with
    | some a => some { b with data := a.data ++ b.data }
    | none => some b
  | "first" => some fun a b => match a with
    | some a => some a
    | none => some b
  | "skipnew" => some fun a b => match a with
    | some a => some { b with data := a.data ++ b.data }
    | none => none
  | _ => none

def parseArg (s : String) : Option Logs.Arg :=
  match s.toList with
  | 'i' :: rest => (String.ofList rest).toNat?.map .int
  | 's' :: rest => some (.str (rest.map fun c => if c = '_' then ' ' else c))
  | 'k' :: rest =>      -- `k<key>=i<nat>` / `k<key>=s<chars>`: one item of the single mapping argument
    let key := rest.takeWhile (· ≠ '=')
    match rest.dropWhile (· ≠ '=') with
    | '=' :: 'i' :: v => (String.ofList v).toNat?.map (.kvInt key)
    | '=' :: 's' :: v => some (.kvStr key (v.map fun c => if c = '_' then ' ' else c))
    | _ => none
  | _ => none

def parseArgs (s : String) : Option (List Logs.Arg) :=
  if s.isEmpty then some [] else do
    let args ← (s.splitOn ",").mapM parseArg
    -- either positional arguments or the items of one mapping, never a mixture
    if args.any Logs.Arg.isKv && !args.all Logs.Arg.isKv then none else pure args

def parseLevel : String → Option Logs.Level
  | "d" => some .debug | "i" => some .info | "w" => some .warning | "e" => some .error | _ => none

/-- block kind: sync, async, async with a disposable whose cleanup raises → (isAsync, disp) -/
def parseKind : String → Option (Bool × Bool)
  | "s" => some (false, false) | "a" => some (true, false) | "d" => some (true, true) | _ => none

def parseCb : String → Option Cb
  | "n" => some .none | "s" => some .sync | "a" => some .async | _ => none

def parseSpec (rest : List String) : Option Logs.Spec :=
  match rest with
  | [] => some { name := ['n'] }
  | [name, logger, trace] => do
    let lg ← if logger.isEmpty then some none else logger.toNat?.map some
    pure { name := decodeStr name, logger := lg, trace := if trace.isEmpty then none else some (decodeStr trace) }
  | _ => none

/-- an event together with the completion-callback kind of the scope it constructs (if any) -/
def parseTok (tok : String) : Option (Ev × Option Cb) :=
  if tok.startsWith "+" then (tok.drop 1).toString.toNat?.map fun n => (.tick n, none) else
  match tok.splitOn ":" with
  | t :: op :: rest => do
    let t ← t.toNat?
    match op, rest with
    | "o", "r" :: cb :: sp => do pure (.openFailing t (← parseSpec sp), some (← parseCb cb))
    | "o", "g" :: cb :: sp => do pure (.openGated t (← parseSpec sp), some (← parseCb cb))
    | "o", k :: cb :: sp => do
      let (a, d) ← parseKind k
      pure (.openScope t a d (← parseSpec sp), some (← parseCb cb))
    | "m", k :: cb :: sp => do
      let (a, d) ← parseKind k
      pure (.make t a d (← parseSpec sp), some (← parseCb cb))
    | "n", [] => pure (.enter t, none)
    | "x", [] => pure (.exit t false, none)
    | "X", [] => pure (.exit t true, none)
    | "r", [ty, m, v] => do
      pure (.record t { ty := ← ty.toNat?, data := [← v.toNat?] } (← recMerge m), none)
    | "l", [lv, exc, fmt, args] => do
      let lv ← parseLevel lv
      if lv = .info && exc == "1" then none      -- `ctx.log_info` takes no exception
      pure (.log t lv (decodeStr fmt) (← parseArgs args) (exc == "1"), none)
    | "s", [] => pure (.spawn t true, none)
    | "c", [] => pure (.spawn t false, none)
    | "e", [] => pure (.finishTask t, none)
    | "k", [] => pure (.cancel t, none)
    | "G", [] => pure (.release t, none)
    | "T", [] => pure (.threadCtor t, none)
    | _, _ => none
  | _ => none

structure Parsed where
  vm : String := "sum"
  churn : Nat := 0                   -- `churn=<n>` (C19): n short-lived outermost scopes before the events
  evs : List (Ev × Option Cb) := []

def parseCase (line : String) : Option Parsed := do
  let mut p : Parsed := {}
  for tok in Driver.words line do
    if tok.startsWith "vm=" then
      p := { p with vm := (tok.drop 3).toString }
    else if tok.startsWith "churn=" then
      p := { p with churn := ← (tok.drop 6).toString.toNat? }
    else
      let e ← parseTok tok
      p := { p with evs := p.evs ++ [e] }
  pure p

def showVal (v : Metrics.Val) : String := s!"{v.ty}({".".intercalate (v.data.map toString)})"
def showVals (vs : List Metrics.Val) : String := ",".intercalate (vs.map showVal)

structure Trace where
  s : Sys := ScopeRun.init
  cbs : List Cb := []                 -- callback kind per scope
  out : List String := []

def cbOf (cbs : List Cb) (n : Nat) : Cb := (cbs[n]?).getD .none

def b01 (b : Bool) : String := if b then "1" else "0"

/-- what the completion callback of scope `n` observes (component specific) -/
abbrev CbObs := Sys → Nat → String

/-- run all events; `perEvent k before after` yields the tokens of event `k` besides callbacks -/
def runAll (p : Parsed) (cbObs : CbObs) (perEvent : Nat → Ev → Sys → Sys → List String)
    (final : Sys → List Cb → List String) : String := Id.run do
  let mut s := ScopeRun.init
  let mut cbs : List Cb := []
  let mut out : List String := []
  let mut k := 0
  for (ev, cb) in p.evs ++ [(Ev.tick 5, none)] do
    let before := s
    s := step s ev
    if s.bad then return "bad@" ++ toString k
    match cb with
    | some c => cbs := cbs ++ [c]
    | none => pure ()
    if s.comp.err && !before.comp.err then out := out ++ [s!"{k}!raised:AssertionError"]
    out := out ++ perEvent k ev before s
    let newFired := (s.comp.fired.drop before.comp.fired.length).mergeSort (· ≤ ·)
    for n in newFired do
      if cbOf cbs n ≠ .none then out := out ++ [s!"{k}^{n}{cbObs s n}"]
    k := k + 1
  out := out ++ final s cbs
  return " ".intercalate out

/-! ### completion (C09) -/

def completionCase (line : String) : String :=
  match parseCase line with
  | none => "bad-case"
  | some p =>
    runAll p
      (fun s n => s!"/{b01 (s.comp.completed n)}/{Completion.time s.comp n}")
      (fun _ _ _ _ => [])
      (fun s cbs => (List.range s.comp.size).filterMap fun n =>
        if cbOf cbs n = .none then none
        else if s.comp.completed n then some s!"F{n}/1/{b01 (s.comp.completed n)}/{Completion.time s.comp n}"
        else some s!"N{n}")

/-! ### metrics (C10) -/

def readAll (s : Sys) (n : Nat) : String :=
  "|".intercalate ((List.range 3).map fun ty =>
    match Metrics.get (s.store n) ty with | some v => showVal v | none => "-")

def metricsCase (line : String) : String :=
  match parseCase line with
  | none => "bad-case"
  | some p =>
    match viewMerge p.vm with
    | none => "bad-case"
    | some vm =>
      runAll p
        (fun s n => s!"[{readAll s n}][{showVals (Metrics.values (s.store n))}][{showVals (Metrics.values (viewAt s vm n))}]")
        (fun k ev before after => match ev with
          | .record .. =>
            match after.outcomes.drop before.outcomes.length with
            | [.returned _] => [s!"{k}=ok"]
            | [.propagated] => [s!"{k}=raised"]
            | _ => [s!"{k}=?"]
          | _ => [])
        (fun s cbs => (List.range s.comp.size).filterMap fun n =>
          if cbOf cbs n ≠ .none && s.comp.completed n then some s!"F{n}[{readAll s n}]" else none)

/-! ### logs (C19) -/

def showLogger : Logs.LoggerRef → String
  | .supplied k => s!"L{k}"
  | .named [] => "root"
  | .named name => "N:" ++ encodeStr name
  | .root => "root"

def showLevel : Logs.Level → String
  | .debug => "DEBUG" | .info => "INFO" | .warning => "WARNING" | .error => "ERROR"

def showEmitted (e : Logs.Emitted) : String :=
  let text := match e.text with | some t => "=" ++ encodeStr t | none => "LOST"
  s!"{showLogger e.logger}/{showLevel e.level}/{b01 e.exc}/{text}"

def logsCase (line : String) : String :=
  match parseCase line with
  | none => "bad-case"
  | some p =>
    -- every scope has its own identifier and every outermost scope without a given trace id a fresh one
    -- (`Haiway.C19.identifier_unique`, `fresh_trace_unique`): n distinct ones, none shared with later scopes
    (fun rest => if p.churn = 0 then rest else
        (s!"C{p.churn}/{p.churn}/{p.churn}/0" ++ (if rest.isEmpty then "" else " " ++ rest))) <|
    runAll p
      (fun _ _ => "")
      (fun k ev before after => match ev with
        | .log .. => (after.emitted.drop before.emitted.length).map fun e => s!"{k}~{showEmitted e}"
        | _ => [])
      (fun s cbs => (List.range s.comp.size).filterMap fun n =>
        if cbOf cbs n ≠ .none && s.comp.completed n then
          match s.info n with
          | some c => some s!"S{n}/{encodeStr (Logs.showTrace c.trace)}/{encodeStr (Logs.showIdent c.id)}/{encodeStr c.name}"
          | none => some s!"S{n}/?"
        else none)

end Driver.ScopeRun
