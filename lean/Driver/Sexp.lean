/-! Minimal S-expression reader used by the `validate` / `stateobj` drivers.  Atoms are maximal runs
of characters other than blanks and parentheses (strings are written `s"abc"` without blanks). -/
namespace Driver

inductive Sexp where
  | atom (s : String)
  | list (xs : List Sexp)
deriving Repr, Inhabited

namespace Sexp

def tokenize (s : String) : List String :=
  let (toks, cur) := s.foldl (init := (([] : List String), "")) fun (toks, cur) c =>
    if c == '(' || c == ')' then
      let toks := if cur.isEmpty then toks else cur :: toks
      (String.singleton c :: toks, "")
    else if c == ' ' || c == '\t' then
      (if cur.isEmpty then toks else cur :: toks, "")
    else (toks, cur.push c)
  (if cur.isEmpty then toks else cur :: toks).reverse

/-- parse a token list as the *sequence* of expressions it contains -/
def parseSeq (toks : List String) : Option (List Sexp) :=
  let step (st : Option (List (List Sexp))) (t : String) : Option (List (List Sexp)) :=
    match st with
    | none => none
    | some stack =>
      if t == "(" then some ([] :: stack)
      else if t == ")" then
        match stack with
        | top :: below :: rest => some ((Sexp.list top.reverse :: below) :: rest)
        | _ => none
      else match stack with
        | top :: rest => some ((Sexp.atom t :: top) :: rest)
        | [] => none
  match toks.foldl step (some [[]]) with
  | some [top] => some top.reverse
  | _ => none

def parseLine (line : String) : Option (List Sexp) := parseSeq (tokenize line)

def atom? : Sexp → Option String
  | .atom s => some s | _ => none
def nat? (s : Sexp) : Option Nat := s.atom?.bind String.toNat?
def int? (s : Sexp) : Option Int := s.atom?.bind String.toInt?

/-- the sub-expression list `(tag …)` with the given head -/
def field (tag : String) : List Sexp → Option (List Sexp)
  | [] => none
  | .list (.atom t :: rest) :: more => if t == tag then some rest else field tag more
  | _ :: more => field tag more

end Sexp
end Driver
