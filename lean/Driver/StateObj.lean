import Driver.Common
import Driver.StateVal
/-! `hwmodel stateobj` (C04): a family of classes and a script of operations on instance variables.
in : header as for `validate`, then `(classes (class id (params p*) (tp (n ty)*) (attrs …))*) (ops op*)`
ops: `(init r cid (name val)*)  (upd r s (name val)*)  (copy r s)  (deepcopy r s)  (eq s t)
      (set s name val)  (del s name)  (asdict s)  (mutarg …)  (mutexp s name step*)`
out: one result per op, joined by ` | `:
      `ok (name val)*` | `err <exception class>` | `b0`/`b1` | `rejected` | `mutable` | `-` | `undef` -/
namespace Driver.StateObj
open Driver Driver.StateVal Haiway.Validate Haiway.StateObj

mutual
/-- identity-free printing (nested State instances by value): copies may or may not share objects -/
def showDeep : PyVal → String
  | .none => "N" | .missing => "M"
  | .bool b => if b then "b1" else "b0"
  | .int i => s!"i{i}" | .float h => s!"f{h}"
  | .str s => s!"s\"{s}\"" | .bytes s => s!"y\"{s}\""
  | .list xs => "(L" ++ showDeeps xs ++ ")"
  | .tuple xs => "(T" ++ showDeeps xs ++ ")"
  | .set xs => "(S" ++ showDeeps xs ++ ")"
  | .fset xs => "(F" ++ showDeeps xs ++ ")"
  | .dict kvs => "(D" ++ showDeepPairs kvs ++ ")"
  | .mproxy kvs => "(P" ++ showDeepPairs kvs ++ ")"
  | .inst c _ fs => s!"(I {c}" ++ showDeepFields fs ++ ")"
  | .enumv c i m => s!"(E {c} {i} {showMix m})"
  | .obj c i => s!"(O {c} {i})"
  | .callable i => s!"(C {i})"
def showDeeps : List PyVal → String
  | [] => ""
  | x :: xs => " " ++ showDeep x ++ showDeeps xs
def showDeepPairs : List (PyVal × PyVal) → String
  | [] => ""
  | (k, v) :: r => " (" ++ showDeep k ++ " " ++ showDeep v ++ ")" ++ showDeepPairs r
def showDeepFields : List (String × PyVal) → String
  | [] => ""
  | (n, v) :: r => " (" ++ n ++ " " ++ showDeep v ++ ")" ++ showDeepFields r
end

def showResult : Except (String × Err) PyVal → String
  | .ok (.inst _ _ fs) => ("ok" ++ showDeepFields fs)
  | .ok _ => "bad-result"
  | .error (_, e) => s!"err {showErr e}"

structure St where
  vars : List (String × PyVal) := []
  next : Nat := 1000

/-- follow `steps` into a stored value: tuple/list index, set element index, mapping pair index then 0 (key) / 1 (value) -/
def navigate : PyVal → List Nat → Option PyVal
  | v, [] => some v
  | .tuple xs, i :: r => xs[i]?.bind (navigate · r)
  | .list xs, i :: r => xs[i]?.bind (navigate · r)
  | .fset xs, i :: r => xs[i]?.bind (navigate · r)
  | .set xs, i :: r => xs[i]?.bind (navigate · r)
  | .mproxy kvs, i :: j :: r => kvs[i]?.bind (fun p => navigate (if j == 0 then p.1 else p.2) r)
  | .dict kvs, i :: j :: r => kvs[i]?.bind (fun p => navigate (if j == 0 then p.1 else p.2) r)
  | _, _ => none

def mutability : PyVal → String
  | .tuple _ => "rejected" | .fset _ => "rejected" | .mproxy _ => "rejected"
  | .list _ => "mutable" | .set _ => "mutable" | .dict _ => "mutable"
  | _ => "bad-path"

def classOfInst (classes : List ClassDef) : PyVal → Option (ClassDef × List (String × PyVal))
  | .inst c _ fs => (classes.find? (·.id == c)).map (·, fs)
  | _ => none

def runOp (h : Header) (classes : List ClassDef) (st : St) : Sexp → St × String
  | .list (.atom "init" :: .atom r :: cid :: kw) =>
    match cid.nat?.bind (fun c => classes.find? (·.id == c)), decodeFields kw with
    | some cd, some kwargs =>
      let res := init h.env cd kwargs st.next
      match res with
      | .ok s => ({ vars := (r, s) :: st.vars, next := st.next + 1 }, showResult res)
      | .error _ => (st, showResult res)
    | _, _ => (st, "bad-op")
  | .list (.atom "upd" :: .atom r :: .atom s :: kw) =>
    match (st.vars.lookup s).bind (classOfInst classes), decodeFields kw with
    | some (cd, fs), some kwargs =>
      let res := updated h.env cd fs kwargs st.next
      match res with
      | .ok s' => ({ vars := (r, s') :: st.vars, next := st.next + 1 }, showResult res)
      | .error _ => (st, showResult res)
    | none, some _ => (st, "undef")
    | _, _ => (st, "bad-op")
  | .list [.atom "copy", .atom r, .atom s] =>
    match st.vars.lookup s with
    | some v => ({ st with vars := (r, copy v) :: st.vars }, showResult (.ok (copy v)))
    | none => (st, "undef")
  | .list [.atom "deepcopy", .atom r, .atom s] =>
    match st.vars.lookup s with
    | some v => ({ st with vars := (r, deepcopy v) :: st.vars }, showResult (.ok (deepcopy v)))
    | none => (st, "undef")
  | .list [.atom "eq", .atom s, .atom t] =>
    match st.vars.lookup s, st.vars.lookup t with
    | some a, some b => (st, if pyEq h.env a b then "b1" else "b0")
    | _, _ => (st, "undef")
  | .list [.atom "set", .atom s, .atom n, v] =>
    match st.vars.lookup s, decodeVal v with
    | some a, some v => (st, match setattr a n v with | .error _ => "rejected" | .ok _ => "mutated")
    | none, _ => (st, "undef")
    | _, _ => (st, "bad-op")
  | .list [.atom "del", .atom s, .atom n] =>
    match st.vars.lookup s with
    | some a => (st, match delattr a n with | .error _ => "rejected" | .ok _ => "mutated")
    | none => (st, "undef")
  | .list [.atom "asdict", .atom s] =>
    match st.vars.lookup s with
    | some (.inst _ _ fs) => (st, "ok" ++ showDeepFields (asDict fs))
    | _ => (st, "undef")
  | .list (.atom "mutarg" :: _) => (st, "-")     -- the model has no aliasing: caller-side mutation is invisible
  | .list (.atom "mutexp" :: .atom s :: .atom n :: steps) =>
    match st.vars.lookup s, steps.mapM Sexp.nat? with
    | some (.inst _ _ fs), some path =>
      (st, match (fs.lookup n).bind (navigate · path) with
           | some v => mutability v
           | none => "bad-path")
    | none, _ => (st, "undef")
    | _, _ => (st, "bad-op")
  | _ => (st, "bad-op")

def decodeClasses (h : Header) (cs : List Sexp) : Option (List ClassDef) :=
  cs.mapM fun c => match c with
    | .list (.atom "class" :: rest) => match decodeClass h rest with
      | some (.ok cd) => some cd
      | _ => none
    | _ => none

def runCase (line : String) : String :=
  match Sexp.parseLine line with
  | none => "bad-syntax"
  | some top =>
    match decodeHeader top with
    | none => "bad-header"
    | some h =>
      match (Sexp.field "classes" top).bind (decodeClasses h), Sexp.field "ops" top with
      | some classes, some ops =>
        let (_, outs) := ops.foldl (init := (({} : St), ([] : List String))) fun (st, outs) op =>
          let (st', o) := runOp h classes st op
          (st', o :: outs)
        " | ".intercalate outs.reverse
      | _, _ => "bad-case"

end Driver.StateObj
