import Haiway.Model.StateObj
import Driver.Sexp
/-! Decoding / encoding of values, surface annotations and class tables (DESIGN Appendix E). -/
namespace Driver.StateVal
open Driver Haiway.Validate Haiway.Resolve Haiway.StateObj

/-- `s"abc"` → `abc` -/
def unquote (s : String) (pfx : Nat) : Option String :=
  let body := (s.drop pfx).toString
  if body.length ≥ 2 && body.front == '"' && body.back == '"' then
    some ((body.drop 1).dropEnd 1).toString
  else none

def decodeMix : Sexp → Option Mix
  | .atom "-" => some .none
  | .atom s =>
    if s.startsWith "s\"" then (unquote s 1).map .str
    else if s.startsWith "i" then ((s.drop 1).toString.toInt?).map .int
    else none
  | _ => none

mutual
def decodeVal : Sexp → Option PyVal
  | .atom s =>
    if s == "N" then some .none
    else if s == "M" then some .missing
    else if s == "b0" then some (.bool false)
    else if s == "b1" then some (.bool true)
    else if s.startsWith "s\"" then (unquote s 1).map .str
    else if s.startsWith "y\"" then (unquote s 1).map .bytes
    else if s.startsWith "i" then ((s.drop 1).toString.toInt?).map .int
    else if s.startsWith "f" then ((s.drop 1).toString.toInt?).map .float
    else none
  | .list (.atom "L" :: xs) => (decodeVals xs).map .list
  | .list (.atom "T" :: xs) => (decodeVals xs).map .tuple
  | .list (.atom "S" :: xs) => (decodeVals xs).map .set
  | .list (.atom "F" :: xs) => (decodeVals xs).map .fset
  | .list (.atom "D" :: xs) => (decodePairs xs).map .dict
  | .list (.atom "P" :: xs) => (decodePairs xs).map .mproxy
  | .list (.atom "I" :: c :: i :: fs) => do
      let c ← c.nat?; let i ← i.nat?
      let fs ← decodeFields fs
      pure (.inst c i fs)
  | .list [.atom "E", c, i, m] => do pure (.enumv (← c.nat?) (← i.nat?) (← decodeMix m))
  | .list [.atom "O", c, i] => do pure (.obj (← c.nat?) (← i.nat?))
  | .list [.atom "C", i] => do pure (.callable (← i.nat?))
  | _ => none
def decodeVals : List Sexp → Option (List PyVal)
  | [] => some []
  | x :: xs => do let v ← decodeVal x; let vs ← decodeVals xs; pure (v :: vs)
def decodePairs : List Sexp → Option (List (PyVal × PyVal))
  | [] => some []
  | .list [k, v] :: xs => do
      let k ← decodeVal k; let v ← decodeVal v; let r ← decodePairs xs; pure ((k, v) :: r)
  | _ => none
def decodeFields : List Sexp → Option (List (String × PyVal))
  | [] => some []
  | .list [.atom n, v] :: xs => do let v ← decodeVal v; let r ← decodeFields xs; pure ((n, v) :: r)
  | _ => none
end

def decodePrim : Sexp → Option Prim
  | .atom s =>
    if s == "N" then some .none
    else if s == "b0" then some (.bool false)
    else if s == "b1" then some (.bool true)
    else if s.startsWith "s\"" then (unquote s 1).map .str
    else if s.startsWith "y\"" then (unquote s 1).map .bytes
    else if s.startsWith "i" then ((s.drop 1).toString.toInt?).map .int
    else none
  | .list [.atom "E", c, i, _] => do pure (.enumv (← c.nat?) (← i.nat?))
  | _ => none

mutual
def decodeTy : Sexp → Option TyExpr
  | .atom "none" => some .none
  | .atom "any" => some .any
  | .atom "missing" => some .missing
  | .atom "callable" => some .callable
  | .atom "self" => some .self
  | .list [.atom "cls", c] => c.nat?.map .cls
  | .list (.atom "lit" :: ps) => (ps.mapM decodePrim).map .literal
  | .list [.atom "seq", t] => (decodeTy t).map .seq
  | .list [.atom "tupv", t] => (decodeTy t).map .tupleVar
  | .list [.atom "set", t] => (decodeTy t).map .set
  | .list [.atom "fset", t] => (decodeTy t).map .fset
  | .list [.atom "map", k, v] => do pure (.map (← decodeTy k) (← decodeTy v))
  | .list (.atom "tupf" :: ts) => (decodeTys ts).map .tupleFixed
  | .list (.atom "union" :: ts) => (decodeTys ts).map .union
  | .list (.atom "uor" :: ts) => (decodeTys ts).map .union      -- `a | b` spelling
  | .list [.atom "opt", t] => (decodeTy t).map .optional
  | .list [.atom "ann", t] => (decodeTy t).map .annotated
  | .list [.atom "final", t] => (decodeTy t).map .final
  | .list [.atom "fwd", .atom n] => some (.fwd n)
  | .list [.atom "tvar", .atom n] => some (.tvar n)
  | .list (.atom "alias" :: .atom n :: ts) => (decodeTys ts).map (.alias n)
  | .list (.atom "gen" :: c :: ts) => do pure (.generic (← c.nat?) (← decodeTys ts))
  | _ => none
def decodeTys : List Sexp → Option (List TyExpr)
  | [] => some []
  | x :: xs => do let t ← decodeTy x; let ts ← decodeTys xs; pure (t :: ts)
end

/-! ### printing -/

def showMix : Mix → String
  | .none => "-" | .str s => s!"s\"{s}\"" | .int i => s!"i{i}"

mutual
/-- nested State instances are printed by identity only: `(I cls id)` -/
def showVal : PyVal → String
  | .none => "N" | .missing => "M"
  | .bool b => if b then "b1" else "b0"
  | .int i => s!"i{i}" | .float h => s!"f{h}"
  | .str s => s!"s\"{s}\"" | .bytes s => s!"y\"{s}\""
  | .list xs => "(L" ++ showVals xs ++ ")"
  | .tuple xs => "(T" ++ showVals xs ++ ")"
  | .set xs => "(S" ++ showVals xs ++ ")"
  | .fset xs => "(F" ++ showVals xs ++ ")"
  | .dict kvs => "(D" ++ showPairs kvs ++ ")"
  | .mproxy kvs => "(P" ++ showPairs kvs ++ ")"
  | .inst c i _ => s!"(I {c} {i})"
  | .enumv c i m => s!"(E {c} {i} {showMix m})"
  | .obj c i => s!"(O {c} {i})"
  | .callable i => s!"(C {i})"
def showVals : List PyVal → String
  | [] => ""
  | x :: xs => " " ++ showVal x ++ showVals xs
def showPairs : List (PyVal × PyVal) → String
  | [] => ""
  | (k, v) :: r => " (" ++ showVal k ++ " " ++ showVal v ++ ")" ++ showPairs r
end

def showFields (fs : List (String × PyVal)) : String :=
  " ".intercalate (fs.map fun (n, v) => s!"({n} {showVal v})")

def showErr : Err → String
  | .type => "TypeError" | .value => "ValueError" | .group => "ExceptionGroup"

/-! ### environment header shared by both components -/

structure Header where
  env : ClsEnv
  E : StaticEnv
  aliases : List AliasDef

def decodePairNat : Sexp → Option (Nat × Nat)
  | .list [a, b] => do pure (← a.nat?, ← b.nat?)
  | _ => none
def decodeNameNat : Sexp → Option (String × Nat)
  | .list [.atom n, b] => do pure (n, ← b.nat?)
  | _ => none
def decodeAlias : Sexp → Option AliasDef
  | .list [.atom n, .list ps, body] => do
      pure { name := n, params := ← ps.mapM Sexp.atom?, body := ← decodeTy body }
  | _ => none

def resolveClosed (E : StaticEnv) (als : List AliasDef) (t : TyExpr) : Option Ann :=
  match resolve E als none [] t with
  | .ok a => some a
  | .error _ => none

def decodeSpec (E : StaticEnv) (als : List AliasDef) : Sexp → Option (Nat × List Ann × Nat)
  | .list (c :: i :: ts) => do
      let ts ← decodeTys ts
      pure (← c.nat?, ← ts.mapM (resolveClosed E als), ← i.nat?)
  | _ => none

def decodeHeader (top : List Sexp) : Option Header := do
  let subs ← (← Sexp.field "sub" top).mapM decodePairNat
  let names ← (← Sexp.field "names" top).mapM decodeNameNat
  let bounds ← (← Sexp.field "bounds" top).mapM decodeNameNat
  let aliases ← (← Sexp.field "aliases" top).mapM decodeAlias
  let E0 : StaticEnv := { bounds := bounds, names := names, specs := [] }
  let specs ← (← Sexp.field "specs" top).mapM (decodeSpec E0 aliases)
  pure { env := { sub := fun c d => c == d || subs.contains (c, d) },
         E := { E0 with specs := specs }, aliases := aliases }

def decodeAttrSrc : Sexp → Option AttrSrc
  | .list [.atom n, ty, .atom "-"] => do pure { name := n, ty := ← decodeTy ty, default := none }
  | .list [.atom n, ty, d] => do pure { name := n, ty := ← decodeTy ty, default := some (← decodeVal d) }
  | _ => none

def decodeTp (h : Header) : Sexp → Option (String × Ann)
  | .list [.atom n, ty] => do pure (n, ← resolveClosed h.E h.aliases (← decodeTy ty))
  | _ => none

inductive ClassResult where
  | ok (cd : ClassDef)
  | failed (why : String)

/-- `(class id (params p*) (tp (n ty)*) (attrs (name ty default)*))` (the `params` are only needed by Python) -/
def decodeClass (h : Header) : List Sexp → Option ClassResult
  | idx :: rest => do
      let id ← idx.nat?
      let tp ← (← Sexp.field "tp" rest).mapM (decodeTp h)
      let srcs ← (← Sexp.field "attrs" rest).mapM decodeAttrSrc
      match mkClass h.E h.aliases id tp srcs with
      | .ok as => pure (.ok { id := id, attrs := as })
      | .error (.unknownAlias n) => pure (.failed s!"unknown-alias:{n}")
      | .error (.unknownName n) => pure (.failed s!"unknown-name:{n}")
      | .error (.unknownSpec c) => pure (.failed s!"unknown-spec:{c}")
  | _ => none

end Driver.StateVal
