import Haiway.Model.Stream
import Driver.Common
/-! `hwmodel stream`: one case per line, `<gens>|<steps>`.

gens  ::= gen (";" gen)*        gen ::= instr ("," instr)*      (generator index = position)
instr ::= y<i> | n<k> | r<k> | R<k> | X | f | F | q | o<v> | O<v> | u<v> | c | s<g>
          (`o`/`O`/`u` open a `with ctx.scope` / `async with ctx.scope` / `with ctx.updated` block, `c` closes the
           innermost one, blocks still open at the end are closed there; `s<g>` with `g` > own index: iterate a nested
           `ctx.stream` of generator `g`, otherwise a no-op)
steps ::= step (" " step)*      step ::= <task>:<op>
op    ::= a<v> | w<v> | u<v> | x | m<s>g<g> | n<s> | c<s> | z<s> | p | t<j> | k

out: one token per step: `ok` `dead` `bad` `<FP>` `i<i>@<FP>` `stop` `err:<Name>`, each followed by
`+done:<label>:<own>:<merged>` for every completion callback that fired in that step.
FP = `<state>/<label>/<group>`. -/
namespace Driver.Stream
open Haiway.Stream

/-- flat instruction tokens → tree, with an explicit stack of open blocks (innermost first) -/
structure Open where
  k : BK
  v : Nat
  acc : List Instr   -- reversed

def closeTop (cur : List Instr) (stack : List Open) : List Instr × List Open :=
  match stack with
  | [] => (cur, [])
  | o :: rest => (.block o.k o.v cur.reverse :: o.acc, rest)

def closeAll : Nat → List Instr → List Open → List Instr
  | 0, cur, _ => cur.reverse
  | n + 1, cur, stack =>
    match stack with
    | [] => cur.reverse
    | _ => let r := closeTop cur stack; closeAll n r.1 r.2

def num (s : String) : Nat := s.toNat?.getD 0

/-- `later` = already built generators with a larger index -/
def buildGen (self : Nat) (later : List (Nat × List Instr)) (toks : List String) : List Instr := Id.run do
  let mut cur : List Instr := []      -- reversed
  let mut stack : List Open := []
  for tok in toks do
    let k := (tok.take 1).toString
    let arg := num (tok.drop 1).toString
    match k with
    | "y" => cur := .yld arg :: cur
    | "r" => cur := .recd arg :: cur
    | "R" => cur := .recd arg :: cur       -- the source is a factory function recording at call time: the call happens
    | "X" => cur := .fail false :: cur     -- (or fails) inside the stream's scope, on the first resumption
    | "n" => cur := .yld (900 + arg % 5) :: cur   -- yields None / 0 / "" / () / False: an item like any other
    | "f" => cur := .fail false :: cur
    | "F" => cur := .fail true :: cur
    | "q" => cur := .nop :: cur
    | "S" => cur := .nop :: cur      -- a feeder task of the source: nothing the consumer can observe
    | "o" => stack := { k := .sync, v := arg, acc := cur } :: stack; cur := []
    | "O" => stack := { k := .async, v := arg, acc := cur } :: stack; cur := []
    | "u" => stack := { k := .upd, v := arg, acc := cur } :: stack; cur := []
    | "c" =>
      match stack with
      | [] => pure ()
      | _ => let r := closeTop cur stack; cur := r.1; stack := r.2
    | "s" =>
      if arg > self then
        match lookup later arg with
        | some body => cur := .sub arg body :: cur
        | none => cur := .nop :: cur
      else cur := .nop :: cur
    | _ => cur := .nop :: cur
  return closeAll stack.length cur stack

def parseGens (s : String) : Gens := Id.run do
  let raw := (s.splitOn ";").map (fun g => (g.splitOn ",").filter (· ≠ ""))
  let n := raw.length
  let mut built : List (Nat × List Instr) := []
  -- from the last generator to the first, so that `s<g>` finds the tree of `g`
  for k in [0:n] do
    let idx := n - 1 - k
    let toks := raw[idx]?.getD []
    built := (idx, buildGen idx built toks) :: built
  return (List.range n).map (fun i => (lookup built i).getD [])

def parseOp (tok : String) : Option Op :=
  let k := (tok.take 1).toString
  let rest := (tok.drop 1).toString
  match k with
  | "a" => some (.enterA (num rest))
  | "w" => some (.enterS (num rest))
  | "u" => some (.enterU (num rest))
  | "x" => some .exit
  | "m" => match rest.splitOn "g" with
    | [s, g] => some (.mk (num s) (num g))
    | _ => none
  | "n" => some (.next (num rest))
  | "c" => some (.close (num rest))
  | "z" => some (.abandon (num rest))
  | "p" => some .probe
  | "t" => some (.spawn (num rest))
  | "k" => some .caught
  | _ => none

def parseStep (tok : String) : Option Label :=
  match tok.splitOn ":" with
  | [t, op] => (parseOp op).map (fun o => { task := num t, op := o })
  | _ => none

def showName : Name → String
  | .task i => s!"s{i}"
  | .bsync v => s!"b{v}"
  | .basync v => s!"B{v}"
  | .gen g => s!"g{g}"

def showOwner : Owner → String
  | .task i => s!"s{i}"
  | .basync v => s!"B{v}"
  | .stream g path => s!"g{g}." ++ ".".intercalate (path.map toString)

def showFP (f : FP) : String :=
  let st := match f.state with
    | none => "MC"
    | some 0 => "dflt"
    | some v => toString v
  let lb := match f.label with
    | none => "-"
    | some n => showName n
  let gr := match f.group with
    | none => "-"
    | some o => showOwner o
  s!"{st}/{lb}/{gr}"

def showExc : Exc → String
  | .boom => "Boom"
  | .baseBoom => "BaseBoom"
  | .genExit => "GeneratorExit"

def showObs : Obs → String
  | .ok => "ok"
  | .dead => "dead"
  | .bad => "bad"
  | .fp f => showFP f
  | .out (.item i f) => s!"i{i}@{showFP f}"
  | .out .stop => "stop"
  | .out (.err e) => s!"err:{showExc e}"

def showNats (l : List Nat) : String := ".".intercalate (l.map toString)

def showEvent (e : Event) : String := s!"+done:{showName e.name}:{showNats e.own}:{showNats e.merged}"

def runCase (line : String) : String :=
  match line.splitOn "|" with
  | [g, st] => Id.run do
    let gens := parseGens g
    let mut s : Sys := {}
    let mut out : List String := []
    let mut idx := 0
    for tok in Driver.words st do
      match parseStep tok with
      | none => return "bad-case"
      | some l =>
        let n0 := s.world.events.length
        let r := step gens s idx l
        s := r.1
        out := (showObs r.2 ++ String.join ((s.world.events.drop n0).map showEvent)) :: out
        idx := idx + 1
    return " ".intercalate out.reverse
  | _ => "bad-case"

end Driver.Stream
