import Haiway.Model.Tasks
import Driver.Common
/-! `hwmodel tasks`: one interleaved label sequence per line.
tokens: `ctor=<bits>`  `E<t>.<b>.<A|S|U>.<ty:val,…>[/<ty:val,…>]*`  `L<t>.<b>`  `P<t>.<ty>.<0|1>`  `Ws<t>|Wc<t>`  `F<t>`  `X<t>.<b>`
out: one observation per probe (`s:<ty>:<val>` `d` `c` `ms` `mc`), `!` for a label the model refuses. -/
namespace Driver.Tasks
open Haiway.ScopeState Haiway.Tasks

def parseInsts (s : String) : Option (List Inst) :=
  if s.isEmpty then some [] else
  (s.splitOn ",").mapM fun p =>
    match p.splitOn ":" with
    | [a, b] => do let ty ← a.toNat?; let v ← b.toNat?; pure ⟨ty, v⟩
    | _ => none

def parseLabel (tok : String) : Option Label :=
  let body := (tok.drop 1).toString
  match tok.front with
  | 'E' =>
    match body.splitOn "." with
    | [t, b, _k, rest] => do
      let t ← t.toNat?; let b ← b.toNat?
      match rest.splitOn "/" with
      | d :: ds => do
        let direct ← parseInsts d
        let disp ← ds.mapM parseInsts
        pure (.enter t b direct disp)
      | [] => none
    | _ => none
  | 'L' =>
    match body.splitOn "." with
    | [t, b] => do pure (.left (← t.toNat?) (← b.toNat?))
    | _ => none
  | 'P' =>
    match body.splitOn "." with
    | [t, ty, d] => do pure (.probe (← t.toNat?) (← ty.toNat?) (d == "1"))
    | _ => none
  | 'W' => do pure (.spawn (← (body.drop 1).toString.toNat?))
  | 'F' => do pure (.finish (← body.toNat?))
  | 'X' =>
    match body.splitOn "." with
    | [t, b] => do pure (.foreignExit (← t.toNat?) (← b.toNat?))
    | _ => none
  | _ => none

def showObs : Obs → String
  | .none => ""
  | .supplied i => s!"s:{i.ty}:{i.val}"
  | .refused => "xr"
  | .default => "d"
  | .constructed => "c"
  | .missingState => "ms"
  | .missingContext => "mc"

def runCase (line : String) : String :=
  match Driver.words line with
  | [] => "bad-case"
  | c :: toks =>
    let bits := ((c.drop 5).toString).toList
    let ctor : Nat → Bool := fun t => bits.getD t '0' == '1'
    match toks.mapM parseLabel with
    | none => "bad-label"
    | some ls =>
      let obs := run ctor init ls
      let outs := obs.filterMap fun o =>
        match o with
        | none => some "!"
        | some .none => none
        | some o => some (showObs o)
      " ".intercalate outs

end Driver.Tasks
