import Haiway.Model.Throttle
import Driver.Common
/-! `hwmodel throttle`: one case per line

```
<limit|-> <period> <event>*
limit     number, or `-` = bare `@throttle` (limit 1, period 1 s; the period token is ignored)
period    f<q> (the float q*0.25) | i<n> (int seconds) | t<n> (timedelta(seconds=n))
          | t<d>,<s>,<ms> (timedelta(days=d, seconds=s, milliseconds=ms), ms a multiple of 250)
event     all instants in ticks of 0.25 s; gap = ticks since the previous event (first: since time 0)
  call    <gap>:<duration>:<outcome>[:a|b|1|2|3]   duration of the wrapped function, outcome v (returns)
          | e (raises an Exception) | b (raises a BaseException); the 4th field says when within its
          instant the harness creates the caller: after everything due then has happened (a, default),
          before the timers due then fire (b), or k single loop iterations after they began to fire –
          the model (a FIFO lock) does not depend on it
  cancel  <gap>:x<i>[:a|b]   cancel the caller of call i (an earlier token) after everything due at that
          instant has happened (a, default) or before the timers due then fire (b; needs gap > 0)
```
out: `<start>/<caller outcome>/<finish>` per call (`v<i>` / `x<i>` = value / exception object of
call `i`, `c` = CancelledError, start `-` = never started; `IndexError` when the call died in the wrapper) then `order=<call indices in start order>`. -/
namespace Driver.Throttle
open Haiway.Throttle

def parsePeriod (tok : String) : Option PeriodArg :=
  let body := (tok.drop 1).toString
  if tok.startsWith "f" then body.toNat?.map .float
  else if tok.startsWith "F" then body.toNat?.map .float    -- fine time unit (harness side): the model is unit-free
  else if tok.startsWith "i" then body.toNat?.map .int
  else if tok.startsWith "t" then
    match (body.splitOn ",").mapM String.toNat? with
    | some [s] => some (.timedelta 0 s 0)
    | some [d, s, ms] => if ms % 250 = 0 then some (.timedelta d s ms) else none
    | _ => none
  else none

inductive Tok where
  | call (gap dur : Nat) (out : FnOut)
  | cancel (gap idx : Nat) (before : Bool)

def parseTok (nCalls : Nat) (tok : String) : Option Tok :=
  match tok.splitOn ":" with
  | g :: second :: rest =>
    match g.toNat? with
    | none => none
    | some g =>
      if second.startsWith "x" then
        match (second.drop 1).toString.toNat?, rest with
        | some i, [] => if i < nCalls then some (.cancel g i false) else none
        | some i, ["a"] => if i < nCalls then some (.cancel g i false) else none
        | some i, ["b"] => if i < nCalls ∧ 0 < g then some (.cancel g i true) else none
        | _, _ => none
      else
        match second.toNat?, rest with
        | some d, o :: mode =>
          if mode ≠ [] ∧ mode ≠ ["a"] ∧ mode ≠ ["b"] ∧ mode ≠ ["1"] ∧ mode ≠ ["2"] ∧ mode ≠ ["3"] then none
          else if o = "v" then some (.call g d (.value nCalls))
          else if o = "e" ∨ o = "b" then some (.call g d (.raised nCalls))
          else none
        | _, _ => none
  | _ => none

structure CallSpec where
  arrival : Nat
  dur : Nat
  out : FnOut
  cancel : Option Cancel := none

/-- tokens in time order → calls with their (first) cancellation request -/
def parseEvents (toks : List String) : Option (List CallSpec) := do
  let mut t := 0
  let mut calls : Array CallSpec := #[]
  for tok in toks do
    match parseTok calls.size tok with
    | none => none
    | some (.call g d o) =>
      t := t + g
      calls := calls.push { arrival := t, dur := d, out := o }
    | some (.cancel g i before) =>
      t := t + g
      match calls[i]? with
      | some c => if c.cancel.isNone then calls := calls.set! i { c with cancel := some ⟨t, before⟩ }
      | none => none
  return calls.toList

def showCall (r : ResC) (c : CallSpec) : String :=
  match r, callerOutcomeC r c.dur c.out c.cancel with
  | .ran (.started t), (.value v, some f) => s!"{t}/v{v}/{f}"
  | .ran (.started t), (.raised id, some f) => s!"{t}/x{id}/{f}"
  | .ran (.started t), (.cancelled, some f) => s!"{t}/c/{f}"
  | .cancelledQueued, (_, some f) => s!"-/c/{f}"
  | .cancelledSleeping, (_, some f) => s!"-/c/{f}"
  | _, _ => "IndexError"

def runCase (line : String) : String :=
  match Driver.words line with
  | lim :: per :: toks =>
    let bare := lim == "-"
    match (if bare then some 1 else lim.toNat?), (if bare then some (.int 1) else parsePeriod per),
        parseEvents toks with
    | some limit, some period, some cs =>
      let rs := runC limit period.toTicks init (cs.map fun c => (c.arrival, c.cancel))
      let shown := (rs.zip cs).map fun (r, c) => showCall r c
      let order := ((rs.zipIdx).filterMap fun (r, i) =>
        match r with | .ran (.started _) => some (toString i) | _ => none)
      " ".intercalate shown ++ " order=" ++ ",".intercalate order
    | _, _, _ => "bad-case"
  | _ => "bad-case"

end Driver.Throttle
