import Haiway.Model.Throttle
import Driver.Common
/-! `hwmodel throttle`: one case per line

```
<limit|-> <period> <gap>:<duration>:<outcome>[:<a|b>]*
limit     number, or `-` = bare `@throttle` (limit 1, period 1 s; the period token is ignored)
period    f<q> (the float q*0.25) | i<n> (int seconds) | t<n> (timedelta(seconds=n))
          | t<d>,<s>,<ms> (timedelta(days=d, seconds=s, milliseconds=ms), ms a multiple of 250)
call      all instants in ticks of 0.25 s: gap = ticks since the previous arrival (first: since time
          0), duration of the wrapped function, outcome v (returns) | e (raises an Exception) | b
          (raises a BaseException); optional 4th field = whether the harness creates the caller after
          (a, default) or before (b) the timers due at the arrival instant fire – the model (a FIFO
          lock) does not depend on it
```
out: `<start>/<caller outcome>/<finish>` per call (`v<i>` / `x<i>` = value / exception object of
call `i`; `IndexError` when the call died in the wrapper) then `order=<call indices in start order>`. -/
namespace Driver.Throttle
open Haiway.Throttle

def parsePeriod (tok : String) : Option PeriodArg :=
  let body := (tok.drop 1).toString
  if tok.startsWith "f" then body.toNat?.map .float
  else if tok.startsWith "i" then body.toNat?.map .int
  else if tok.startsWith "t" then
    match (body.splitOn ",").mapM String.toNat? with
    | some [s] => some (.timedelta 0 s 0)
    | some [d, s, ms] => if ms % 250 = 0 then some (.timedelta d s ms) else none
    | _ => none
  else none

def parseCall (idx : Nat) (tok : String) : Option (Nat × Nat × FnOut) :=
  match tok.splitOn ":" with
  | g :: d :: o :: mode =>
    if mode ≠ [] ∧ mode ≠ ["a"] ∧ mode ≠ ["b"] then none else
    match g.toNat?, d.toNat?, o with
    | some g, some d, "v" => some (g, d, .value idx)
    | some g, some d, "e" => some (g, d, .raised idx)
    | some g, some d, "b" => some (g, d, .raised idx)
    | _, _, _ => none
  | _ => none

def parseCalls (toks : List String) : Option (List (Nat × Nat × FnOut)) :=
  (toks.zipIdx).mapM fun (tok, i) => parseCall i tok

def showCall (r : Res) (dur : Nat) (o : FnOut) : String :=
  match r, callerOutcome r o with
  | .started t, .value v => s!"{t}/v{v}/{t + dur}"
  | .started t, .raised id => s!"{t}/x{id}/{t + dur}"
  | _, _ => "IndexError"

def runCase (line : String) : String :=
  match Driver.words line with
  | lim :: per :: calls =>
    let bare := lim == "-"
    match (if bare then some 1 else lim.toNat?), (if bare then some (.int 1) else parsePeriod per),
        parseCalls calls with
    | some limit, some period, some cs =>
      let arrivals := (cs.foldl (fun (acc : List Nat × Nat) c => (acc.1 ++ [acc.2 + c.1], acc.2 + c.1)) ([], 0)).1
      let rs := run limit period.toTicks init arrivals
      let shown := (rs.zip cs).map fun (r, c) => showCall r c.2.1 c.2.2
      let order := ((rs.zipIdx).filterMap fun (r, i) =>
        match r with | .started _ => some (toString i) | .indexError => none)
      " ".intercalate shown ++ " order=" ++ ",".intercalate order
    | _, _, _ => "bad-case"
  | _ => "bad-case"

end Driver.Throttle
