import Haiway.Model.Timeout
import Driver.Common
/-! `hwmodel timeout`: one call (or several overlapping calls, see `runCase`) through the timeout wrapper per line.

case:  `d=<n> k=<val|exc|base|self> ig=<0|1> D=<n> c=<n|->`
        d  virtual instant at which the function's own delay is over (0 = it never suspends)
        k  how it ends (`fval`/`fexc`/`fbase`: falsy value / falsy exception objects), ig = swallows the first cancellation, D = the timeout,
        c  instant at which `cancel()` is called on the caller (`-` = never); `<t>+<k>` = k single
           loop iterations into instant t (between the callbacks that instant's events trigger)
out:   `out=<res|exc|base|timeout|cancelled|hang>@<t|-> at=<fn status when the caller got its outcome>
        end=<finished|cancelled|running> seen=<cancellations delivered inside the function>
        pend=<tasks not done at final quiescence> handler=<loop exception handler calls>
        tm=<wrapper timers still armed once caller and function are both done>
        acc=<what cancel() on the caller returned: 1 = the caller had not finished>`

The environment events (function's delay over, deadline, caller cancellation) happen at their
virtual instants in increasing order; everything the loop does in between takes no time.  At one
instant the driver explores **every** interleaving of that instant's environment events with the
enabled loop-level labels of the LTS (this over-approximates the FIFO order of the real loop).
When all interleavings give the same observation the line is that observation; otherwise – only
possible when two environment events share an instant – it is `ALT a || b || …`, the set of
admissible observations (M4: ties are left nondeterministic). -/
namespace Driver.Timeout
open Haiway.Timeout

inductive Ext where | fin | timer | cancel
deriving DecidableEq, Repr

structure D where
  s : S
  finReady : Bool := false
  seen : Nat := 0
  ended : Option String := none     -- how the function ended
  outAt : Option Nat := none        -- instant at which the caller resumed
  atStatus : Option String := none  -- function status at the end of that instant
  acc : Option Bool := none        -- what `cancel()` on the caller returned (true = caller not done yet)
  tmAt : Option Nat := none         -- timers of the wrapper still armed at the end of the first
                                    -- instant at which caller and function are both done

def fnStatus (d : D) : String :=
  match d.ended with
  | some e => e
  | none => s!"running:{d.seen}"

def internal : List Lbl := [.taskEnds, .taskSeesCancel, .runCompletion, .runResult, .callerWakes]

def applyLbl (d : D) (now : Nat) (l : Lbl) : Option D :=
  if l = .taskEnds && !d.finReady then none else
  match step d.s l with
  | none => none
  | some s' =>
    let d' := { d with s := s' }
    match l with
    | .taskEnds => some { d' with ended := some "finished" }
    | .taskSeesCancel =>
      some { d' with seen := d.seen + 1,
                     ended := (if s'.tsk = .doneCancelled then some "cancelled" else none) }
    | .callerWakes => some { d' with outAt := some now }
    | _ => some d'

def applyExt (d : D) (e : Ext) : D :=
  match e with
  | .fin => { d with finReady := true }
  | .timer => match step d.s .timerFires with   -- a cancelled handle is not run
    | some s' => { d with s := s' }
    | none => d
  | .cancel =>
    -- `Task.cancel()` answers True unless the caller is already done
    let acc := match d.s.caller with | .waiting _ => true | .done _ => false
    match step d.s .callerCancel with   -- cancel() on a finished / already cancelled caller: no-op
    | some s' => { d with s := s', acc := some acc }
    | none => { d with acc := some acc }

def showOut : COut → String
  | .res => "res" | .excUser => "exc" | .excBase => "base" | .timeout => "timeout" | .cancelled => "cancelled"

def render (d : D) : String :=
  let out := match d.s.caller, d.outAt with
    | .done o, some t => s!"out={showOut o}@{t}"
    | _, _ => "out=hang@-"
  let pend := (match d.s.caller with | .waiting _ => 1 | .done _ => 0)
            + (match d.s.tsk with | .running _ _ => 1 | _ => 0)
  let fin := match d.ended with | some e => e | none => "running"
  s!"{out} at={match d.atStatus with | some a => a | none => "-"} end={fin} seen={d.seen} pend={pend} handler=0 tm={match d.tmAt with | some n => toString n | none => "-"} acc={match d.acc with | some true => "1" | some false => "0" | none => "-"}"

def removeOne (e : Ext) : List Ext → List Ext
  | [] => []
  | x :: xs => if x = e then xs else x :: removeOne e xs

/-- all final observations; `exts` = environment events of the current instant still to happen,
`later` = the following instants -/
def explore : Nat → D → Nat → List Ext → List (Nat × List Ext) → List String
  | 0, _, _, _, _ => ["fuel"]
  | fuel + 1, d, now, exts, later =>
    let viaLbl := internal.filterMap (applyLbl d now)
    let viaExt := exts.eraseDups.map (fun e => (applyExt d e, removeOne e exts))
    if viaLbl.isEmpty && viaExt.isEmpty then
      -- this instant is quiescent
      let d := if d.outAt.isSome && d.atStatus.isNone then { d with atStatus := some (fnStatus d) } else d
      let d := if d.outAt.isSome && d.ended.isSome && d.tmAt.isNone
               then { d with tmAt := some (if d.s.tmr = .armed then 1 else 0) } else d
      match later with
      | [] => [render d]
      | (t, es) :: rest => explore fuel d t es rest
    else
      ((viaLbl.flatMap (fun d' => explore fuel d' now exts later)) ++
       (viaExt.flatMap (fun (d', es) => explore fuel d' now es later))).eraseDups

def parseKind : String → Option Kind
  | "val" => some .val | "exc" => some .exc | "base" => some .baseExc | "self" => some .selfCancel
  -- values are parametric in the model: a falsy result / a falsy exception object (`__bool__` False)
  -- is just a result / an exception of that class
  | "fval" => some .val | "fexc" => some .exc | "fbase" => some .baseExc
  | "xval" => some .val | "cval" => some .val     -- an exception instance / a CancelledError instance *returned* as the value
  | _ => none

def field (toks : List String) (key : String) : Option String :=
  (toks.find? (·.startsWith (key ++ "="))).map (fun t => (t.drop (key.length + 1)).toString)

def insertEv (t : Nat) (e : Ext) : List (Nat × List Ext) → List (Nat × List Ext)
  | [] => [(t, [e])]
  | (u, es) :: rest =>
    if t < u then (t, [e]) :: (u, es) :: rest
    else if t = u then (u, es ++ [e]) :: rest
    else (u, es) :: insertEv t e rest

def runSingle (line : String) : String :=
  let toks := Driver.words line
  match field toks "d" >>= String.toNat?, field toks "k" >>= parseKind, field toks "ig",
        field toks "D" >>= String.toNat?, field toks "c" with
  | some d, some k, some ig, some dl, some c =>
    let evs := insertEv d .fin (insertEv dl .timer [])
    -- `c=<t>+<k>`: the cancellation is placed k loop iterations into instant t; the model does not
    -- count iterations, it admits every position among that instant's labels
    let cInstant := match c.splitOn "+" with
      | [a] => a
      | [a, k] => if k.toNat?.isSome then a else "bad"
      | _ => "bad"
    let evs? : Option (List (Nat × List Ext)) :=
      if c = "-" then some evs else (cInstant.toNat?).map (fun t => insertEv t .cancel evs)
    match evs?, (if ig = "1" then some true else if ig = "0" then some false else none) with
    | some evs, some igb =>
      let d0 : D := { s := init k igb }
      let res := match evs with
        | (0, es) :: rest => explore 200 d0 0 es rest
        | _ => explore 200 d0 0 [] evs
      -- a cancellation at the very instant of the call may also reach the caller before the
      -- wrapper has created anything: the function then never runs
      let res := if cInstant = "0" then
          ("out=cancelled@0 at=unstarted end=unstarted seen=0 pend=0 handler=0 tm=0 acc=1" :: res).eraseDups
        else res
      let sorted := (res.toArray.qsort (· < ·)).toList
      match sorted with
      | [one] => one
      | many => "ALT " ++ " || ".intercalate many
    | _, _ => "bad-case"
  | _, _, _, _, _ => "bad-case"

/-- `multi D=<n> / s=<start> d= k= ig= c= / s=… …`: several overlapping calls through ONE wrapper.
The wrapper keeps no state between calls (every call has its own future, task, timer and
callbacks), so the system is the product of independent copies of the single-call LTS
(`Haiway.C16.calls_independent`): each call is predicted on its own, instants relative to its start. -/
def runCase (line : String) : String :=
  match Driver.words line with
  | "multi" :: _ =>
    match line.splitOn " / " with
    | hd :: calls =>
      match field (Driver.words hd) "D" with
      | some dl =>
        if calls.isEmpty then "bad-case" else
        " / ".intercalate (calls.map (fun c =>
          let toks := Driver.words c
          match field toks "s" >>= String.toNat?, field toks "c" with
          | some _, some cf => if cf.contains '+' then "bad-case" else runSingle s!"{c} D={dl}"
          | _, _ => "bad-case"))
      | none => "bad-case"
    | [] => "bad-case"
  | _ => runSingle line

end Driver.Timeout
