import Driver.Common
import Driver.StateVal
/-! `hwmodel validate` (C05): one class and one constructor call per line.
in : `(sub (c d)*) (names (n c)*) (bounds (n c)*) (aliases (n (p*) ty)*) (specs (c id ty*)*)
      (class id (tp (n ty)*) (attrs (name ty default|-)*)) (kwargs (name val)*)`
out: `ok (name val)*`  |  `err <exception class>`  |  `classerr <why>` -/
namespace Driver.Validate
open Driver Driver.StateVal Haiway.Validate Haiway.StateObj

def runCase (line : String) : String :=
  match Sexp.parseLine line with
  | none => "bad-syntax"
  | some top =>
    match decodeHeader top with
    | none => "bad-header"
    | some h =>
      match (Sexp.field "class" top).bind (decodeClass h), (Sexp.field "kwargs" top).bind decodeFields with
      | some (.failed why), _ => s!"classerr {why}"
      | some (.ok cd), some kwargs =>
        match initFields h.env kwargs cd.attrs with
        | .ok fs => ("ok " ++ showFields fs).trimAsciiEnd.toString
        | .error (_, e) => s!"err {showErr e}"
      | _, _ => "bad-case"

end Driver.Validate
