import Haiway.Model.Wrap
import Driver.Common
/-! `hwmodel wrap`: one call per line, `key=value` tokens (see harness/comp_wrap.py); the harness adds
`dout=` / `dbind=`: what the *undecorated* function returned / raised and how it saw its arguments when called
directly with the same arguments – the model routes them through the wrapper.
out: `<out>|<bind>|<seen>|<after>|<where>|<records>|<meta>|<recv>` -/
namespace Driver.Wrap
open Haiway.Wrap

def field (toks : List String) (key dflt : String) : String :=
  match toks.find? (fun t => t.startsWith (key ++ "=")) with
  | some t => (t.drop (key.length + 1)).toString
  | none => dflt

def num (s : String) : Nat := s.toNat?.getD 0

def parseSite (s : String) : List (Char × Nat) :=
  if s = "-" then [] else
  (s.splitOn ".").filterMap (fun t => match t.toList with
    | k :: rest => some (k, num (String.ofList rest))
    | [] => none)

def showVal (t : String) : String := if t = "t" then "(i1,i2)" else t

def showState : Option Nat → String
  | none => "MC"
  | some 0 => "dflt"
  | some v => toString v

/-- node names: 99 root, 98 the function, 100 + i the i-th call-site block -/
def showLabel (fname : String) (w : World) : Option Nat → String
  | none => "-"
  | some n => match w.nodes[n]? with
    | none => "?"
    | some nd => if nd.name = 99 then "root" else if nd.name = 98 then fname else s!"c{nd.name - 100}"

def showFP (fname : String) (w : World) (c : Ctx) : String := s!"{showState c.state}/{showLabel fname w c.scope}"

def metricsOf (recs : List Rec) : List Nat := recs.filterMap (fun r => match r with
  | .metric k => some k
  | _ => none)

def children (w : World) (n : Nat) : List Nat :=
  (List.range w.nodes.length).filter (fun i => match w.nodes[i]? with
    | some nd => nd.parent == some n
    | none => false)

def mergedMetrics : Nat → World → Nat → List Nat
  | 0, _, _ => []
  | fuel + 1, w, n => (match w.nodes[n]? with
      | some nd => metricsOf nd.recs
      | none => []) ++ (children w n).flatMap (mergedMetrics fuel w)

def showNats (l : List Nat) : String := ".".intercalate (l.map toString)

/-- class names of the exceptions the loop treats specially ↔ model class tokens -/
def clsOfName (n : String) : Nat :=
  if n = "concurrent.CancelledError" then cfCancelled
  else if n = "asyncio.CancelledError" then aioCancelled
  else if n = "TimeoutError" then timeoutError
  else if n = "concurrent.InvalidStateError" then cfInvalidState
  else if n = "asyncio.InvalidStateError" then aioInvalidState
  else 1

def nameOfCls (orig : String) (c : Nat) : String :=
  if c = aioCancelled then "asyncio.CancelledError"
  else if c = aioInvalidState then "asyncio.InvalidStateError"
  else orig

/-- the outcome token `e:<Class>:<message>:<same>` / `r:<value>:<same>` after the model's call -/
def showOutcome (dout : String) (o : Outcome) : String :=
  match o, dout.splitOn ":" with
  | .raise e, "e" :: cls :: msg :: same :: _ =>
    s!"e:{nameOfCls cls e.cls}:{msg}:{if e.obj = 0 then (if same = "-" then "-" else "0") else same}"
  | _, _ => dout

def runCase (line : String) : String :=
  let toks := Driver.words line
  let deco := field toks "deco" "asyn"
  let form := field toks "form" "fn"
  let root := field toks "root" "1"
  let site := parseSite (field toks "site" "-")
  let pos := field toks "pos" "-"
  let kw := field toks "kw" "-"
  let leak := num (field toks "leak" "0")
  let rec_ := num (field toks "rec" "0")
  let block := field toks "block" "0"
  let nest := field toks "nest" "0"
  let dout := field toks "dout" "?"
  let dbind := field toks "dbind" "-"
  let fname := if form = "fn" then "f" else "m"
  let decoOf := fun (t : String) =>
    if t.startsWith "m_cache" then Deco.cache else if t.startsWith "m_retry" then .retry
    else if t.startsWith "m_throttle" then .throttle else if t.startsWith "m_timeout" then .timeout
    else if t.startsWith "traced" then .traced else if t.startsWith "wasync" then .wrapAsync else .asynchronous
  if deco.startsWith "m2:" then
    -- two decorators on top of each other (`m2:<outer>:<inner>`): metadata of the outer object, and the `__wrapped__` chain
    match deco.splitOn ":" with
    | [_, outer, inner] =>
      let f : Fn := { id := 7, name := 98, doc := if field toks "doc" "1" = "1" then some 1 else none,
                      run := unbound (.ret 0) }
      let g := stackFn [(decoOf outer, 9), (decoOf inner, 8)] f
      let mOuter := decorate (decoOf outer) (stackFn [(decoOf inner, 8)] f)
      let mInner := decorate (decoOf inner) f
      let bits := (if g.name = f.name then "1" else "0") ++ (if g.doc = f.doc then "1" else "0")
        ++ (if mOuter.wrapped = 8 && mInner.wrapped = f.id then "1" else "0")
      s!"-|-|-|-|-|-|{bits}|-"
    | _ => "bad-case"
  else
  let isMeta := deco.startsWith "m_"
  if isMeta then
    -- metadata only: the decorated object, and for methods also what attribute access on the instance returns
    let d : Deco := if deco.startsWith "m_cache" then .cache else if deco.startsWith "m_retry" then .retry
      else if deco.startsWith "m_throttle" then .throttle else .timeout
    let f : Fn := { id := 7, name := 98, doc := if field toks "doc" "1" = "1" then some 1 else none,
                    run := unbound (.ret 0) }
    let m := decorate d f
    let bits := (if m.name = f.name then "1" else "0") ++ (if m.doc = f.doc then "1" else "0")
      ++ (if m.wrapped = f.id then "1" else "0")
    s!"-|-|-|-|-|-|{bits}{if form = "fn" then "" else bits}|-"
  else
  let ran := dbind ≠ "-"
  let outcome : Outcome := match dout.splitOn ":" with
    | "e" :: cls :: _ => .raise { cls := clsOfName cls, obj := 1 }
    | _ => .ret 1
  let doc := if field toks "doc" "1" = "1" then some 1 else none
  -- receivers of the successive calls (form=meth): a 1, c 2, b 3, s 4; functions: one call, receiver 0
  let recvToks := if form = "meth" then (field toks "recv" "a").splitOn "," else if form = "cls" then ["a"] else ["-"]
  let recvId := fun (t : String) => if t = "a" then 1 else if t = "c" then 2 else if t = "b" then 3 else if t = "s" then 4
    else if t = "e" then 5 else 0
  let recvName := fun (n : Nat) => if n = 1 then "a" else if n = 2 then "c" else if n = 3 then "b" else if n = 4 then "s"
    else if n = 5 then "e" else "?"
  let spawn := field toks "spawn" "0" = "1"
  let m : Method := if ran then
      (if spawn then fun recv => { scriptedMethod 7 98 doc outcome leak rec_ recv with
                                   run := spawning (scriptedMethod 7 98 doc outcome leak rec_ recv).run }
       else scriptedMethod 7 98 doc outcome leak rec_)
    else fun _ => { id := 7, name := 98, doc := doc, run := unbound outcome }
  let c0 : Ctx := if root = "1" then { state := some 0, scope := some 0, other := 1 } else {}
  let w0 : World := if root = "1" then { nodes := [{ name := 99, parent := none }] } else {}
  let cw := enterSite (site.map (fun p => ((if p.1 = 'u' then 1 else if p.1 = 'a' then 2 else 0), p.2))) 0 c0 w0
  let isAsyn := deco.startsWith "asyn"
  let isTraced := deco.startsWith "traced"
  let calls := recvToks.map (fun t => (recvId t, 0))
  -- cancel=1: the harness runs the call as a task of its own (to cancel it while suspended): a task works on a copy
  -- of its creator's context, so whatever the call does to the context stays in that task
  let inTask := fun (call : Fn → Nat → Ctx → World → Outcome × Ctx × World) =>
    if field toks "cancel" "0" = "1" then (fun f a c w => ((call f a c w).1, c, (call f a c w).2.2)) else call
  let rs := if isAsyn then callSeq (inTask callAsynchronous) m calls cw.1 cw.2
    else if isTraced then callSeq (inTask callTraced) m calls cw.1 cw.2
    else callSeq (inTask callWrapAsync) m calls cw.1 cw.2
  let r : Outcome × Ctx × World := (rs.1.getLast?.getD outcome, rs.2.1, rs.2.2)
  let w := r.2.2
  let seen := match w.seen.getLast? with
    | some c => showFP fname w c
    | none => "-"
  let after := showFP fname w r.2.1
  -- a spawned task is still pending when the call returns and is awaited by the caller's innermost async scope iff it
  -- joined the caller's task group
  let spawnOut := if !spawn then "" else
    if w.spawns.all (· == cw.1.other) then ";pending;joined" else ";blocked;joined"
  let where_ := if !ran then "-" else (if isAsyn then "other" else "loop") ++ (if block = "1" then ",beat" else "") ++
    (if nest = "1" && isAsyn then "+other" else "") ++ spawnOut
  let posToks := (if form = "fn" then [] else ["self"]) ++ (if pos = "-" then [] else (pos.splitOn ",").map showVal)
  let posRepr := if posToks.isEmpty then "-" else "(" ++ ",".intercalate posToks ++ ")"
  let kwRepr := if kw = "-" then "-" else
    "{" ++ ",".intercalate ((kw.splitOn ",").map (fun kv => match kv.splitOn ":" with
      | [k, v] => k ++ ":" ++ showVal v
      | _ => kv)) ++ "}"
  let aRepr := if isTraced then posRepr ++ ";" ++ kwRepr else "-"
  let rRepr := if !isTraced then "-" else
    match dout.splitOn ":" with
    | "r" :: v :: _ => "r:" ++ v
    | "e" :: cls :: _ => "e:" ++ cls
    | _ => "?"
  let lastScope := (site.zipIdx.filter (fun p => p.1.1 ≠ 'u')).getLast?
  let own := match lastScope with
    | none => "-"
    | some p => match w.nodes.find? (fun (nd : Node) => nd.name == 100 + p.2) with
      | some nd => showNats (metricsOf nd.recs)
      | none => "-"
  let records := if root = "1" then s!"A={aRepr}~R={rRepr}~M={showNats (mergedMetrics w.nodes.length w 0)}~own={own}" else "-"
  let recvOut := if form = "fn" then "-"
    else ",".intercalate (w.recvs.map recvName)
      ++ s!";ovr={(recvToks.filter (· = "s")).length}"
  s!"{showOutcome dout r.1}|{dbind}|{seen}|{after}|{where_}|{records}|111|{recvOut}"

end Driver.Wrap
