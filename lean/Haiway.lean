-- Root of the `Haiway` library: models, helper proofs, property theorems.
import Haiway.Props.C17
import Haiway.Props.C01
import Haiway.Props.C03
import Haiway.Props.C12
import Haiway.Props.C14
import Haiway.Props.C15
import Haiway.Props.C16
import Haiway.Props.C08
import Haiway.Props.C09
import Haiway.Props.C02
import Haiway.Props.C13
