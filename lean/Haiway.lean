-- Root of the `Haiway` library: models, helper proofs, property theorems.
import Haiway.Props.C17
