import Haiway.Model.MiniPy
import Haiway.Model.Completion
/-! Bridge for the re-parenting loop of `ScopeMetrics.__init__` (C09; the repair 41e60be), regenerated from /repo's
    `context/metrics.py`: `while parent is not None and parent._completed.done(): parent = parent._parent`.
    The translator hands over one iteration (`<body> if <test> else break`); `AdoptStep` is discharged by evaluating the
    interpreter on it, `adopt_of_step` (committed, by induction on the fuel) gives: run on **any** completion state and any
    lexical parent, the loop ends with `parent` = exactly what `Completion.adopter` chooses – the nearest ancestor whose
    completion future is not resolved, `None` when there is none – having looked only at the ancestors on the way. -/
namespace Haiway.Bridge.Adopt
open Haiway.MiniPy Haiway

structure W where
  completed : Nat → Bool            -- `<scope>._completed.done()`
  parent : Nat → Option Nat         -- `<scope>._parent`
  finished : Nat → Bool := fun _ => false   -- `<scope>._finished` (left, perhaps still waiting for nested scopes): not what the loop may look at

def optV : Option Nat → Val
  | none => .none
  | some k => .obj k

/-- externals: 240 `<scope>._completed.done()`  241 `<scope>._parent`  242 `<scope>._finished` -/
def ext : World W := fun f args w fl =>
  (fun (r : Option ((Val ⊕ Val) × W)) => r.map fun (x, w') => (x, w', fl)) <|
  match f, args with
  | 240, [.obj k] => some (.inl (.bool (w.completed k)), w)
  | 241, [.obj k] => some (.inl (optV (w.parent k)), w)
  | 242, [.obj k] => some (.inl (.bool (w.finished k)), w)
  | _, _ => none

/-- one iteration (the `parent` parameter is local `lp`) -/
def AdoptStep (step : Stmt) (lp : Nat) : Prop :=
  ∀ (p : Option Nat) (st : St W), st.loc lp = optV p →
    exec ext step st =
      (match p with
       | none => (.brk, st)
       | some q => if st.world.completed q then (.normal, { st with loc := upd st.loc lp (optV (st.world.parent q)) })
                   else (.brk, st))

/-- the whole loop refines `Completion.adopter` -/
def AdoptRefines (step : Stmt) (lp : Nat) : Prop :=
  ∀ (cs : Completion.Sys) (fuel : Nat) (p a : Option Nat) (st : St W),
    st.world.completed = cs.completed → st.world.parent = cs.parent → st.loc lp = optV p → Completion.adopter cs fuel p = some a →
    ∃ st', iter (exec ext step) (fuel + 1) st = (.normal, st') ∧ st'.loc lp = optV a ∧ st'.world = st.world ∧
      st'.fld = st.fld ∧ ∀ i, i ≠ lp → st'.loc i = st.loc i

theorem adopt_of_step {step : Stmt} {lp : Nat} (h : AdoptStep step lp) : AdoptRefines step lp := by
  intro cs fuel
  induction fuel with
  | zero =>
    intro p a st hcw hpw hp ha
    cases p with
    | none =>
      refine ⟨st, ?_, ?_, rfl, rfl, fun _ _ => rfl⟩
      · simp only [iter, h none st hp]
      · simp only [Completion.adopter, Option.some.injEq] at ha; rw [← ha]; exact hp
    | some q => simp [Completion.adopter] at ha
  | succ n ih =>
    intro p a st hcw hpw hp ha
    cases p with
    | none =>
      refine ⟨st, ?_, ?_, rfl, rfl, fun _ _ => rfl⟩
      · simp only [iter, h none st hp]
      · simp only [Completion.adopter, Option.some.injEq] at ha; rw [← ha]; exact hp
    | some q =>
      have hs := h (some q) st hp
      simp only [hcw, hpw] at hs
      simp only [Completion.adopter] at ha
      by_cases hc : cs.completed q = true
      · simp only [hc, ↓reduceIte] at hs ha
        obtain ⟨st', hrun, hl, hw', hf', ho'⟩ :=
          ih (cs.parent q) a { st with loc := upd st.loc lp (optV (cs.parent q)) } hcw hpw (by simp [upd]) ha
        refine ⟨st', ?_, hl, hw', hf', ?_⟩
        · rw [iter, hs]; simp only; exact hrun
        · intro i hi; rw [ho' i hi]; simp [upd, hi]
      · have hc' : cs.completed q = false := by simpa using hc
        simp only [hc', Bool.false_eq_true, ↓reduceIte, Option.some.injEq] at hs ha
        refine ⟨st, ?_, ?_, rfl, rfl, fun _ _ => rfl⟩
        · rw [iter, hs]
        · rw [← ha]; exact hp

macro "adopt_eval" : tactic => `(tactic|
  (simp (config := { decide := true }) [exec, exec.execH, eval, builtin, ext, upd, Val.same, Val.truthy, optV, *]))

/-- not vacuous: the lexical parent 2 and its parent 1 have completed, 0 is still open -/
example : Completion.adopter { completed := fun n => n ≥ 1, parent := fun n => if n = 0 then none else some (n - 1) } 5 (some 2)
    = some (some 0) := by decide

end Haiway.Bridge.Adopt
