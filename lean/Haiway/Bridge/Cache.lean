import Haiway.Model.MiniPy
import Haiway.Model.Cache
/-! Bridge between the regenerated `MiniPy` terms of `_SyncCache.__call__` / `__method_call__` (translated from /repo's
    `helpers/caching.py` on every run) and `Cache.call` of C12: run on the concrete image of a model table (an insertion-ordered
    dict `key ↦ (value, expire)`), with the key the call computed, the clock, and what the wrapped function would do as
    parameters, the method ends in the image of `Cache.call`'s table with its answer:

    * an unexpired entry is served – **that** entry's value, the function is not invoked – and becomes the most recent;
    * an entry past its expiry (`expire` truthy and `< now`; an entry *at* its expiry instant is still served) is dropped and the
      call continues as a miss;
    * a miss invokes the function exactly once; a raising call stores nothing and propagates that exception; a value is
      stored under the key with the stamp `_next_expire_time()` gave, as the most recent entry, and when the table then holds
      more than `limit` entries the **oldest** one goes. -/
namespace Haiway.Bridge.Cache
open Haiway.MiniPy Haiway

structure W where
  key : Nat                 -- `_make_key(...)` (the typed key; what it is made of is the correspondence's subject)
  now : Nat                 -- `monotonic()`
  ok : Bool                 -- what the wrapped function does if it is invoked now
  stamp : Option Nat        -- `self._next_expire_time()`
  nextInv : Nat             -- invocations so far
  calls : Nat := 0

/-- the value produced by invocation `n` (the harness tags values the same way) -/
def valOf (n : Nat) : Val := .obj (1000 + n)
def excOf (n : Nat) : Val := .exc cUserError n

def expV : Option Nat → Val
  | none => .none
  | some x => .int x

/-- what is stored for an entry: the value itself (sync cache) or the task (async cache) -/
inductive Kind where | sync | async
deriving DecidableEq

/-- a task, as far as the cache is concerned: an object that is awaited; it carries the invocation it runs and how that ends -/
def taskV (inv : Nat) (ok : Bool) : Val := .list [.int inv, .bool ok]

def stored (kd : Kind) (e : Cache.Entry Nat) : Val :=
  match kd with
  | .sync => valOf e.inv
  | .async => taskV e.inv e.ok

def entryV (kd : Kind) (e : Cache.Entry Nat) : Val := .list [stored kd e, expV e.expire]

def imgL (kd : Kind) (t : List (Cache.Entry Nat)) : List (Val × Val) := t.map fun e => (.int e.key, entryV kd e)

/-- externals: 180 `self._function(*args, **kwargs)`  181 `self._next_expire_time()`  182 `_make_key(…)`  183 `monotonic()`;
async cache: 190 `self._function(…)` (makes the coroutine, nothing runs yet)  184 `loop.create_task(coro)` (the invocation)
185 `await shield(task)`  187 `get_running_loop()` -/
def ext : World W := fun f args w fl =>
  (fun (r : Option ((Val ⊕ Val) × W)) => r.map fun (x, w') => (x, w', fl)) <|
  match f, args with
  | 180, _ => some (if w.ok then .inl (valOf w.nextInv) else .inr (excOf w.nextInv), { w with calls := w.calls + 1 })
  | 181, [] => some (.inl (expV w.stamp), w)
  | 182, _ => some (.inl (.int w.key), w)
  | 183, [] => some (.inl (.int w.now), w)
  | 190, _ => some (.inl (.obj 1), w)
  | 184, [_, .obj 1] => some (.inl (taskV w.nextInv w.ok), { w with calls := w.calls + 1 })
  | 185, [.list [.int n, .bool b]] => some (if b then .inl (valOf n.toNat) else .inr (excOf n.toNat), w)
  | 187, [] => some (.inl (.obj 2), w)
  | _, _ => none

def outOf (r : Cache.Res) : Out := if r.returned then .ret (valOf r.producer) else .exc (excOf r.producer)

/-- **one call through the synchronous cache** (fields: 1 `_cached`, 2 `_limit`) -/
def CallRefines (p : Stmt) : Prop :=
  ∀ (limit : Nat) (expiration : Option Nat) (s : Cache.St Nat) (k : Nat) (ok : Bool) (args : Nat → Val),
    (∀ e ∈ s.table, e.ok = true) →
    let cfg : Cache.Cfg := { limit := limit, expiration := expiration, storeFailure := false }
    let w : W := { key := k, now := s.now, ok := ok, stamp := Cache.stamp cfg s.now, nextInv := s.log.length }
    let st : St W := { loc := args, fld := fun i => if i = 1 then .dict (imgL .sync s.table) else if i = 2 then .int limit else .none, world := w }
    let r := runMethod ext p st
    let m := Cache.call cfg s k ok
    r.1 = outOf m.2 ∧ r.2.fld 1 = .dict (imgL .sync m.1.table) ∧ r.2.world.calls = (if m.2.invoked then 1 else 0)

/-- **one call through the asynchronous cache**, as far as the table goes: the *task* is what is stored (also one that will
fail), a hit awaits the stored task, a miss creates exactly one task -/
def AsyncCallRefines (p : Stmt) : Prop :=
  ∀ (limit : Nat) (expiration : Option Nat) (s : Cache.St Nat) (k : Nat) (ok : Bool) (args : Nat → Val),
    let cfg : Cache.Cfg := { limit := limit, expiration := expiration, storeFailure := true }
    let w : W := { key := k, now := s.now, ok := ok, stamp := Cache.stamp cfg s.now, nextInv := s.log.length }
    let st : St W := { loc := args, fld := fun i => if i = 1 then .dict (imgL .async s.table) else if i = 2 then .int limit else .none, world := w }
    let r := runMethod ext p st
    let m := Cache.call cfg s k ok
    r.1 = outOf m.2 ∧ r.2.fld 1 = .dict (imgL .async m.1.table) ∧ r.2.world.calls = (if m.2.invoked then 1 else 0)

/-! ### the image of the table operations -/

@[simp] theorem assocGet_imgL (kd : Kind) (t : List (Cache.Entry Nat)) (k : Nat) :
    assocGet (imgL kd t) (.int k) = (Cache.find t k).map (entryV kd) := by
  induction t with
  | nil => rfl
  | cons e t ih =>
    by_cases h : e.key = k
    · simp [imgL, assocGet, Cache.find, Val.same, h]
    · have h' : ¬ ((e.key : Int) = (k : Int)) := by omega
      simp only [imgL, List.map_cons, assocGet, Val.same, beq_iff_eq, h', ↓reduceIte, Cache.find, List.find?_cons, h,
        decide_false] at ih ⊢
      simpa [imgL, Cache.find] using ih

@[simp] theorem assocDel_imgL (kd : Kind) (t : List (Cache.Entry Nat)) (k : Nat) :
    assocDel (imgL kd t) (.int k) = imgL kd (Cache.erase t k) := by
  induction t with
  | nil => rfl
  | cons e t ih =>
    by_cases h : e.key = k
    · simp [imgL, assocDel, Cache.erase, Val.same, h] at ih ⊢
      exact ih
    · have h' : ¬ ((e.key : Int) = (k : Int)) := by omega
      simp [imgL, assocDel, Cache.erase, Val.same, h, h'] at ih ⊢
      exact ih

theorem assocSet_imgL_absent (kd : Kind) (t : List (Cache.Entry Nat)) (k : Nat) (v : Val) (h : Cache.find t k = none) :
    assocSet (imgL kd t) (.int k) v = imgL kd t ++ [(.int k, v)] := by
  induction t with
  | nil => rfl
  | cons e t ih =>
    have hk : e.key ≠ k := by
      intro hk; simp [Cache.find, hk] at h
    have h' : ¬ ((e.key : Int) = (k : Int)) := by omega
    have ht : Cache.find t k = none := by simpa [Cache.find, hk] using h
    simp [imgL, assocSet, Val.same, h'] at ih ⊢
    exact ih ht

theorem find_erase (t : List (Cache.Entry Nat)) (k : Nat) : Cache.find (Cache.erase t k) k = none := by
  simp [Cache.find, Cache.erase]

@[simp] theorem imgL_nil (kd : Kind) : imgL kd [] = [] := rfl
@[simp] theorem imgL_cons (kd : Kind) (e : Cache.Entry Nat) (t : List (Cache.Entry Nat)) :
    imgL kd (e :: t) = (.int e.key, entryV kd e) :: imgL kd t := rfl

@[simp] theorem imgL_length (kd : Kind) (t : List (Cache.Entry Nat)) : (imgL kd t).length = t.length := by simp [imgL]

@[simp] theorem imgL_append (kd : Kind) (a b : List (Cache.Entry Nat)) : imgL kd (a ++ b) = imgL kd a ++ imgL kd b := by
  simp [imgL]

@[simp] theorem imgL_tail (kd : Kind) (a : List (Cache.Entry Nat)) : imgL kd a.tail = (imgL kd a).tail := by simp [imgL]

macro "cache_eval" : tactic => `(tactic|
  (simp (config := { decide := true }) [runMethod, exec, exec.execH, eval, builtin, ext, upd, Val.same, Val.truthy, excClass,
     cmpInt, entryV, stored, taskV, expV, valOf, excOf, outOf, Cache.call, Cache.miss, Cache.expired, Cache.Res.invoked,
     Cache.Res.returned, Cache.Res.producer, *]))

end Haiway.Bridge.Cache
