import Haiway.Bridge.Cache
import Haiway.Props.C12
/-! C12's theorems, stated of the **regenerated cache methods themselves**: a `MiniPy` term that satisfies `CallRefines` (sync) or
    `AsyncCallRefines` (async) – the terms translated from /repo's `caching.py` are re-checked to on every run – is run by the
    interpreter over a whole **history** of calls and clock advances, each call on the table the previous one left; the table, the
    answers and the number of invocations are those of `Cache.run`, so what C12 proves of every history holds of the term. -/
namespace Haiway.Bridge.Cache
open Haiway.MiniPy Haiway

/-- the concrete cache between calls: the `_cached` dict, the clock, the invocations so far -/
structure C where
  table : Val
  now : Nat
  inv : Nat

def callC (p : Stmt) (cfg : Cache.Cfg) (c : C) (k : Nat) (ok : Bool) : Out × St W :=
  runMethod ext p { loc := fun _ => .none,
                    fld := fun i => if i = 1 then c.table else if i = 2 then .int cfg.limit else .none,
                    world := { key := k, now := c.now, ok := ok, stamp := Cache.stamp cfg c.now, nextInv := c.inv } }

/-- one operation of a history on the concrete cache: the new cache and what the caller got (`none` for a clock advance) -/
def stepC (p : Stmt) (cfg : Cache.Cfg) (c : C) : Cache.Op Nat → C × Option Out
  | .adv d => ({ c with now := c.now + d }, none)
  | .call k ok =>
    let r := callC p cfg c k ok
    ({ table := r.2.fld 1, now := c.now, inv := c.inv + r.2.world.calls }, some r.1)

def runC (p : Stmt) (cfg : Cache.Cfg) : C → List (Cache.Op Nat) → C × List Out
  | c, [] => (c, [])
  | c, op :: ops =>
    let r := stepC p cfg c op
    let rest := runC p cfg r.1 ops
    (rest.1, (match r.2 with | some o => [o] | none => []) ++ rest.2)

def imageC (kd : Kind) (s : Cache.St Nat) : C := { table := .dict (imgL kd s.table), now := s.now, inv := s.log.length }

theorem log_length_call (cfg : Cache.Cfg) (s : Cache.St Nat) (k : Nat) (ok : Bool) :
    (Cache.call cfg s k ok).1.log.length = s.log.length + (if (Cache.call cfg s k ok).2.invoked then 1 else 0) := by
  have h := C12.invocations cfg s k ok
  cases hr : (Cache.call cfg s k ok).2 with
  | hit n okv => simp [h.1 n okv hr, Cache.Res.invoked]
  | computed n okv => simp [(h.2 n okv hr).2.2, Cache.Res.invoked]

theorem now_call (cfg : Cache.Cfg) (s : Cache.St Nat) (k : Nat) (ok : Bool) : (Cache.call cfg s k ok).1.now = s.now := by
  unfold Cache.call Cache.miss
  split <;> (try split) <;> (try split) <;> (try split) <;> rfl

/-- the step the two refinement obligations have in common, under the invariant they need -/
def StepRefines (kd : Kind) (sf : Bool) (p : Stmt) : Prop :=
  ∀ (limit : Nat) (expiration : Option Nat) (s : Cache.St Nat) (k : Nat) (ok : Bool),
    (sf = false → ∀ e ∈ s.table, e.ok = true) →
    let cfg : Cache.Cfg := { limit := limit, expiration := expiration, storeFailure := sf }
    let r := callC p cfg (imageC kd s) k ok
    let m := Cache.call cfg s k ok
    r.1 = outOf m.2 ∧ r.2.fld 1 = .dict (imgL kd m.1.table) ∧ r.2.world.calls = (if m.2.invoked then 1 else 0)

theorem stepRefines_sync {p : Stmt} (h : CallRefines p) : StepRefines .sync false p := by
  intro limit expiration s k ok hok
  exact h limit expiration s k ok (fun _ => .none) (hok rfl)

theorem stepRefines_async {p : Stmt} (h : AsyncCallRefines p) : StepRefines .async true p := by
  intro limit expiration s k ok _
  exact h limit expiration s k ok (fun _ => .none)

/-- **the whole history**: from a well-formed model state on, the term and the model go in lock step -/
theorem history_refines {kd : Kind} {sf : Bool} {p : Stmt} (h : StepRefines kd sf p) (limit : Nat) (expiration : Option Nat) :
    let cfg : Cache.Cfg := { limit := limit, expiration := expiration, storeFailure := sf }
    ∀ (ops : List (Cache.Op Nat)) (s : Cache.St Nat), Cache.Wf cfg s →
      (runC p cfg (imageC kd s) ops).1 = imageC kd (Cache.run cfg s ops) ∧
      (runC p cfg (imageC kd s) ops).2 = (Cache.outs cfg s ops).map outOf := by
  intro cfg ops
  induction ops with
  | nil => intro s _; simp [runC, Cache.run, Cache.outs]
  | cons op ops ih =>
    intro s hwf
    have hwf' := Cache.step_wf cfg s op hwf
    cases op with
    | adv d =>
      have := ih (Cache.step cfg s (.adv d)) hwf'
      simp only [runC, stepC, Cache.run, List.foldl_cons, Cache.outs] at this ⊢
      simpa [imageC, Cache.step] using this
    | call k ok =>
      have hok : sf = false → ∀ e ∈ s.table, e.ok = true := by
        intro hsf e he
        rcases (hwf.entries e he).stored with h1 | h1
        · exact h1
        · simp [cfg, hsf] at h1
      obtain ⟨h1, h2, h3⟩ := h limit expiration s k ok hok
      have hstep : (stepC p cfg (imageC kd s) (.call k ok)).1 = imageC kd (Cache.call cfg s k ok).1 := by
        simp only [stepC]
        rw [h2, h3]
        simp only [imageC]
        rw [log_length_call, now_call]
      have := ih (Cache.call cfg s k ok).1 (by simpa [Cache.step] using hwf')
      simp only [runC, Cache.run, List.foldl_cons, Cache.outs, Cache.step] at this ⊢
      rw [hstep]
      refine ⟨this.1, ?_⟩
      simp only [stepC]
      rw [h1, this.2]
      simp
      rfl

/-- what C12 says of every history, said of the term -/
structure HistoryProps (kd : Kind) (sf : Bool) (p : Stmt) : Prop where
  /-- the table after any history, started empty, is the image of the model's; the answers are the model's -/
  lockstep : ∀ limit expiration ops,
    let cfg : Cache.Cfg := { limit := limit, expiration := expiration, storeFailure := sf }
    (runC p cfg (imageC kd {}) ops).1 = imageC kd (C12.after cfg ops) ∧
    (runC p cfg (imageC kd {}) ops).2 = (Cache.outs cfg {} ops).map outOf
  /-- never more than `limit` entries, no key twice -/
  capacity : ∀ limit expiration ops,
    let cfg : Cache.Cfg := { limit := limit, expiration := expiration, storeFailure := sf }
    ∃ t : List (Cache.Entry Nat), (runC p cfg (imageC kd {}) ops).1.table = .dict (imgL kd t) ∧ t.length ≤ limit ∧
      (Cache.keys t).Nodup
  /-- the function is invoked exactly as often as the model says: once per miss, never on a hit -/
  invocations : ∀ limit expiration ops,
    let cfg : Cache.Cfg := { limit := limit, expiration := expiration, storeFailure := sf }
    (runC p cfg (imageC kd {}) ops).1.inv = (C12.after cfg ops).log.length

theorem historyProps_of_step {kd : Kind} {sf : Bool} {p : Stmt} (h : StepRefines kd sf p) : HistoryProps kd sf p where
  lockstep := by
    intro limit expiration ops
    exact history_refines h limit expiration ops {} (Cache.init_wf _)
  capacity := by
    intro limit expiration ops cfg
    have hr := (history_refines h limit expiration ops {} (Cache.init_wf _)).1
    have hc := C12.capacity cfg ops
    refine ⟨(C12.after cfg ops).table, ?_, hc.1, hc.2⟩
    simp only [cfg] at hr ⊢
    rw [hr]; rfl
  invocations := by
    intro limit expiration ops cfg
    have hr := (history_refines h limit expiration ops {} (Cache.init_wf _)).1
    simp only [cfg] at hr ⊢
    rw [hr]; rfl

end Haiway.Bridge.Cache
