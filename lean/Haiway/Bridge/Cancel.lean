import Haiway.Model.MiniPy
/-! Bridge for `ctx.check_cancellation` and `ctx.cancel` (C07 "cancellation is never swallowed; the cancellation check reports
    it"), regenerated from /repo's `context/access.py`.
    * `check_cancellation()`: raises a `CancelledError` **exactly when** there is a current task whose count of cancellation
      requests is above zero (`cancelling() > 0` – the repair e80f18e; not `cancelled()`, which is false for a running task);
      it consumes nothing (no `uncancel`, no `cancel`), so a later check reports the same request again.
    * `cancel()`: asks for the cancellation of the current task **every time it is called** (`task.cancel()` once per call,
      whatever `cancelling()` is already – requests are counted, C07's `cancel_counts`), and outside a task raises `RuntimeError`. -/
namespace Haiway.Bridge.Cancel
open Haiway.MiniPy

inductive Ev where
  | asked (t : Nat)        -- `task.cancelling()`
  | cancel (t : Nat)       -- `task.cancel()`
  | other                  -- any other method of the task (`uncancel`, `cancelled`, …)

structure W where
  task : Option Nat                -- `current_task()`
  cancelling : Nat                 -- what `task.cancelling()` reports
  log : List Ev := []

/-- externals: 280 `current_task()`  281 `task.cancelling()`  282 `task.cancel()`  283 `task.cancelled()`  284 `task.uncancel()` -/
def ext : World W := fun f args w fl =>
  (fun (r : Option ((Val ⊕ Val) × W)) => r.map fun (x, w') => (x, w', fl)) <|
  match f, args with
  | 280, [] => some (.inl (match w.task with | some t => .obj t | none => .none), w)
  | 281, [.obj t] => some (.inl (.int w.cancelling), { w with log := w.log ++ [.asked t] })
  | 282, [.obj t] => some (.inl (.bool true), { w with log := w.log ++ [.cancel t] })
  | 283, [.obj _] => some (.inl (.bool false), { w with log := w.log ++ [.other] })   -- a running task is never `cancelled()`
  | 284, [.obj _] => some (.inl (.int (w.cancelling - 1)), { w with log := w.log ++ [.other] })
  | _, _ => none

def CheckReports (p : Stmt) : Prop :=
  ∀ (w : W) (loc fld : Nat → Val), w.log = [] →
    let r := runMethod ext p ({ loc := loc, fld := fld, world := w } : St W)
    (match w.task with
     | none => r.1 = .ret .none ∧ r.2.world.log = []
     | some t =>
       r.2.world.log = [.asked t] ∧
       (if w.cancelling > 0 then ∃ n, r.1 = .exc (.exc cCancelledError n) else r.1 = .ret .none))

def CancelAsks (p : Stmt) : Prop :=
  ∀ (w : W) (loc fld : Nat → Val), w.log = [] →
    let r := runMethod ext p ({ loc := loc, fld := fld, world := w } : St W)
    (match w.task with
     | none => (∃ n, r.1 = .exc (.exc cRuntimeError n)) ∧ r.2.world.log = []
     | some t => r.1 = .ret .none ∧ r.2.world.log = [.cancel t])

theorem pos_cast {n : Nat} (h : n > 0) : ((n : Int) > 0) = True := by
  have : (n : Int) > 0 := by omega
  simpa using this

macro "cancel_eval" : tactic => `(tactic|
  (simp (config := { decide := true }) [runMethod, exec, exec.execH, eval, builtin, ext, upd, Val.truthy, Val.same, cmpInt, *]))

end Haiway.Bridge.Cancel
