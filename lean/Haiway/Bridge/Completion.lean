import Haiway.Model.MiniPy
/-! Bridge between the regenerated `MiniPy` terms of `ScopeMetrics._complete_if_able` and `ScopeMetrics._finish` (translated from
    /repo's `context/metrics.py` on every run) and one level of `Completion.completeUp` / `Completion.finish` of C09:

    * `_complete_if_able` on a scope whose completion future is resolved trips the assertion and touches nothing;
    * otherwise, if the scope has not been left yet or some registered nested scope is not completed, it returns and touches nothing;
    * otherwise the future is resolved **exactly once**, with `monotonic() - _timestamp`, and only **then** the registered parent –
      if there is one – is asked to complete, exactly once;
    * `_finish` on a completed or already finished scope trips an assertion before anything is written; otherwise it marks the scope
      finished and performs exactly that one level.

    Whether the nested scopes are completed (`any(not nested.is_completed …)`) and what the parent does in turn are parameters: the
    walk up the chain is the model's recursion (`completeUp`), proved there. -/
namespace Haiway.Bridge.Completion
open Haiway.MiniPy

structure W where
  done : Bool                      -- `self._completed.done()`
  nestedOpen : Bool                -- `any(not nested.is_completed for nested in self._nested)`
  now : Nat
  results : List Int := []         -- values the completion future was resolved with
  parentCalls : List Val := []     -- receivers of `parent._complete_if_able()`
  order : List Nat := []           -- 0 = future resolved, 1 = parent asked

/-- externals: 220 `self._completed.done()`  221 `self._completed.set_result(x)`  222 `monotonic()`  223 the `any(...)` over the
nested scopes  225 `<parent>._complete_if_able()` -/
def ext : World W := fun f args w fl =>
  (fun (r : Option ((Val ⊕ Val) × W)) => r.map fun (x, w') => (x, w', fl)) <|
  match f, args with
  | 220, [] => some (.inl (.bool w.done), w)
  | 221, [.int x] => if w.done then none else some (.inl .none, { w with done := true, results := w.results ++ [x], order := w.order ++ [0] })
  | 222, [] => some (.inl (.int w.now), w)
  | 223, [] => some (.inl (.bool w.nestedOpen), w)
  | 225, [p] => some (.inl .none, { w with parentCalls := w.parentCalls ++ [p], order := w.order ++ [1] })
  | _, _ => none

def parentV : Option Nat → Val
  | none => .none
  | some p => .obj (7000 + p)

/-- fields: 1 `_finished`, 2 `_parent`, 3 `_timestamp` -/
def st (finished : Bool) (parent : Option Nat) (created : Nat) (args : Nat → Val) (w : W) : St W :=
  { loc := args, fld := fun i => if i = 1 then .bool finished else if i = 2 then parentV parent else if i = 3 then .int created else .none,
    world := w }

/-- what one level of completion does to the world, given that it is able -/
def completedWorld (w : W) (created : Nat) (parent : Option Nat) : W :=
  match parent with
  | none => { w with done := true, results := [(w.now : Int) - created], order := [0] }
  | some p => { w with done := true, results := [(w.now : Int) - created], order := [0, 1], parentCalls := [parentV (some p)] }

def CompleteIfAble (p : Stmt) : Prop :=
  ∀ (finished done nestedOpen : Bool) (now created : Nat) (parent : Option Nat) (args : Nat → Val),
    let w : W := { done := done, nestedOpen := nestedOpen, now := now }
    let r := runMethod ext p (st finished parent created args w)
    if done then (∃ n, r.1 = .exc (.exc cAssertionError n)) ∧ r.2.world = w
    else if finished && !nestedOpen then r.1 = .ret .none ∧ r.2.world = completedWorld w created parent ∧ r.2.fld 1 = .bool true
    else r.1 = .ret .none ∧ r.2.world = w ∧ r.2.fld 1 = .bool finished

def Finish (p : Stmt) : Prop :=
  ∀ (finished done nestedOpen : Bool) (now created : Nat) (parent : Option Nat) (args : Nat → Val),
    let w : W := { done := done, nestedOpen := nestedOpen, now := now }
    let r := runMethod ext p (st finished parent created args w)
    if done || finished then (∃ n, r.1 = .exc (.exc cAssertionError n)) ∧ r.2.world = w ∧ r.2.fld 1 = .bool finished
    else r.2.fld 1 = .bool true ∧ r.1 = .ret .none ∧
         r.2.world = (if nestedOpen then w else completedWorld w created parent)

macro "completion_eval" : tactic => `(tactic|
  (simp (config := { decide := true }) [runMethod, exec, exec.execH, eval, builtin, ext, upd, st, parentV, completedWorld,
     Val.truthy, excClass, *]))

end Haiway.Bridge.Completion
