import Haiway.Model.MiniPy
import Haiway.Model.Proc
/-! Bridge between the *regenerated* `MiniPy` terms of `StateContext.__enter__/__exit__`,
    `MetricsContext.__enter__/__exit__`, `TaskGroupContext.__aenter__/__aexit__` (translated from /repo's current
    `context/state.py`, `context/metrics.py`, `context/tasks.py` on every run) and what the `Proc` model of C02 and the
    `Groups` model of C06/C07 assume about them:

    * enter = "`ContextVar.set` the block's value, keep the token" (`Proc.runAtom .stateEnter/.metricsEnter/.groupEnter`);
    * exit = "`ContextVar.reset(token)`: the variable gets the value recorded at enter, whatever it holds now"
      (`.stateExit/.metricsExit/.groupExit`), for the task group *before* the wait for the members begins;
    * `TaskGroupContext.__aexit__` lets a `CancelledError` out of the group's exit wait and silences everything else
      (the C07 repair; `Groups` relies on both halves);
    * a second enter without exit / an exit without enter trips the assertion and leaves the variable alone.

    The statements are `def … (p : Stmt) : Prop` here (committed, readable); the generated file only instantiates them
    with the regenerated terms and calls the evaluation tactic. -/
namespace Haiway.Bridge.Contexts
open Haiway.MiniPy

/-- the world seen by these methods: one context variable (as seen from the current context), its tokens, the task
group's exit wait (an oracle: `none` = returns, `some e` = raises `e`), the metrics node's `_finished` flag, and the
log of external calls in program order -/
structure W where
  var : Option Val
  tok : Nat → Option (Option Val)      -- token identity ↦ value recorded by `set` (`none` = no such token / used)
  nextTok : Nat
  groupExit : Option Val
  finished : Bool
  log : List (Nat × List Val)

/-- externals: 100 `var.set(v)`  101 `var.reset(token)`  102 `var.get()`  103 `group.__aenter__()`
104 `await group.__aexit__(exc)`  105 `metrics._finish()`  106 `metrics.log(…)`  107 `metrics._finished`  108 `metrics.time` -/
def ext : World W := fun f args w fl =>
  let w := { w with log := w.log ++ [(f, args)] }
  (fun (r : Option ((Val ⊕ Val) × W)) => r.map fun (x, w') => (x, w', fl)) <|
  match f, args with
  | 100, [v] => some (.inl (.obj w.nextTok),
      { w with var := some v, tok := fun k => if k = w.nextTok then some w.var else w.tok k, nextTok := w.nextTok + 1 })
  | 101, [.obj k] => (match w.tok k with
      | some old => some (.inl .none, { w with var := old, tok := fun j => if j = k then none else w.tok j })
      | none => none)                                  -- a foreign / used token: RuntimeError/ValueError – outside these obligations
  | 102, [] => (match w.var with
      | some v => some (.inl v, w)
      | none => some (.inr (.exc cLookupError 0), w))
  | 103, [] => some (.inl .none, w)
  | 104, [_] => (match w.groupExit with
      | none => some (.inl .none, w)
      | some e => some (.inr e, w))
  | 105, [] => some (.inl .none, { w with finished := true })
  | 106, _ => some (.inl .none, w)
  | 107, [] => some (.inl (.bool w.finished), w)
  | 108, [] => some (.inl (.int 0), w)
  | _, _ => none

/-- state in which a context object (`fld 0` = the value it installs, `fld 1` = `_token`) runs one of its methods -/
def st (value token : Val) (args : Nat → Val) (w : W) : St W :=
  { loc := args, fld := fun i => if i = 0 then value else if i = 1 then token else .none, world := w }

def calls (s : St W) (before : W) : List (Nat × List Val) := s.world.log.drop before.log.length

/-- **enter** installs the value and keeps the token: afterwards the variable holds `value`, `_token` is a fresh token
that records the previous value, and nothing else happened to the variable. -/
def EnterSets (p : Stmt) : Prop :=
  ∀ (value : Val) (args : Nat → Val) (w : W), w.tok w.nextTok = none → w.finished = false →
    let r := runMethod ext p (st value .none args w)
    (∃ v, r.1 = .ret v) ∧ r.2.world.var = some value ∧ r.2.fld 1 = .obj w.nextTok ∧
    r.2.world.tok w.nextTok = some w.var ∧ (∀ k, k ≠ w.nextTok → r.2.world.tok k = w.tok k)

/-- **re-entrance is refused**: with a token already held the assertion fails and the variable is untouched -/
def EnterRefusesReentrance (p : Stmt) : Prop :=
  ∀ (value : Val) (k : Nat) (args : Nat → Val) (w : W),
    let r := runMethod ext p (st value (.obj k) args w)
    (∃ n, r.1 = .exc (.exc cAssertionError n)) ∧ r.2.world.var = w.var

/-- **exit** resets the token: whatever the variable holds now (`w.var` is arbitrary – the body may have left anything),
afterwards it holds the value recorded at enter, `_token` is `None`, and the token is spent. -/
def ExitResets (p : Stmt) : Prop :=
  ∀ (old : Option Val) (v : Val) (k : Nat) (args : Nat → Val) (w : W), w.tok k = some old → w.groupExit = none →
    let r := runMethod ext p (st v (.obj k) args w)
    (∃ x, r.1 = .ret x) ∧ r.2.world.var = old ∧ r.2.fld 1 = .none ∧ r.2.world.tok k = none

/-- **unbalanced exit is refused** -/
def ExitRefusesUnbalanced (p : Stmt) : Prop :=
  ∀ (v : Val) (args : Nat → Val) (w : W),
    let r := runMethod ext p (st v .none args w)
    (∃ n, r.1 = .exc (.exc cAssertionError n)) ∧ r.2.world.var = w.var

/-- index of the first call of external `f` in a call log -/
def firstIdx (f : Nat) : List (Nat × List Val) → Option Nat
  | [] => none
  | (g, _) :: r => if g = f then some 0 else (firstIdx f r).map (· + 1)

/-- **the task group's exit**: the variable is reset *before* the wait for the members (`Proc.runAtom .groupExit`:
"token reset precedes the await"), the group's `__aexit__` receives the scope's exit reason (`exc_val`), the wait happens
exactly once; a `CancelledError` coming out of the wait propagates **as that object**, any other exception from the wait
is silenced, and in every case the variable ends up reset. -/
def GroupExit (p : Stmt) : Prop :=
  ∀ (old : Option Val) (v : Val) (k : Nat) (args : Nat → Val) (w : W), w.tok k = some old →
    let r := runMethod ext p (st v (.obj k) args w)
    let cs := calls r.2 w
    r.2.world.var = old ∧ r.2.fld 1 = .none ∧
    (cs.filter (fun c => c.1 = 104)) = [(104, [args 1])] ∧
    (∃ i j, firstIdx 101 cs = some i ∧ firstIdx 104 cs = some j ∧ i < j) ∧
    (match w.groupExit with
     | none => ∃ x, r.1 = .ret x
     | some (.exc c n) => if isSub c cCancelledError then r.1 = .exc (.exc c n) else ∃ x, r.1 = .ret x
     | some _ => True)

/-- the metrics exit additionally finishes the node exactly once, after the reset -/
def MetricsExitFinishes (p : Stmt) : Prop :=
  ∀ (old : Option Val) (v : Val) (k : Nat) (args : Nat → Val) (w : W), w.tok k = some old →
    let r := runMethod ext p (st v (.obj k) args w)
    (calls r.2 w).filter (fun c => c.1 = 105) = [(105, [])] ∧ r.2.world.finished = true

/-- enter, then an arbitrary body (which may set the variable to anything and create further tokens but does not use
this block's token), then exit: the variable is what it was before enter.  (What `C02.restored` assumes of every atom
pair.) -/
def RoundTrip (enter exit : Stmt) : Prop :=
  ∀ (value : Val) (args args' : Nat → Val) (w : W) (scr : Option Val), w.tok w.nextTok = none → w.finished = false →
    w.groupExit = none →
    let r1 := runMethod ext enter (st value .none args w)
    let w2 : W := { r1.2.world with var := scr }
    let r2 := runMethod ext exit { r1.2 with loc := args', world := w2 }
    r2.2.world.var = w.var

/-- evaluation tactic: unfold the interpreter on the closed regenerated term, split on what is left symbolic -/
macro "minipy_eval" : tactic => `(tactic|
  (simp (config := { decide := true }) [runMethod, exec, exec.execH, eval, builtin, ext, st, calls, upd, Val.same,
     Val.truthy, excClass, isSub, firstIdx, *]))

end Haiway.Bridge.Contexts
