import Haiway.Model.MiniPy
/-! Bridge for `Disposables.__aexit__` (C08 "cleanup errors surface"), regenerated from /repo's `context/disposables.py`:
    what happens to the results of the disposables' `__aexit__` calls once `gather(…, return_exceptions=True)` has collected
    them (the gather itself – concurrency, cancellation – is the external; C08's dynamic part and the `Disposables` model cover it).
    For **every** list of results and whatever the body's exception was: the disposing errors are the results that are exception
    instances and are **not the very exception handed in** (identity – the repair 2c5bcc1; `True` / `None` / `False` results are
    no errors); none ⇒ the method returns; exactly one ⇒ **that object** is raised (the repair 121f9b8); several ⇒ one
    `BaseExceptionGroup` is built from exactly those, in order, and raised.  Nothing is dropped, nothing is added. -/
namespace Haiway.Bridge.DispExit
open Haiway.MiniPy

structure W where
  results : List Val                 -- what the gathered `__aexit__` calls gave: values and exception instances
  groups : List (List Val) := []     -- members of the `BaseExceptionGroup`s built

/-- externals: 270 `await gather(*[d.__aexit__(…) for d in self._disposables], return_exceptions=True)`
271 `BaseExceptionGroup("Disposing errors", members)` -/
def ext : World W := fun f args w fl =>
  (fun (r : Option ((Val ⊕ Val) × W)) => r.map fun (x, w') => (x, w', fl)) <|
  match f, args with
  | 270, [] => some (.inl (.list w.results), w)
  | 271, [.list ms] => some (.inl (.exc cBaseExceptionGroup (500 + w.groups.length)), { w with groups := w.groups ++ [ms] })
  | _, _ => none

theorem head_is_exc {rs : List Val} {v e : Val} {rest : List Val} (h : excsExcept rs v = e :: rest) : ∃ c n, e = .exc c n := by
  have hm : e ∈ excsExcept rs v := by rw [h]; exact List.mem_cons_self
  unfold excsExcept at hm
  have := (List.mem_filter.mp hm).2
  cases e <;> simp at this
  exact ⟨_, _, rfl⟩

/-- parameters: 0 `exc_type`, 1 `exc_val`, 2 `exc_tb` -/
def ExitSurfaces (p : Stmt) : Prop :=
  ∀ (excType excVal excTb : Val) (w : W), w.groups = [] →
    let r := runMethod ext p ({ loc := fun i => if i = 0 then excType else if i = 1 then excVal else excTb,
                                fld := fun _ => .none, world := w } : St W)
    match excsExcept w.results excVal with
    | [] => r.1 = .ret .none ∧ r.2.world.groups = []
    | [e] => r.1 = .exc e ∧ r.2.world.groups = []
    | e1 :: e2 :: rest => r.1 = .exc (.exc cBaseExceptionGroup 500) ∧ r.2.world.groups = [e1 :: e2 :: rest]

theorem len2_ne_one (n : Nat) : ((n : Int) + 1 + 1 = 1) = False := by
  have : ¬ ((n : Int) + 1 + 1 = 1) := by omega
  simpa using this

theorem one_lt_len2 (n : Nat) : ((1 : Int) < (n : Int) + 1 + 1) = True := by
  have : (1 : Int) < (n : Int) + 1 + 1 := by omega
  simpa using this

macro "dispexit_eval" : tactic => `(tactic|
  (simp (config := { decide := true }) [runMethod, exec, exec.execH, eval, builtin, builtin2, ext, upd, Val.truthy, cmpInt, len2_ne_one,
     one_lt_len2, len1_ne_zero, len1_beq_zero, len1_eq_zero, len1_pos, len1_ge_one, len2_ge_one, len2_eq_one, len2_beq_one, len2_bne_one, len2_gt_one, *]))

end Haiway.Bridge.DispExit
