import Haiway.Model.MiniPy
/-! Bridge for `MetricsContext.scope` (C19 "log lines go to the scope's logger, tagged with an inherited trace id"),
    regenerated from /repo's `context/metrics.py`: the decision which trace id, logger and parent a new scope gets – what
    `Logs.mkScope` (the C19 model) assumes: outside any scope the arguments as given and no parent; inside a scope the
    caller's trace id if one was given, else **the enclosing scope's**, the caller's logger if one was given, else **the
    enclosing scope's**, and the enclosing scope as parent; exactly one `ScopeMetrics` is constructed, and wrapped once.
    ("given" is truthiness – `trace_id=""` counts as not given, a configuration value, DESIGN 0.7.) -/
namespace Haiway.Bridge.LogScope
open Haiway.MiniPy

structure W where
  var : Option Val                  -- the `MetricsContext` variable
  traceOf : Val → Val               -- `<scope>.trace_id`
  loggerOf : Val → Val              -- `<scope>._logger`
  built : List (List Val) := []     -- keyword arguments of the `ScopeMetrics(…)` calls: trace_id, scope, logger, parent, completion
  wrapped : List Val := []          -- arguments of `cls(…)`

/-- externals: 102 `cls._context.get()`  260 `ScopeMetrics(trace_id=, scope=, logger=, parent=, completion=)`
261 `<scope>.trace_id`  262 `<scope>._logger`  263 `cls(<metrics>)` -/
def ext : World W := fun f args w fl =>
  (fun (r : Option ((Val ⊕ Val) × W)) => r.map fun (x, w') => (x, w', fl)) <|
  match f, args with
  | 102, [] => (match w.var with
      | some v => some (.inl v, w)
      | none => some (.inr (.exc cLookupError 0), w))
  | 260, [t, n, l, p, c] => some (.inl (.obj (600 + w.built.length)), { w with built := w.built ++ [[t, n, l, p, c]] })
  | 261, [s] => some (.inl (w.traceOf s), w)
  | 262, [s] => some (.inl (w.loggerOf s), w)
  | 263, [m] => some (.inl (.obj 700), { w with wrapped := w.wrapped ++ [m] })
  | _, _ => none

/-- parameters: 0 `name`, 1 `trace_id`, 2 `logger`, 3 `completion` -/
def ScopeInherits (p : Stmt) : Prop :=
  ∀ (name traceId logger completion : Val) (w : W), w.built = [] → w.wrapped = [] →
    let r := runMethod ext p ({ loc := fun i => if i = 0 then name else if i = 1 then traceId else if i = 2 then logger else completion,
                                fld := fun _ => .none, world := w } : St W)
    r.1 = .ret (.obj 700) ∧ r.2.world.wrapped = [.obj 600] ∧
    r.2.world.built =
      [match w.var with
       | none => [traceId, name, logger, .none, completion]
       | some cur => [if traceId.truthy then traceId else w.traceOf cur, name,
                      if logger.truthy then logger else w.loggerOf cur, cur, completion]]

macro "logscope_eval" : tactic => `(tactic|
  (simp (config := { decide := true }) [runMethod, exec, exec.execH, eval, builtin, ext, upd, excClass, isSub, *]))

end Haiway.Bridge.LogScope
