import Haiway.Model.MiniPy
import Haiway.Model.Metrics
/-! Bridge between the regenerated `MiniPy` terms of `ScopeMetrics.record` and `MetricsContext.record` (translated from
    /repo's current `context/metrics.py` on every run) and the model `Haiway.Metrics.record` / `ctxRecord` of C10.

    fields of a `ScopeMetrics`: 0 `_metrics` (dict type ↦ value), 1 `_completed` (the completion future).
    Recorded values are **arbitrary Python values** (`emb : Nat → Val` universally quantified, truthiness included: the
    repaired code tests presence, not truthiness – `C10.fold_ignores_truthiness` – so a `record` that looks at the truth
    value of what is stored cannot satisfy the obligation). -/
namespace Haiway.Bridge.Metrics
open Haiway.MiniPy

structure W where
  completed : Bool                  -- `self._completed.done()`
  tyOf : Val → Nat                  -- `type(metric)`
  mergeBy : Val → Val → Val → Val ⊕ Val   -- what the user's merge function `f` does on `(a, b)`: a value, or a raised exception
  merged : List (Val × Val) := []   -- arguments the merge function was called with
  var : Option Val := none          -- the `MetricsContext` variable
  recordOut : Val ⊕ Val := .inl .none   -- what `.record(…)` of the scope in the variable does
  recorded : List (Val × Val × Val) := []   -- (receiver, metric, merge) of those calls
  logged : Nat := 0                 -- calls of `cls.log_error`
  received : List Val := []         -- what the nested scopes' merged views yield, chained in creation order

/-- the `MISSING` placeholder -/
def missingV : Val := .obj 999

/-- externals: 110 `future.done()`  140 `type(x)`  141 `merge(a, b)`  102 `cls._context.get()`
150 `<scope>.record(metric, merge=merge)`  151 `cls.log_error(…)`  142 `not_missing(x)`
143 `chain.from_iterable(nested.metrics(merge=merge) for nested in self._nested)` -/
def ext : World W := fun f args w fl =>
  (fun (r : Option ((Val ⊕ Val) × W)) => r.map fun (x, w') => (x, w', fl)) <|
  match f, args with
  | 110, [_] => some (.inl (.bool w.completed), w)
  | 140, [x] => some (.inl (.cls (w.tyOf x)), w)
  | 141, [f, a, b] => some (w.mergeBy f a b, { w with merged := w.merged ++ [(a, b)] })
  | 102, [] => (match w.var with
      | some v => some (.inl v, w)
      | none => some (.inr (.exc cLookupError 0), w))
  | 150, [recv, metric, merge] => some (w.recordOut, { w with recorded := w.recorded ++ [(recv, metric, merge)] })
  | 151, _ => some (.inl .none, { w with logged := w.logged + 1 })
  | 142, [x] => some (.inl (.bool (!x.same missingV)), w)
  | 143, [] => some (.inl (.list w.received), w)
  | _, _ => none

abbrev Store := List (Nat × Nat)        -- type ↦ identity of the stored value, insertion order

def dictOf (emb : Nat → Val) (s : Store) : Val := .dict (s.map fun p => (.cls p.1, emb p.2))
def get (s : Store) (ty : Nat) : Option Nat := (s.find? (·.1 = ty)).map (·.2)

theorem assocGet_dictOf (emb : Nat → Val) (s : Store) (t : Nat) :
    assocGet (s.map fun p => (Val.cls p.1, emb p.2)) (.cls t) = (get s t).map emb := by
  induction s with
  | nil => rfl
  | cons x rest ih =>
    by_cases h : x.1 = t
    · simp [assocGet, Val.same, get, List.find?, h]
    · have h' : (x.1 == t) = false := by simpa using h
      simp only [List.map_cons, assocGet, Val.same, h', get, List.find?] at ih ⊢
      simp [h, ih]

/-- `d[ty] = v` on the concrete dict (`Haiway.Metrics.put`: replace in place, or append) -/
def putVal (kv : List (Val × Val)) (ty : Nat) (v : Val) : List (Val × Val) := assocSet kv (.cls ty) v

/-- **`ScopeMetrics.record(metric, merge=…)`** refines `Metrics.record`: refused (`AssertionError`) once the scope
completed; otherwise the value is stored under its type if nothing is stored there, else the stored value – whatever its
truth value – is replaced by `merge(stored, new)` – called exactly once, with exactly those two – or left as it is when the
merge function raises (the exception propagates as that object).  Nothing else in the dict changes. -/
def RecordRefines (p : Stmt) : Prop :=
  ∀ (emb : Nat → Val) (s : Store) (v : Nat) (mergeFn : Val) (w : W), w.merged = [] →
    (∀ f a b e, w.mergeBy f a b = .inr e → ∃ c n, e = .exc c n) →
    let ty := w.tyOf (emb v)
    let args : Nat → Val := fun i => if i = 0 then emb v else mergeFn
    let s0 : St W := { loc := args, fld := fun i => if i = 0 then dictOf emb s else .obj 77, world := w }
    let r := runMethod ext p s0
    if w.completed then (∃ n, r.1 = .exc (.exc cAssertionError n)) ∧ r.2.fld 0 = dictOf emb s ∧ r.2.world.merged = []
    else match get s ty with
      | none => r.1 = .ret .none ∧ r.2.fld 0 = .dict (putVal (s.map fun p => (.cls p.1, emb p.2)) ty (emb v)) ∧ r.2.world.merged = []
      | some cur =>
        (∀ n, emb n ≠ .none) →       -- stored values are objects, never `None` (the code tests `is not None`)
        r.2.world.merged = [(emb cur, emb v)] ∧
        (match w.mergeBy mergeFn (emb cur) (emb v) with
         | .inl nv => r.1 = .ret .none ∧ r.2.fld 0 = .dict (putVal (s.map fun p => (.cls p.1, emb p.2)) ty nv)
         | .inr e => r.1 = .exc e ∧ r.2.fld 0 = dictOf emb s)

/-- **`MetricsContext.record`** refines `Metrics.ctxRecord` ("recording never raises into user code"): outside any scope,
or when the scope's `record` raises an `Exception` (a failing merge, the completed-scope assertion), the failure is logged
once and the call returns normally; only a bare `BaseException` propagates (as that object); the scope's `record` is
called at most once, with exactly the caller's metric and merge function. -/
def CtxRecordRefines (p : Stmt) : Prop :=
  ∀ (metric mergeFn : Val) (w : W), w.recorded = [] → w.logged = 0 →
    (∀ e, w.recordOut = .inr e → ∃ c n, e = .exc c n) →
    let args : Nat → Val := fun i => if i = 0 then metric else mergeFn
    let r := runMethod ext p ({ loc := args, fld := fun _ => .none, world := w } : St W)
    match w.var with
    | none => r.1 = .ret .none ∧ r.2.world.logged = 1 ∧ r.2.world.recorded = []
    | some o => r.2.world.recorded = [(o, metric, mergeFn)] ∧
      (match w.recordOut with
       | .inl _ => r.1 = .ret .none ∧ r.2.world.logged = 0
       | .inr (.exc c n) => if isSub c cException then r.1 = .ret .none ∧ r.2.world.logged = 1
                            else r.1 = .exc (.exc c n) ∧ r.2.world.logged = 0
       | .inr _ => True)

macro "metrics_eval" : tactic => `(tactic|
  (simp (config := { decide := true }) [runMethod, exec, exec.execH, eval, builtin, ext, dictOf, putVal, upd, Val.same,
     Val.truthy, excClass, assocGet_dictOf, *]))

end Haiway.Bridge.Metrics
